"""Independent numpy reference model (DESIGN.md 3.2).  Imports nothing from quara.

Conventions (pinned down against the textbook definitions, not against quara's code):
  * vec_B(M)_a = Tr(B_a^dagger M) for an orthonormal basis B (general bases: Gram inverse);
  * HS_B(Phi)_ab = Tr(B_a^dagger Phi(B_b)) (orthonormal B);
  * computational basis is row-major: |M>> = M.flatten();  HS_cb = sum_k K (x) conj(K);
  * Choi C = sum_k |K_k>><<K_k| (row-major vec), so Tr C = d for a TP map;
  * composite systems: Kronecker product in ascending subsystem name.
"""
import itertools
import math

import numpy as np

# ----------------------------------------------------------------------------- bases
_I2 = np.eye(2, dtype=complex)
_X = np.array([[0, 1], [1, 0]], dtype=complex)
_Y = np.array([[0, -1j], [1j, 0]], dtype=complex)
_Z = np.array([[1, 0], [0, -1]], dtype=complex)


def pauli_1q(normalized=True):
    f = 1 / math.sqrt(2) if normalized else 1.0
    return [f * _I2, f * _X, f * _Y, f * _Z]


def gell_mann(normalized=True):
    """Gell-Mann matrices l_0..l_8 with l_0 = sqrt(2/3) I (Tr l_a l_b = 2 delta)."""
    l = [math.sqrt(2 / 3) * np.eye(3, dtype=complex)]
    l.append(np.array([[0, 1, 0], [1, 0, 0], [0, 0, 0]], dtype=complex))
    l.append(np.array([[0, -1j, 0], [1j, 0, 0], [0, 0, 0]], dtype=complex))
    l.append(np.array([[1, 0, 0], [0, -1, 0], [0, 0, 0]], dtype=complex))
    l.append(np.array([[0, 0, 1], [0, 0, 0], [1, 0, 0]], dtype=complex))
    l.append(np.array([[0, 0, -1j], [0, 0, 0], [1j, 0, 0]], dtype=complex))
    l.append(np.array([[0, 0, 0], [0, 0, 1], [0, 1, 0]], dtype=complex))
    l.append(np.array([[0, 0, 0], [0, 0, -1j], [0, 1j, 0]], dtype=complex))
    l.append(1 / math.sqrt(3) * np.array([[1, 0, 0], [0, 1, 0], [0, 0, -2]], dtype=complex))
    f = 1 / math.sqrt(2) if normalized else 1.0
    return [f * m for m in l]


def kron_bases(bases):
    """product basis of a list of local bases, ascending order (first factor slowest)."""
    out = [np.array([[1.0 + 0j]])]
    for b in bases:
        out = [np.kron(x, y) for x, y in itertools.product(out, b)]
    return out


def comp_basis(dim, mode="row_major"):
    out = []
    if mode == "row_major":
        for r in range(dim):
            for c in range(dim):
                m = np.zeros((dim, dim), dtype=complex)
                m[r, c] = 1
                out.append(m)
    else:
        for c in range(dim):
            for r in range(dim):
                m = np.zeros((dim, dim), dtype=complex)
                m[r, c] = 1
                out.append(m)
    return out


def hermitian_eij_basis(dim, normalized=True):
    """Hermitian basis NOT starting with the identity: for each col: sym/antisym pairs, then E_cc."""
    f = 1 / math.sqrt(2) if normalized else 1.0
    out = []
    for col in range(dim):
        for row in range(col):
            a = np.zeros((dim, dim), dtype=complex)
            a[row, col] = f
            a[col, row] = f
            out.append(a)
            b = np.zeros((dim, dim), dtype=complex)
            b[row, col] = -1j * f
            b[col, row] = 1j * f
            out.append(b)
        d = np.zeros((dim, dim), dtype=complex)
        d[col, col] = 1
        out.append(d)
    return out


def rotate_basis(basis, orth, keep_first=True):
    """real-orthogonal mixing of an orthonormal Hermitian basis; keeps B_0 when keep_first."""
    n = len(basis)
    o = np.eye(n)
    if keep_first:
        o[1:, 1:] = orth
    else:
        o = orth
    return [sum(o[a, b] * basis[b] for b in range(n)) for a in range(n)]


def gram(basis):
    n = len(basis)
    g = np.zeros((n, n), dtype=complex)
    for a in range(n):
        for b in range(n):
            g[a, b] = np.vdot(basis[a], basis[b])
    return g


def is_orthonormal(basis, tol=1e-12):
    return np.allclose(gram(basis), np.eye(len(basis)), atol=tol)


def vec(basis, m, orthonormal=True):
    """expansion coefficients of m in basis (complex in general)."""
    c = np.array([np.vdot(b, m) for b in basis])
    if orthonormal:
        return c
    return np.linalg.solve(gram(basis), c)


def unvec(basis, v):
    out = np.zeros_like(basis[0], dtype=complex)
    for c, b in zip(v, basis):
        out = out + c * b
    return out


# ----------------------------------------------------------------------------- channels
def apply_kraus(kraus, rho):
    out = np.zeros_like(rho, dtype=complex)
    for k in kraus:
        out = out + k @ rho @ k.conj().T
    return out


def hs_from_kraus(basis, kraus, orthonormal=True):
    n = len(basis)
    images = [apply_kraus(kraus, b) for b in basis]
    hs = np.zeros((n, n), dtype=complex)
    for b in range(n):
        hs[:, b] = vec(basis, images[b], orthonormal)
    return hs


def hs_from_map(basis, fn, orthonormal=True):
    n = len(basis)
    hs = np.zeros((n, n), dtype=complex)
    for b in range(n):
        hs[:, b] = vec(basis, fn(basis[b]), orthonormal)
    return hs


def apply_hs(basis, hs, m, orthonormal=True):
    return unvec(basis, hs @ vec(basis, m, orthonormal))


def hs_cb_from_kraus(kraus):
    return sum(np.kron(k, k.conj()) for k in kraus)


def choi_from_kraus(kraus):
    d = kraus[0].shape[0]
    c = np.zeros((d * d, d * d), dtype=complex)
    for k in kraus:
        v = k.reshape(-1)
        c = c + np.outer(v, v.conj())
    return c


def choi_from_hs(basis, hs):
    """C = sum_ab HS_ab B_a (x) conj(B_b)   (textbook identity for orthonormal B)."""
    n = len(basis)
    d = basis[0].shape[0]
    c = np.zeros((d * d, d * d), dtype=complex)
    for a in range(n):
        for b in range(n):
            if hs[a, b] != 0:
                c = c + hs[a, b] * np.kron(basis[a], basis[b].conj())
    return c


def choi_from_map(fn, d):
    """C = sum_ij Phi(E_ij) (x) E_ij  reshuffled to sum |K>><<K| convention.

    With row-major vec, C[(i,k),(j,l)] = <i|Phi(|k><l|)|j>.
    """
    c = np.zeros((d * d, d * d), dtype=complex)
    for k in range(d):
        for l in range(d):
            e = np.zeros((d, d), dtype=complex)
            e[k, l] = 1
            img = fn(e)
            for i in range(d):
                for j in range(d):
                    c[i * d + k, j * d + l] = img[i, j]
    return c


def hs_from_choi(basis, choi):
    """inverse of choi_from_hs for orthonormal basis: HS_ab = Tr((B_a (x) conj B_b)^dagger C)."""
    n = len(basis)
    hs = np.zeros((n, n), dtype=complex)
    for a in range(n):
        for b in range(n):
            hs[a, b] = np.vdot(np.kron(basis[a], basis[b].conj()), choi)
    return hs


def kraus_from_choi(choi, tol=1e-12):
    w, v = np.linalg.eigh((choi + choi.conj().T) / 2)
    d = int(round(math.sqrt(choi.shape[0])))
    return [math.sqrt(x) * v[:, i].reshape(d, d) for i, x in enumerate(w) if x > tol]


def process_matrix_from_kraus(kraus, d):
    """chi_ab with Phi(rho) = sum_ab chi_ab E_a rho E_b^dagger over the row-major comp basis E."""
    chi = np.zeros((d * d, d * d), dtype=complex)
    for k in kraus:
        v = k.reshape(-1)  # K = sum_a v_a E_a
        chi = chi + np.outer(v, v.conj())
    return chi


# ----------------------------------------------------------------------------- defects
def herm(m):
    return (m + m.conj().T) / 2


def min_eig(m):
    return float(np.min(np.linalg.eigvalsh(herm(m))))


def hermiticity_defect(m):
    return float(np.max(np.abs(m - m.conj().T)))


def tp_defect_hs(basis, hs, orthonormal=True):
    """max_b |Tr Phi(B_b) - Tr B_b|."""
    tr = np.array([np.trace(b) for b in basis])
    return float(np.max(np.abs(tr @ hs - tr))) if orthonormal else None


def tp_defect_choi(choi, d):
    """|| Tr_out C - I ||_max ; C indices (i,k),(j,l): out i,j ; in k,l."""
    c = choi.reshape(d, d, d, d)  # i k j l
    red = np.einsum("ikil->kl", c)
    return float(np.max(np.abs(red - np.eye(d))))


# ----------------------------------------------------------------------------- projections
def psd_clip(m):
    w, v = np.linalg.eigh(herm(m))
    w = np.where(w < 0, 0.0, w)
    return (v * w) @ v.conj().T


def simplex_project(w):
    """Euclidean projection of a real vector onto the probability simplex."""
    w = np.asarray(w, dtype=float)
    u = np.sort(w)[::-1]
    css = np.cumsum(u)
    ks = np.arange(1, len(w) + 1)
    cond = u + (1 - css) / ks > 0
    k = ks[cond][-1]
    tau = (css[cond][-1] - 1) / k
    return np.maximum(w - tau, 0)


def nearest_density_matrix(m):
    """nearest (Frobenius) unit-trace PSD matrix to Hermitian m."""
    w, v = np.linalg.eigh(herm(m))
    p = simplex_project(w)
    return (v * p) @ v.conj().T


# ----------------------------------------------------------------------------- constructions
def ginibre(raw, rows, cols):
    # quantise to multiples of 2^-24: removes subnormal / tiny draws that make LAPACK QR under-flow to NaN,
    # so the construction is total on every draw (and on every shrink)
    raw = np.round(np.asarray(raw, dtype=float) * 2.0 ** 24) / 2.0 ** 24
    need = 2 * rows * cols
    if raw.size < need:
        raw = np.concatenate([raw, np.zeros(need - raw.size)])
    a = raw[: rows * cols].reshape(rows, cols) + 1j * raw[rows * cols : need].reshape(rows, cols)
    return a


def unitary_from_raw(raw, n):
    a = ginibre(raw, n, n)
    q, r = np.linalg.qr(a)
    # fix phases so the map raw -> Q is well defined
    dg = np.diag(r).copy()
    ph = np.where(np.abs(dg) > 0, dg / np.where(np.abs(dg) > 0, np.abs(dg), 1), 1)
    return q * ph


def isometry_from_raw(raw, rows, cols):
    """rows x cols isometry (rows >= cols), V^dagger V = I."""
    a = ginibre(raw, rows, cols)
    q, r = np.linalg.qr(a)  # reduced: rows x cols
    if q.shape[1] < cols:
        raise ValueError("rows < cols")
    return q


def simplex_from_raw(raw, zero_mask=None):
    p = np.abs(np.round(np.asarray(raw, dtype=float) * 2.0 ** 24) / 2.0 ** 24) + 1e-3
    if zero_mask is not None:
        zm = np.asarray(zero_mask, dtype=bool)
        if zm.all():
            zm = zm.copy()
            zm[0] = False
        p = np.where(zm, 0.0, p)
    return p / p.sum()


def density_from_raw(raw_u, raw_p, d, zero_mask=None):
    u = unitary_from_raw(raw_u, d)
    p = simplex_from_raw(raw_p[:d], zero_mask)
    return herm((u * p) @ u.conj().T)


def povm_from_raw(raw, d, m, kind="naimark"):
    """list of m PSD d x d matrices summing to the identity."""
    if kind == "projective":
        u = unitary_from_raw(raw, d)
        groups = [[] for _ in range(m)]
        for i in range(d):
            groups[i % m].append(i)
        out = []
        for g in groups:
            e = np.zeros((d, d), dtype=complex)
            for i in g:
                e = e + np.outer(u[:, i], u[:, i].conj())
            out.append(herm(e))
        return out
    if kind == "rank1" and m >= d:
        v = isometry_from_raw(raw, m, d)  # rows = outcomes
        return [herm(np.outer(v[x, :].conj(), v[x, :])) for x in range(m)]
    v = isometry_from_raw(raw, d * m, d)
    out = []
    for x in range(m):
        vx = v[x * d : (x + 1) * d, :]
        out.append(herm(vx.conj().T @ vx))
    return out


def kraus_from_raw(raw, d, r):
    """r Kraus operators of a CPTP map from a Stinespring isometry."""
    v = isometry_from_raw(raw, d * r, d)
    return [v[k * d : (k + 1) * d, :] for k in range(r)]


def instrument_from_raw(raw, d, counts):
    """measurement process: counts[x] Kraus operators for outcome x; sum over all is TP."""
    r = int(sum(counts))
    ks = kraus_from_raw(raw, d, r)
    out, i = [], 0
    for c in counts:
        out.append(ks[i : i + c])
        i += c
    return out


# ----------------------------------------------------------------------------- misc
def born(povm, rho):
    return np.array([float(np.real(np.trace(e @ rho))) for e in povm])


def heisenberg(kraus, e):
    out = np.zeros_like(e, dtype=complex)
    for k in kraus:
        out = out + k.conj().T @ e @ k
    return out


def commutator_norm(a, b):
    return float(np.linalg.norm(a @ b - b @ a))


def algebraic_tol(dim, scale=1.0, c=1e3):
    return c * 2.2e-16 * dim * dim * (1.0 + scale)


# ----------------------------------------------------------------------------- physical sets in stacked coordinates
_T_CACHE = {}


def choi_transform(basis):
    """unitary T with vec(Choi) = T @ vec(HS) for an orthonormal basis (cached by id of first element bytes)."""
    key = (len(basis), basis[1].tobytes() if len(basis) > 1 else b"")
    t = _T_CACHE.get(key)
    if t is None:
        n = len(basis)
        t = np.zeros((n * n, n * n), dtype=complex)
        for a in range(n):
            for b in range(n):
                t[:, a * n + b] = np.kron(basis[a], basis[b].conj()).reshape(-1)
        _T_CACHE[key] = t
    return t


def _blocks(t, x, n, m):
    if t == "state":
        return [x]
    if t == "povm":
        return [x[i * n:(i + 1) * n] for i in range(m)]
    if t == "gate":
        return [x]
    return [x[i * n * n:(i + 1) * n * n] for i in range(m)]


def proj_eq_stacked(t, x, d, m=None):
    """orthogonal projection onto the (affine) equality set, stacked coordinates, normalised basis with B_0=I/sqrt d."""
    n = d * d
    x = np.array(x, dtype=float)
    if t == "state":
        x[0] = 1 / math.sqrt(d)
    elif t == "povm":
        s = sum(x[i * n:(i + 1) * n] for i in range(m))
        c = np.zeros(n)
        c[0] = math.sqrt(d)
        for i in range(m):
            x[i * n:(i + 1) * n] -= (s - c) / m
    elif t == "gate":
        x[:n] = 0
        x[0] = 1
    else:
        s = sum(x[i * n * n:i * n * n + n] for i in range(m))
        c = np.zeros(n)
        c[0] = 1
        for i in range(m):
            x[i * n * n:i * n * n + n] -= (s - c) / m
    return x


def proj_ineq_stacked(t, x, basis, d, m=None):
    """projection onto the product of PSD cones (each rho / E_x / Choi_x), stacked coordinates."""
    n = d * d
    x = np.array(x, dtype=float)
    if t in ("state", "povm"):
        mm = 1 if t == "state" else m
        out = []
        for i in range(mm):
            mat = unvec(basis, x[i * n:(i + 1) * n])
            out.append(np.real(vec(basis, psd_clip(mat))))
        return np.concatenate(out)
    tm = choi_transform(basis)
    mm = 1 if t == "gate" else m
    out = []
    for i in range(mm):
        hs = x[i * n * n:(i + 1) * n * n]
        choi = (tm @ hs).reshape(n, n)
        out.append(np.real(tm.conj().T @ psd_clip(choi).reshape(-1)))
    return np.concatenate(out)


def eq_defect_stacked(t, x, d, m=None):
    return float(np.max(np.abs(proj_eq_stacked(t, x, d, m) - np.asarray(x, dtype=float))))


def ineq_defect_stacked(t, x, basis, d, m=None):
    """max negative eigenvalue magnitude over the blocks."""
    n = d * d
    worst = 0.0
    if t in ("state", "povm"):
        mm = 1 if t == "state" else m
        for i in range(mm):
            worst = max(worst, -min_eig(unvec(basis, x[i * n:(i + 1) * n])))
    else:
        tm = choi_transform(basis)
        mm = 1 if t == "gate" else m
        for i in range(mm):
            worst = max(worst, -min_eig((tm @ x[i * n * n:(i + 1) * n * n]).reshape(n, n)))
    return max(0.0, worst)


def dykstra_reference(t, x, basis, d, m=None, max_iter=20000, tol=1e-30):
    """independent Dykstra iteration (matrix-level closed-form projections) run to numerical convergence.

    returns (z, cert) where cert is an a-posteriori bound on ||z - P(x)||: with x - z = p + q, p normal to the affine
    set and q in the normal cone of the PSD product at z (-q PSD, <q,z>=0), for every feasible c
    <x-z, c-z> <= -<q,z> + (infeasibility terms), hence ||z-P(x)||^2 <= gap.
    """
    x = np.asarray(x, dtype=float)
    p = np.zeros_like(x)
    q = np.zeros_like(x)
    z = x.copy()
    for _ in range(max_iter):
        y = proj_eq_stacked(t, z + p, d, m)
        p = z + p - y
        z_new = proj_ineq_stacked(t, y + q, basis, d, m)
        q = y + q - z_new
        delta = float(np.sum((z_new - z) ** 2))
        z = z_new
        if delta <= tol:
            break
    # certificate
    eq_res = float(np.linalg.norm(proj_eq_stacked(t, z, d, m) - z))  # distance to affine set (z is PSD-feasible)
    # p must be normal to the affine set: its tangential component
    p_tan = float(np.linalg.norm(proj_eq_stacked(t, p, d, m) - proj_eq_stacked(t, np.zeros_like(p), d, m)))
    # -q PSD-ness and complementarity
    negq_def = ineq_defect_stacked(t, -q, basis, d, m)
    compl = abs(float(np.dot(q, z)))
    resid = float(np.linalg.norm(x - z - p - q))
    scale = 1.0 + float(np.linalg.norm(x))
    gap = compl + scale * (eq_res + p_tan + resid) + scale * negq_def * math.sqrt(len(x))
    return z, {"eq_res": eq_res, "p_tan": p_tan, "negq": negq_def, "compl": compl, "resid": resid,
               "err_bound": math.sqrt(max(gap, 0.0))}
