"""case -> quara objects.  The only module that calls quara constructors for generated cases."""
import numpy as np

from harness import gen
from harness import refmodel as rm


def quara_local_basis(d, kind="normal"):
    from quara.objects import matrix_basis as mb

    if kind == "normal":
        return mb.get_normalized_pauli_basis() if d == 2 else mb.get_normalized_gell_mann_basis()
    if kind == "ggm":  # normalized generalized Gell-Mann (== normal for d=3 up to ordering)
        return mb.get_normalized_generalized_gell_mann_basis(dim=d)
    if kind == "unnormalized":
        return mb.get_pauli_basis() if d == 2 else mb.get_gell_mann_basis()
    if kind == "hermitian":
        return mb.get_normalized_hermitian_basis(d)
    if kind == "comp":
        return mb.get_comp_basis(d)
    raise ValueError(kind)


def c_sys_for(shape, names=None, kind="normal", custom_basis=None):
    """fresh CompositeSystem for a shape; names default to 0..k-1."""
    from quara.objects.composite_system import CompositeSystem
    from quara.objects.elemental_system import ElementalSystem
    from quara.objects.matrix_basis import MatrixBasis

    dims = gen.SHAPES[shape]
    names = list(range(len(dims))) if names is None else names
    es = []
    for n, d in zip(names, dims):
        b = MatrixBasis(custom_basis) if custom_basis is not None else quara_local_basis(d, kind)
        es.append(ElementalSystem(int(n), b))
    return CompositeSystem(es)


def quara_basis_matrices(c_sys):
    out = []
    for b in c_sys.basis():
        out.append(np.asarray(b.toarray() if hasattr(b, "toarray") else b, dtype=complex))
    return out


def _rep(a, tag):
    from harness import reps

    return reps.arr(a, tag)


def make(c_sys, typ, stacked, m=None, **kw):
    """quara object from a real stacked vector (no physicality requirement by default)."""
    from quara.objects.gate import Gate
    from quara.objects.mprocess import MProcess
    from quara.objects.povm import Povm
    from quara.objects.state import State

    kw.setdefault("is_physicality_required", False)
    from harness import reps

    # the flag as Python bool / numpy bool / int (the values decide; see harness/reps.py)
    kw["is_physicality_required"] = reps.flag(kw["is_physicality_required"], typ + str(np.asarray(stacked).size))
    _mshape = kw.pop("mshape", None)
    stacked = np.ascontiguousarray(np.asarray(stacked, dtype=np.float64))
    n = c_sys.dim ** 2
    if typ == "state":
        return State(c_sys, _rep(stacked.copy(), "state"), **kw)
    if typ == "povm":
        m = stacked.size // n if m is None else m
        return Povm(c_sys, [_rep(stacked[i * n : (i + 1) * n].copy(), "povm") for i in range(m)], **kw)
    if typ == "gate":
        return Gate(c_sys, _rep(stacked.reshape(n, n).copy(), "gate"), **kw)
    mshape = _mshape
    if typ == "mprocess":
        m = stacked.size // (n * n) if m is None else m
        if mshape is not None:
            kw["shape"] = tuple(mshape)  # explicit (multi-axis) outcome layout
        hss = [_rep(stacked[i * n * n : (i + 1) * n * n].reshape(n, n).copy(), "mprocess") for i in range(m)]
        from harness import reps

        h = reps.pick(("hss", stacked.tobytes()), 5) if reps._on() else 0
        if h == 3:
            hss = tuple(hss)
        elif h == 4:
            hss = np.array([np.array(x) for x in hss])  # one 3-d array (m, d^2, d^2) instead of a list of matrices
        return MProcess(c_sys, hss, **kw)
    raise ValueError(typ)


def obj_from_case(case, c_sys=None, **kw):
    c_sys = c_sys_for(case["shape"]) if c_sys is None else c_sys
    basis = gen.ref_basis(case["shape"])
    stacked = gen.stacked_reference(case, basis)
    return make(c_sys, case["type"], stacked, m=case.get("m"), **kw), c_sys


def stacked_of(obj):
    return np.asarray(obj.to_stacked_vector(), dtype=float)
