"""Tomography configurations for C10/C11/C13/C15: informationally complete tester sets by construction,
quara tomography objects built from them, and refmodel Born-rule distributions (no quara in the oracle part)."""
import itertools
import math

import numpy as np
from hypothesis import strategies as st

from harness import build, gen
from harness import refmodel as rm


# ----------------------------------------------------------------------------- IC tester sets (matrix level)
def ic_state_vectors(d):
    """d^2 pure states whose projectors span operator space: |i>, (|i>+|j>)/sqrt2, (|i>+i|j>)/sqrt2 (i<j)."""
    out = []
    for i in range(d):
        v = np.zeros(d, dtype=complex)
        v[i] = 1
        out.append(v)
    for i in range(d):
        for j in range(i + 1, d):
            v = np.zeros(d, dtype=complex)
            v[i] = v[j] = 1 / math.sqrt(2)
            out.append(v)
            w = np.zeros(d, dtype=complex)
            w[i] = 1 / math.sqrt(2)
            w[j] = 1j / math.sqrt(2)
            out.append(w)
    return out


def ic_measurement_bases(d):
    """list of unitaries (columns = measured basis) whose projective measurements are jointly IC."""
    out = [np.eye(d, dtype=complex)]
    for i in range(d):
        for j in range(i + 1, d):
            for ph in (1, 1j):
                u = np.eye(d, dtype=complex)
                u[:, i] = 0
                u[:, j] = 0
                u[i, i] = 1 / math.sqrt(2)
                u[j, i] = ph / math.sqrt(2)
                u[i, j] = 1 / math.sqrt(2)
                u[j, j] = -ph / math.sqrt(2)
                out.append(u)
    return out


def tester_states(d, u):
    return [rm.herm(np.outer(u @ v, (u @ v).conj())) for v in ic_state_vectors(d)]


def tester_povms(d, u):
    out = []
    for b in ic_measurement_bases(d):
        w = u @ b
        out.append([rm.herm(np.outer(w[:, k], w[:, k].conj())) for k in range(d)])
    return out


# ----------------------------------------------------------------------------- cases
@st.composite
def tomo_case(draw, kinds=("qst", "povmt", "qpt", "qmpt"), shapes=("1q",), m_range=(2, 3)):
    kind = draw(st.sampled_from(list(kinds)))
    shape = draw(st.sampled_from(list(shapes)))
    d = gen.dim_of(shape)
    case = {"tomo": kind, "shape": shape, "flag": draw(st.booleans()), "raw_u": draw(gen.raw(2 * d * d))}
    # over-complete sets: generic (mixed, non-projective, unequal-trace) testers on top of the IC family
    if kind in ("povmt", "qpt", "qmpt") and draw(st.booleans()):
        case["extra_states"] = [draw(gen.state_case((shape,), special=False)) for _ in range(draw(st.integers(1, 2)))]
    if kind in ("qst", "qpt", "qmpt") and draw(st.booleans()):
        case["extra_povms"] = [
            {"type": "povm", "shape": shape, "m": d, "kind": "naimark", "raw": draw(gen.raw(2 * d * d * d))}
            for _ in range(draw(st.integers(1, 2)))
        ]
    # the imaginary-part truncation threshold given explicitly (with the default's own value) or left to the default
    case["eps_trunc"] = draw(st.sampled_from([None, None, 1e-13]))
    if kind == "qst":
        case["true"] = draw(gen.state_case((shape,)))
    elif kind == "povmt":
        # the linear estimator stacks per-schedule data, so the unknown POVM has one outcome count for all schedules
        case["true"] = draw(gen.povm_case((shape,), m_range))
    elif kind == "qpt":
        case["true"] = draw(gen.gate_case((shape,), max_rank=3))
    else:
        case["true"] = draw(gen.mprocess_case((shape,), (2, 2) if m_range[1] < 3 else (2, 3), max_per=2))
    return case


def n_testers(case):
    """(number of tester states, number of tester POVMs) of a tomo case."""
    d = gen.dim_of(case["shape"])
    return d * d + len(case.get("extra_states", [])), 1 + d * (d - 1) + len(case.get("extra_povms", []))


def true_type(kind):
    return {"qst": "state", "povmt": "povm", "qpt": "gate", "qmpt": "mprocess"}[kind]


def build_tomo(case, **kw):
    """(quara tomography object, c_sys, info dict with matrix-level testers)."""
    from quara.protocol.qtomography.standard.standard_povmt import StandardPovmt
    from quara.protocol.qtomography.standard.standard_qmpt import StandardQmpt
    from quara.protocol.qtomography.standard.standard_qpt import StandardQpt
    from quara.protocol.qtomography.standard.standard_qst import StandardQst

    shape = case["shape"]
    d = gen.dim_of(shape)
    basis = gen.ref_basis(shape)
    c_sys = build.c_sys_for(shape)
    u = rm.unitary_from_raw(case["raw_u"], d)
    st_m = tester_states(d, u) + [gen.state_matrix(c) for c in case.get("extra_states", [])]
    pv_m = tester_povms(d, u) + [gen.povm_matrices(c) for c in case.get("extra_povms", [])]
    states = [build.make(c_sys, "state", np.real(rm.vec(basis, r))) for r in st_m]
    povms = [build.make(c_sys, "povm", np.concatenate([np.real(rm.vec(basis, e)) for e in p]), m=d) for p in pv_m]
    flag = case["flag"]
    kind = case["tomo"]
    from harness import reps

    common = dict(on_para_eq_constraint=reps.flag(flag, kind + shape), seed_data=case.get("seed_data", 7))
    if case.get("eps_trunc") is not None:
        common["eps_truncate_imaginary_part"] = float(case["eps_trunc"])
    common.update(kw)
    m = case["true"].get("m")
    if kind == "qst":
        qt = StandardQst(povms, **common)
    elif kind == "povmt":
        qt = StandardPovmt(states, num_outcomes=m, **common)
    elif kind == "qpt":
        qt = StandardQpt(states, povms, **common)
    else:
        qt = StandardQmpt(states, povms, num_outcomes=m, **common)
    return qt, c_sys, {"states": st_m, "povms": pv_m, "basis": basis, "d": d, "m": m}


def exact_dists(case, info, obj_mats=None):
    """refmodel Born-rule distributions of the 'all' schedule list, in quara's documented order."""
    kind = case["tomo"]
    mats = gen.matrices(case["true"]) if obj_mats is None else obj_mats
    sts, pvs = info["states"], info["povms"]
    out = []
    if kind == "qst":
        for p in pvs:
            out.append(rm.born(p, mats))
    elif kind == "povmt":
        for r in sts:
            out.append(rm.born(mats, r))
    elif kind == "qpt":
        for r, p in itertools.product(sts, pvs):
            out.append(rm.born(p, rm.apply_kraus(mats, r)))
    else:
        for r, p in itertools.product(sts, pvs):
            row = []
            for ks in mats:  # instrument outcome major, POVM outcome minor
                post = rm.apply_kraus(ks, r)
                row.extend(float(np.real(np.trace(e @ post))) for e in p)
            out.append(np.array(row))
    return [np.asarray(o, dtype=float) for o in out]


def stacked_true(case, info):
    return gen.stacked_reference(case["true"], info["basis"])


def estimate_stacked(result_qoperation):
    return np.asarray(result_qoperation.to_stacked_vector(), dtype=float)


def empi_from_counts(counts_lists):
    return [(int(sum(c)), np.asarray(c, dtype=float) / float(sum(c))) for c in counts_lists]


@st.composite
def data_for(draw, n_sched, n_out, kinds=("exact", "fewshot", "far", "noisy")):
    """description of the data attached to a tomo case: exact / few-shot counts / arbitrary simplex points."""
    kind = draw(st.sampled_from(list(kinds)))
    d = {"data": kind}
    if kind == "fewshot":
        n = draw(st.integers(1, 50))
        d["n"] = n
        d["draws"] = draw(st.lists(st.lists(st.integers(0, 10 ** 6), min_size=n, max_size=n), min_size=n_sched, max_size=n_sched))
    elif kind == "far":
        d["raw"] = draw(st.lists(gen.raw(n_out), min_size=n_sched, max_size=n_sched))
        d["zero"] = draw(st.lists(st.lists(st.booleans(), min_size=n_out, max_size=n_out), min_size=n_sched, max_size=n_sched))
        d["n"] = draw(st.integers(1, 10 ** 5))
    elif kind == "noisy":
        # shot-noise-sized perturbation of the exact distribution (what sampling n shots of an interior object gives)
        d["n"] = draw(st.sampled_from([100, 1000, 10 ** 4, 10 ** 5]))
        d["raw"] = draw(st.lists(gen.raw(n_out), min_size=n_sched, max_size=n_sched))
    else:
        d["n"] = draw(st.sampled_from([10, 1000, 10 ** 5]))
    return d


def make_empi(desc, exact):
    """empirical distributions from the data description; few-shot data are sampled by inverse-cdf of the exact
    distribution from Hypothesis-drawn integers (so zeros occur and the data are a pure function of the case)."""
    out = []
    for j, p in enumerate(exact):
        p = np.clip(np.asarray(p, dtype=float), 0, None)
        p = p / p.sum()
        if desc["data"] == "exact":
            out.append((desc["n"], p))
        elif desc["data"] == "noisy":
            r = np.asarray(desc["raw"][j][: len(p)], dtype=float)
            qv = np.clip(p + r * np.sqrt(np.maximum(p * (1 - p), 1e-4) / desc["n"]) * 2.0, 0, None)
            out.append((desc["n"], qv / qv.sum()))
        elif desc["data"] == "fewshot":
            cdf = np.cumsum(p)
            cnt = np.zeros(len(p))
            for v in desc["draws"][j]:
                u = (v + 0.5) / 10 ** 6
                k = int(np.searchsorted(cdf, u, side="left"))
                cnt[min(k, len(p) - 1)] += 1
            out.append((desc["n"], cnt / cnt.sum()))
        else:
            q = rm.simplex_from_raw(desc["raw"][j][: len(p)], desc["zero"][j][: len(p)])
            out.append((desc["n"], q))
    return out
