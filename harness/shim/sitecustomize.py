# Harness-side import shim (no change to /repo): quara/objects/composite_system.py does
# `from scipy.linalg import kron`, a name removed from scipy >= 1.18 and never used by quara
# (every call site uses matrix_util.kron / scipy.sparse.kron).  A sitecustomize is used so that
# joblib/loky worker processes, which inherit PYTHONPATH, get it as well.
try:
    import numpy as _np
    import scipy.linalg as _sl

    if not hasattr(_sl, "kron"):
        _sl.kron = _np.kron
except Exception:  # pragma: no cover - numpy/scipy absent: nothing to shim
    pass
