"""Basis covariance: the same operators expressed in a hand-rotated (still orthonormal, Hermitian, identity-first) basis.

A real-orthogonal rotation O_k of the non-identity elements of every local basis gives a basis every quara object
accepts; coefficient vectors transform as v' = O v with O = kron_k O_k, Hilbert-Schmidt matrices as O H O^T.  Whatever
the library computes from the rotated twins must denote the same operators / numbers as what it computes from the
originals (wave m: slips that are right only under the built-in conventions).
"""
import numpy as np

from harness import build, gen
from harness import refmodel as rm


def _q(raw):
    return np.round(np.asarray(raw, dtype=float) * 2.0 ** 24) / 2.0 ** 24


def orth_from_raw(raw, n):
    """real orthogonal n x n matrix, total on every draw (QR with sign fix)."""
    a = _q(raw)
    if a.size < n * n:
        a = np.concatenate([a, np.zeros(n * n - a.size)])
    a = a[: n * n].reshape(n, n) + np.eye(n) * 1e-3
    q, r = np.linalg.qr(a)
    s = np.sign(np.diag(r))
    s = np.where(s == 0, 1.0, s)
    return q * s


def local_rotation(d, raw, which, mode="keep_first"):
    """orthogonal d^2 x d^2; `which` decorrelates the subsystems of one draw.
    keep_first: first row/column e_0 (the first element stays I/sqrt(d));  full: every element mixed;
    givens0: the identity element rotated with ONE other element only (so B_0 is no longer proportional to the identity
    although, when the partner is off-diagonal, its diagonal still is flat)."""
    n = d * d
    r = np.roll(np.asarray(raw, dtype=float), 7 * which)
    o = np.eye(n)
    if mode == "keep_first":
        o[1:, 1:] = orth_from_raw(r, n - 1)
    elif mode == "full":
        o = orth_from_raw(r, n)
    elif mode == "givens0":
        j = 1 + int(abs(r[0]) * 1e6) % (n - 1)
        th = 0.2 + 1.1 * abs(float(r[1]))  # 0.2 .. 1.3 rad: never a trivial rotation
        o[0, 0] = o[j, j] = np.cos(th)
        o[0, j], o[j, 0] = np.sin(th), -np.sin(th)
    else:
        raise ValueError(mode)
    return o


def local_ref_basis(d):
    return rm.pauli_1q(True) if d == 2 else rm.gell_mann(True)


def rotated_env(shape, raw, names=None, mode="keep_first"):
    """(c_sys, O, ref_basis): fresh composite system over rotated local bases, the full rotation, the rotated reference basis."""
    from quara.objects.composite_system import CompositeSystem
    from quara.objects.elemental_system import ElementalSystem
    from quara.objects.matrix_basis import MatrixBasis, SparseMatrixBasis

    dims = gen.SHAPES[shape]
    names = list(range(len(dims))) if names is None else names
    es, locs, full = [], [], np.eye(1)
    for k, (n, d) in enumerate(zip(names, dims)):
        o = local_rotation(d, raw, k, mode)
        b = rm.rotate_basis(local_ref_basis(d), o, keep_first=False)
        b = [rm.herm(x) for x in b]
        locs.append(b)
        # both basis classes the library offers for user-built bases (the drawn values decide which)
        cls = SparseMatrixBasis if int(abs(float(np.asarray(raw, dtype=float)[2 + k])) * 1e6) % 2 == 0 else MatrixBasis
        es.append(ElementalSystem(int(n), cls(b)))
        full = np.kron(full, o)
    return CompositeSystem(es), full, rm.kron_bases(locs)


def transform(typ, stacked, o, m=None):
    """stacked real vector of an object in the default basis -> stacked vector of the same object in the rotated basis."""
    s = np.asarray(stacked, dtype=float)
    n = o.shape[0]
    if typ == "state":
        return o @ s
    if typ == "povm":
        return np.concatenate([o @ s[i * n : (i + 1) * n] for i in range(s.size // n)])
    if typ == "gate":
        return (o @ s.reshape(n, n) @ o.T).reshape(-1)
    if typ == "mprocess":
        k = s.size // (n * n)
        return np.concatenate([(o @ s[i * n * n : (i + 1) * n * n].reshape(n, n) @ o.T).reshape(-1) for i in range(k)])
    raise ValueError(typ)


def back(typ, stacked, o):
    """inverse of transform."""
    return transform(typ, stacked, o.T)


def twin(case, raw, names=None, **kw):
    """(obj_default, obj_rotated, O): the case's object over the default basis and over the rotated basis."""
    obj, c_sys = build.obj_from_case(case, build.c_sys_for(case["shape"], names=names), **kw)
    c_rot, o, _ = rotated_env(case["shape"], raw, names)
    stacked = gen.stacked_reference(case, gen.ref_basis(case["shape"]))
    obj_r = build.make(c_rot, case["type"], transform(case["type"], stacked, o), m=case.get("m"), **kw)
    return obj, obj_r, o
