"""Equally valid in-memory representations of the same values (DESIGN.md 11.5, wave i).

Every choice is a pure function of the values and a tag (sha256), so a case still determines the run completely and no
Hypothesis draw is spent on it.  VERIF_REPS=0 switches all of it off (canonical forms only)."""
import hashlib
import os

import numpy as np


def _on():
    return os.environ.get("VERIF_REPS", "1") != "0"


def pick(key, n):
    """deterministic choice in range(n) from a key (bytes / str / anything with a repr)."""
    if isinstance(key, np.ndarray):
        key = key.tobytes()
    elif not isinstance(key, (bytes, bytearray)):
        key = repr(key).encode()
    return hashlib.sha256(bytes(key)).digest()[0] % n


def arr(a, tag=""):
    """canonical / strided (non-contiguous) view / Fortran-ordered (2-d) / read-only copy of a float array."""
    a = np.asarray(a)
    if not _on() or a.size == 0:
        return a
    h = pick(a.tobytes() + tag.encode(), 6)
    if h <= 2:
        return a
    if h == 3:
        if a.ndim == 1:
            big = np.zeros(2 * a.size, dtype=a.dtype)
            v = big[::2]
        elif a.ndim == 2:
            big = np.zeros((a.shape[0], 2 * a.shape[1]), dtype=a.dtype)
            v = big[:, ::2]
        else:
            return a
        v[...] = a
        return v
    if h == 4:
        return np.asfortranarray(a) if a.ndim == 2 else a
    b = a.copy()
    b.flags.writeable = False
    return b


def layout(a, tag=""):
    """a 2-d array in C order, Fortran order or as the transposed view of its transpose (same values)."""
    a = np.asarray(a)
    if not _on() or a.ndim != 2:
        return a
    h = pick(a.tobytes() + tag.encode(), 4)
    if h <= 1:
        return a
    if h == 2:
        return np.asfortranarray(a)
    return np.ascontiguousarray(a.T).T


def flag(b, tag=""):
    """a boolean flag as Python bool, numpy bool or int."""
    if not _on():
        return bool(b)
    h = pick(("flag", bool(b), tag), 4)
    if h <= 1:
        return bool(b)
    if h == 2:
        return np.bool_(b)
    return int(bool(b))


def seq(items, tag=""):
    """a list as list or tuple."""
    if not _on():
        return list(items)
    return tuple(items) if pick(("seq", repr(items)[:200], tag), 3) == 0 else list(items)


def int_valued(a):
    a = np.asarray(a, dtype=float)
    return bool(a.size) and bool(np.all(a == np.round(a))) and bool(np.max(np.abs(a)) < 2 ** 40)
