"""Stream / sampling reference model for C14 (pure numpy, imports nothing from quara)."""
import math

import numpy as np


# ----------------------------------------------------------------------------- streams
class ScriptedGenerator(np.random.Generator):
    """A np.random.Generator whose random() returns scripted values (all on the 2**-53 grid in [0,1))."""

    def __init__(self, values):
        super().__init__(np.random.MT19937(0))
        self._values = [float(v) for v in values]
        self._pos = 0
        self.calls = []

    def random(self, size=None, *a, **k):
        self.calls.append(size)
        if size is None:
            v = self._values[self._pos]
            self._pos += 1
            return v
        n = int(size)
        out = np.array(self._values[self._pos:self._pos + n], dtype=np.float64)
        if len(out) != n:
            raise AssertionError("scripted stream exhausted")
        self._pos += n
        return out


def make_generator(desc):
    if desc["bitgen"] == "mt":
        return np.random.Generator(np.random.MT19937(int(desc["seed"])))
    if desc["bitgen"] == "pcg":
        return np.random.default_rng(int(desc["seed"]))
    raise ValueError(desc)


def global_state():
    return np.random.get_state()


def states_equal(a, b):
    """legacy RandomState state tuples, exact."""
    return (
        a[0] == b[0]
        and np.array_equal(np.asarray(a[1]), np.asarray(b[1]))
        and int(a[2]) == int(b[2])
        and int(a[3]) == int(b[3])
        and float(a[4]) == float(b[4])
    )


class Stream:
    """uniform view on a twin Generator / mirror RandomState."""

    def __init__(self, obj):
        self.obj = obj

    def random(self, n):
        if isinstance(self.obj, np.random.RandomState):
            return self.obj.random_sample(n)
        return self.obj.random(n)

    def multinomial(self, n, p, size=None):
        return self.obj.multinomial(n, np.array(p, dtype=np.float64), size)


# ----------------------------------------------------------------------------- reference samplers
def seq_cumsum(p):
    out, c = [], 0.0
    for x in p:
        c += float(x)
        out.append(c)
    return out


def ref_inverse_cdf(p, rs):
    """first index k with r < cumsum_k ; None when r is not below the float total (implementation-defined)."""
    cum = np.array(seq_cumsum(p))
    out = []
    for r in rs:
        k = int(np.searchsorted(cum, float(r), side="right"))
        out.append(k if k < len(cum) else None)
    return out


def ref_data(p, n, stream):
    return ref_inverse_cdf(p, stream.random(n))


def ref_empi(p, n, stream):
    return (n, stream.multinomial(n, p) / n)


def ref_empi_seq(p, num_sums, stream):
    return [ref_empi(p, n, stream) for n in num_sums]


def ref_empi_seqs(ps, list_num_sums, stream):
    """schedule-major, then num_sums."""
    return [ref_empi_seq(p, ns, stream) for p, ns in zip(ps, list_num_sums)]


# ----------------------------------------------------------------------------- comparing results
def results_equal(a, b):
    """deep exact equality of nested lists/tuples of ints and float arrays; None in b (reference) is a wildcard."""
    if b is None:
        return True
    if isinstance(a, np.ndarray) or isinstance(b, np.ndarray):
        a_, b_ = np.asarray(a), np.asarray(b)
        return a_.shape == b_.shape and bool(np.array_equal(a_, b_))
    if isinstance(a, (list, tuple)) and isinstance(b, (list, tuple)):
        return len(a) == len(b) and all(results_equal(x, y) for x, y in zip(a, b))
    if isinstance(a, (list, tuple)) != isinstance(b, (list, tuple)):
        return False
    try:
        return bool(a == b)
    except Exception:
        return False


def short(x, n=300):
    s = repr(x)
    return s if len(s) <= n else s[:n] + "..."


# ----------------------------------------------------------------------------- collision bounds
def binom_mode_pmf(n, q):
    if q <= 0.0 or q >= 1.0 or n <= 0:
        return 1.0
    k = min(n, int(math.floor((n + 1) * q)))
    lg = (math.lgamma(n + 1) - math.lgamma(k + 1) - math.lgamma(n - k + 1)
          + k * math.log(q) + (n - k) * math.log1p(-q))
    return min(1.0, math.exp(lg) * (1 + 1e-9))


def collision_bound_multinomial(p, n):
    """upper bound on P(X == Y) for iid multinomial(n, p): the smallest coordinate-wise binomial mode mass."""
    return min(binom_mode_pmf(n, float(q)) for q in p)


def collision_bound_data(p, n):
    """P(two iid length-n sequences from p are equal) = (sum p^2)^n (p renormalised)."""
    s = math.fsum(p)
    q = math.fsum((x / s) ** 2 for x in p)
    return q ** n if n > 0 else 1.0


# ----------------------------------------------------------------------------- empirical distribution validity
def empi_problems(entry, n_expected, m, zero_mask=None):
    """list of textual problems of one (n, f) entry; empty when valid."""
    out = []
    if not (isinstance(entry, tuple) and len(entry) == 2):
        return [f"not a (n, dist) tuple: {short(entry)}"]
    n, f = entry
    if int(n) != int(n_expected):
        out.append(f"n={n} expected {n_expected}")
    if not isinstance(f, np.ndarray) or f.dtype != np.float64 or f.shape != (m,):
        return out + [f"dist is not a float64 array of shape ({m},): {short(f)}"]
    if np.any(f < 0) or not np.all(np.isfinite(f)):
        out.append("negative / non-finite frequency")
    cnt = np.rint(f * n_expected)
    if not np.array_equal(cnt / n_expected, f):
        out.append("not integer counts divided by the sample size")
    if int(cnt.sum()) != int(n_expected):
        out.append(f"counts sum to {int(cnt.sum())} != {n_expected}")
    if abs(float(f.sum()) - 1.0) > 4 * m * 2.3e-16:
        out.append(f"sums to {float(f.sum())!r}")
    if zero_mask is not None and np.any(f[np.asarray(zero_mask, dtype=bool)] != 0):
        out.append("positive frequency on a zero-probability outcome")
    return out


def deep_equal(a, b):
    """exact equality of bit-generator state dicts (may contain arrays)."""
    if isinstance(a, dict) and isinstance(b, dict):
        return a.keys() == b.keys() and all(deep_equal(a[k], b[k]) for k in a)
    if isinstance(a, np.ndarray) or isinstance(b, np.ndarray):
        return bool(np.array_equal(np.asarray(a), np.asarray(b)))
    return a == b


def gen_states_equal(g, t):
    return deep_equal(g.bit_generator.state, t.bit_generator.state)
