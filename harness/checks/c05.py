"""C05 - Physical projection returns the nearest physical object."""
import math

import numpy as np
from hypothesis import strategies as st

from harness import build, gen
from harness import refmodel as rm

RULE = (
    "A fifth of the cases state the same problem over a hand-rotated orthonormal Hermitian identity-first basis (harness/covar.py). "
    "Inputs: (a) near-physical = physical-by-construction object + Hypothesis-drawn noise of size 1e-4..1e-1, (b) far points "
    "of norm up to 1e2, (c) already-physical points (interior, boundary); types state/povm/gate/mprocess, outcome counts 2..4, "
    "shapes 1q, qutrit (2q in thorough), both mode_proj_order values, eps_proj_physical in {1e-14..1e-6}, both parametrisation "
    "flags, object-level / variable-level / closure entry points.  Oracle: an independent matrix-level Dykstra iteration run to "
    "numerical convergence whose result carries an a-posteriori optimality certificate (dual decomposition x-z=p+q with p "
    "normal to the affine set, -q PSD, <q,z>=0), the closed-form eigenvalue-simplex projection for states, the variational "
    "inequality against generated physical competitors, and (thorough subsample) an SDP solve with CVXPY+SCS.  Non-trivial = "
    "the input violates both constraints and the routine needed >= 3 sweeps."
)
ASSUMPTIONS = [
    "algorithmic tolerance: ||result - nearest|| <= C*sqrt(eps_proj_physical)*(1+||x||) with C calibrated on the unchanged tree "
    "(max observed ratio recorded in evidence as max_residual_over_tolerance)",
    "reference Dykstra accepted only when its optimality certificate bounds its own error below the comparison tolerance",
]
TECHNIQUE = "property-based testing (Hypothesis): generated near/far/physical inputs vs an independent certified nearest-point reference, variational inequality against generated competitors, differential order/level agreement, history recurrences"
LEVEL_TEXT = (
    "Generated-input search over the inputs the estimators actually feed the routine (noise-perturbed physical points), far "
    "points and physical points, for all four object types, both orders, five stopping thresholds and three entry points.  "
    "Nearest-point-ness - invisible to feasibility-only tests - is decided against a certified independent reference and by "
    "the variational inequality; order- and level-independence and the iteration history are checked differentially.  "
    "Sampling cannot prove optimality for all inputs; cases that hit the iteration cap are counted inconclusive."
)
LEVEL_NOTE = (
    "Trusted: numpy LAPACK, harness/refmodel.py (closed-form projections, Dykstra reference + certificate), SCS accuracy in "
    "the thorough SDP subsample.  Tolerance constant C=50 on sqrt(eps) (calibrated: largest observed ratio is in evidence)."
)

C_TOL = 50.0
EPS_CHOICES = [1e-14, 1e-12, 1e-10, 1e-8, 1e-6]


def tol_eps(eps, scale):
    return max(C_TOL * math.sqrt(eps) * (1.0 + scale), 1e-9)


# ----------------------------------------------------------------------------- strategies
def _obj(t, shapes):
    if t == "state":
        return gen.state_case(shapes)
    if t == "povm":
        return gen.povm_case(shapes, (2, 4))
    if t == "gate":
        return gen.gate_case(shapes)
    return gen.mprocess_case(shapes, (2, 3), max_per=2)


def _nparams(t, d, m):
    n = d * d
    return {"state": n, "povm": n * (m or 1), "gate": n * n, "mprocess": n * n * (m or 1)}[t]


@st.composite
def proj_case(draw, tier, classes=("near", "near", "far", "physical", "gain", "tiny")):
    t = draw(st.sampled_from(["state", "povm", "gate", "mprocess"]))
    if tier == "quick":
        shapes = ("1q", "1q", "qutrit") if t in ("state", "povm") else ("1q",)
        if t == "gate":
            shapes = ("1q", "1q", "1q", "qutrit")
    else:
        shapes = ("1q", "qutrit", "2q") if t in ("state", "povm") else ("1q", "1q", "qutrit")
    obj = draw(_obj(t, shapes))
    d = gen.dim_of(obj["shape"])
    m = obj.get("m")
    npar = _nparams(t, d, m)
    cls = draw(st.sampled_from(list(classes)))
    case = {
        "obj": obj,
        "class": cls,
        "order": draw(st.sampled_from(["eq_ineq", "ineq_eq"])),
        "eps": draw(st.sampled_from(EPS_CHOICES)),
        "flag": draw(st.booleans()),
    }
    if cls == "near":
        case["noise"] = draw(gen.raw(npar))
        case["noise_size"] = draw(gen.log_uniform(1e-4, 1e-1))
    elif cls == "far":
        case["noise"] = draw(gen.raw(npar))
        case["noise_size"] = draw(gen.log_uniform(1.0, 1e2))
    elif cls == "tiny":
        # perturbations between rounding noise and the "near" class (numbers typed with a few digits, accumulated error)
        case["noise"] = draw(gen.raw(npar))
        case["noise_size"] = draw(gen.log_uniform(1e-12, 1e-4))
    elif cls == "gain":
        # a physical object times a common factor 1 + g: un-normalised in the identity direction only
        case["gain"] = draw(st.sampled_from([-1.0, 1.0])) * draw(gen.log_uniform(1e-9, 1e-2))
    if draw(st.integers(0, 4)) == 0:
        # the same problem over a hand-rotated (orthonormal, Hermitian, identity-first) basis: harness/covar.py
        case["rot"] = draw(gen.raw(64))
    return case


def _basis_of(case):
    if case.get("rot") is not None:
        from harness import covar

        return covar.rotated_env(case["obj"]["shape"], case["rot"])[2]
    return gen.ref_basis(case["obj"]["shape"])


def _c_sys_of(case, shape):
    if case.get("rot") is not None:
        from harness import covar

        return covar.rotated_env(shape, case["rot"])[0]
    return build.c_sys_for(shape)


def input_vector(case):
    obj = case["obj"]
    basis = _basis_of(case)
    x = gen.stacked_reference(obj, basis).copy()
    if case["class"] == "gain":
        x = x * (1.0 + case["gain"])
    if case["class"] in ("near", "far", "tiny"):
        nz = np.asarray(case["noise"], dtype=float)
        nrm = np.linalg.norm(nz)
        if nrm < 1e-9:
            nz = np.zeros_like(nz)
            nz[-1] = 1.0
            nrm = 1.0
        if case["class"] == "far":
            x = case["noise_size"] * nz / nrm
        else:
            x = x + case["noise_size"] * nz / nrm
    return x, basis


# ----------------------------------------------------------------------------- main check
def check_projection(case, ctx):
    obj = case["obj"]
    t, shape = obj["type"], obj["shape"]
    d = gen.dim_of(shape)
    m = obj.get("m")
    eps = case["eps"]
    order = case["order"]
    flag = case["flag"]
    x, basis = input_vector(case)
    scale = float(np.linalg.norm(x))
    tol = tol_eps(eps, scale)
    c_sys = _c_sys_of(case, shape)
    q = build.make(c_sys, t, x, m=m, mshape=obj.get("mshape"), on_para_eq_constraint=flag, mode_proj_order=order, eps_proj_physical=eps)
    ctx.label(t, shape, case["class"], order, f"eps:{eps:g}", f"flag:{flag}")

    x_before = x.copy()
    res, hist = q.calc_proj_physical(is_iteration_history=True)
    ctx.equal(build.stacked_of(q), x_before, "no_mutation_of_receiver")
    z = build.stacked_of(res)
    sweeps = len(hist["x"]) - 1
    ctx.label(f"sweeps:{min(sweeps, 1000) // 10 * 10 if sweeps >= 10 else sweeps}")
    hit_cap = sweeps >= 1000
    if hit_cap:
        if case["class"] == "far":
            ctx.skip("iteration-cap")
            return
        ctx.check(False, "terminates_within_cap", f"{sweeps} sweeps on a {case['class']} input")
        return

    # (1) physical within tol, judged by refmodel
    eqd = rm.eq_defect_stacked(t, z, d, m)
    ind = rm.ineq_defect_stacked(t, z, basis, d, m)
    ctx.leq(eqd, 0.0, tol, "result_eq_feasible")
    ctx.leq(ind, 0.0, tol, "result_ineq_feasible")

    # (2) nearest: certified reference
    zref, cert = rm.dykstra_reference(t, x, basis, d, m)
    ref_ok = cert["err_bound"] <= 0.5 * tol
    if ref_ok:
        ctx.close(z, zref, tol + cert["err_bound"], "nearest_vs_reference", f"class={case['class']} sweeps={sweeps}")
    else:
        ctx.label("reference-not-certified")
    if t == "state":
        rho = rm.nearest_density_matrix(rm.unvec(basis, x))
        ctx.close(z, np.real(rm.vec(basis, rho)), tol, "nearest_state_closed_form")

    # (3) variational inequality against generated physical competitors
    for comp in case.get("competitors", []):
        c = gen.stacked_reference(comp, basis)
        if c.shape != z.shape:
            continue
        lhs = float(np.dot(x - z, c - z))
        ctx.leq(lhs, 0.0, tol * (1 + scale) * (1 + np.linalg.norm(c - z)), "variational_inequality")
        ctx.leq(np.linalg.norm(x - z), np.linalg.norm(x - c), tol, "not_farther_than_competitor")

    # (4) fixed point
    if case["class"] == "physical":
        ctx.close(z, x, tol, "fixed_point_on_physical_input")
    # strictly physical input (equality defect at rounding level, no negative eigenvalue at all): both projections are the
    # identity on it, so it comes back to rounding accuracy - not merely to the accuracy of the stopping threshold
    if rm.eq_defect_stacked(t, x, d, m) <= 1e-14 * (1 + scale) and rm.ineq_defect_stacked(t, x, basis, d, m) == 0.0:
        ctx.label("input-strictly-physical")
        ctx.close(z, x, 1e-12 * (1 + scale), "strictly_physical_input_returned_unchanged")

    # (5) order independence
    other = "ineq_eq" if order == "eq_ineq" else "eq_ineq"
    q2 = build.make(c_sys, t, x, m=m, mshape=obj.get("mshape"), on_para_eq_constraint=flag, mode_proj_order=other, eps_proj_physical=eps)
    res2, hist2 = q2.calc_proj_physical(is_iteration_history=True)
    if len(hist2["x"]) - 1 < 1000:
        ctx.close(build.stacked_of(res2), z, 2 * tol, "order_independence")

    # (6) level independence: variable-level routine and closures
    var_in = q.to_var() if not flag else None
    if flag:
        # the constrained parametrisation can only represent inputs on the equality set
        x_eq = rm.proj_eq_stacked(t, x, d, m)
        q_eq = build.make(c_sys, t, x_eq, m=m, mshape=obj.get("mshape"), on_para_eq_constraint=True, mode_proj_order=order, eps_proj_physical=eps)
        var_in = q_eq.to_var()
        res_eq, hist_eq = q_eq.calc_proj_physical(is_iteration_history=True)
        z_obj = build.stacked_of(res_eq)
        obj_capped = len(hist_eq["x"]) - 1 >= 1000
        holder = q_eq
    else:
        z_obj = z
        obj_capped = False
        holder = q
    v_before = np.array(var_in, copy=True)
    var_out, vh = holder.calc_proj_physical_with_var(var_in, on_para_eq_constraint=flag, is_iteration_history=True)
    ctx.equal(np.asarray(var_in), v_before, "with_var_no_argument_mutation")
    z_var = np.asarray(holder.convert_var_to_stacked_vector(c_sys, np.asarray(var_out), on_para_eq_constraint=flag), dtype=float)
    if not obj_capped and len(vh["x"]) - 1 < 1000:
        ctx.close(z_var, z_obj, 2 * tol, "level_independence_var_vs_object")
        f_obj = holder.func_calc_proj_physical(on_para_eq_constraint=flag, mode_proj_order=order)
        f_var = holder.func_calc_proj_physical_with_var(on_para_eq_constraint=flag, mode_proj_order=order)
        ctx.close(np.asarray(f_var(np.array(var_in, copy=True))), np.asarray(var_out), 0.0, "closure_with_var_equals_method")
        o = np.asarray(f_obj(np.array(var_in, copy=True)))
        ctx.close(o, np.asarray(res_eq.to_var() if flag else res.to_var()), 2 * tol, "closure_object_level")
        # the closure runs the REQUESTED order: with ineq_eq the (linear) equality projection comes last and is met to
        # rounding, not just to the threshold (the inequality projection is not exact to rounding in the library: not demanded)
        if o.shape == np.asarray(var_out).shape:
            z_clo = np.asarray(holder.convert_var_to_stacked_vector(c_sys, o.copy(), on_para_eq_constraint=flag), dtype=float)
            alg_last = rm.algebraic_tol(d, 1.0 + scale) * 10
            if order == "ineq_eq":
                ctx.leq(rm.eq_defect_stacked(t, z_clo, d, m), 0.0, alg_last, "closure_object_level:last_projection_exact",
                        "order ineq_eq: the equality constraint is projected onto last")

    # (6b) the variable-level routine on an integer-valued point given with an integer dtype and as float64: one answer
    vi = np.round(np.asarray(var_in, dtype=float)).astype(np.int64)
    if vi.size and int(np.max(np.abs(vi))) <= 3:
        o_i, h_i = holder.calc_proj_physical_with_var(vi, on_para_eq_constraint=flag, is_iteration_history=True)
        o_f, h_f = holder.calc_proj_physical_with_var(vi.astype(np.float64), on_para_eq_constraint=flag, is_iteration_history=True)
        if len(h_i["x"]) - 1 < 1000 and len(h_f["x"]) - 1 < 1000:
            # (to the accuracy of the stopping threshold only: for a State the implied first coefficient inserted into an
            # integer vector is truncated, so the two runs start from different representatives of the same variables)
            ctx.close(np.asarray(o_i, dtype=float), np.asarray(o_f, dtype=float), 2 * tol, "integer_dtype_point_same_as_float")
            ctx.label("integer-dtype-point")

    # (7) history consistency (object level)
    check_history(ctx, t, hist, x, z, basis, d, m, order, eps, obj_level=True)
    last_as_var = np.asarray(holder.convert_stacked_vector_to_var(c_sys, np.asarray(vh["x"][-1], dtype=float), on_para_eq_constraint=flag))
    ctx.close(last_as_var, np.asarray(var_out), 0.0, "history_last_x_is_result:var")
    check_history(ctx, t, vh, np.asarray(holder.to_stacked_vector(), dtype=float), None, basis, d, m, order, eps, obj_level=False)

    both = rm.eq_defect_stacked(t, x, d, m) > 1e-6 and rm.ineq_defect_stacked(t, x, basis, d, m) > 1e-6
    ctx.nontrivial(both and sweeps >= 3)
    if both:
        ctx.label("violates-both")


def _sv(o, obj_level):
    return np.asarray(o.to_stacked_vector() if obj_level else o, dtype=float)


def check_history(ctx, t, hist, x_in, z_out, basis, d, m, order, eps, obj_level):
    tag = "obj" if obj_level else "var"
    ks = ("p", "q", "x", "y")
    ctx.check(all(k in hist for k in ks + ("error_value",)), f"history_keys:{tag}")
    n = len(hist["x"])
    ctx.check(all(len(hist[k]) == n for k in ks) and len(hist["error_value"]) == n - 1, f"history_lengths:{tag}",
              f"{[len(hist[k]) for k in ks]} {len(hist['error_value'])}")
    ctx.check(hist["y"][0] is None and hist["error_value"][0] is None, f"history_step0_none:{tag}")
    xs = [_sv(v, obj_level) for v in hist["x"]]
    ps = [_sv(v, obj_level) for v in hist["p"]]
    qs = [_sv(v, obj_level) for v in hist["q"]]
    ys = [None] + [_sv(v, obj_level) for v in hist["y"][1:]]
    ctx.close(xs[0], x_in, 0.0 if obj_level else 1e-14 * (1 + np.max(np.abs(x_in))), f"history_x0_is_input:{tag}")
    if z_out is not None:
        ctx.close(xs[-1], z_out, 0.0, f"history_last_x_is_result:{tag}")
    ctx.close(ps[0], np.zeros_like(x_in), 0.0, f"history_p0_zero:{tag}")
    ctx.close(qs[0], np.zeros_like(x_in), 0.0, f"history_q0_zero:{tag}")
    p1 = (lambda v: rm.proj_eq_stacked(t, v, d, m)) if order == "eq_ineq" else (lambda v: rm.proj_ineq_stacked(t, v, basis, d, m))
    p2 = (lambda v: rm.proj_ineq_stacked(t, v, basis, d, m)) if order == "eq_ineq" else (lambda v: rm.proj_eq_stacked(t, v, d, m))
    sc = 1 + float(np.linalg.norm(x_in))
    atol = 1e-9 * sc
    steps = range(1, n) if n <= 12 else list(range(1, 6)) + list(range(n - 5, n))
    for k in steps:
        y = p1(xs[k - 1] + ps[k - 1])
        ctx.close(ys[k], y, atol, f"history_recurrence_y:{tag}")
        ctx.close(ps[k], xs[k - 1] + ps[k - 1] - ys[k], atol, f"history_recurrence_p:{tag}")
        ctx.close(xs[k], p2(ys[k] + qs[k - 1]), atol, f"history_recurrence_x:{tag}")
        ctx.close(qs[k], ys[k] + qs[k - 1] - xs[k], atol, f"history_recurrence_q:{tag}")
        if k >= 2:
            ev = float(np.sum((ps[k - 1] - ps[k]) ** 2 + (qs[k - 1] - qs[k]) ** 2))
            ctx.close(float(hist["error_value"][k - 1]), ev, 1e-9 * sc * sc + 1e-6 * abs(ev), f"history_error_value:{tag}")
    if n - 1 < 1000 and n >= 3:
        ctx.check(float(hist["error_value"][-1]) < eps, f"history_last_error_below_eps:{tag}",
                  f"{hist['error_value'][-1]} >= {eps}")
        ctx.check(all(float(e) >= eps for e in hist["error_value"][1:-1]), f"history_stops_at_first_satisfaction:{tag}")


@st.composite
def proj_case_with_competitors(draw, tier):
    c = draw(proj_case(tier))
    o = c["obj"]
    t = o["type"]
    comps = []
    for _ in range(2):
        k = draw(_obj(t, (o["shape"],)))
        if t in ("povm", "mprocess"):
            # competitor must have the same outcome count: redraw by construction
            k = dict(k)
            if k["m"] != o["m"]:
                continue
        comps.append(k)
    c["competitors"] = comps
    return c


# ----------------------------------------------------------------------------- SDP cross-check (thorough subsample)
def check_sdp(case, ctx):
    import cvxpy as cp

    obj = case["obj"]
    t, shape = obj["type"], obj["shape"]
    d = gen.dim_of(shape)
    n = d * d
    m = obj.get("m")
    eps = case["eps"]
    x, basis = input_vector(case)
    scale = float(np.linalg.norm(x))
    c_sys = _c_sys_of(case, shape)
    q = build.make(c_sys, t, x, m=m, mshape=obj.get("mshape"), mode_proj_order=case["order"], eps_proj_physical=eps, on_para_eq_constraint=False)
    res, hist = q.calc_proj_physical(is_iteration_history=True)
    if len(hist["x"]) - 1 >= 1000:
        ctx.skip("iteration-cap")
        return
    z = build.stacked_of(res)
    ctx.label(t, shape, case["class"])
    # SDP in matrix variables
    cons = []
    if t in ("state", "povm"):
        mm = 1 if t == "state" else m
        hs_vars = [cp.Variable((d, d), hermitian=True) for _ in range(mm)]
        cons += [h >> 0 for h in hs_vars]
        if t == "state":
            cons.append(cp.real(cp.trace(hs_vars[0])) == 1)
        else:
            cons.append(sum(hs_vars) == np.eye(d))
        targets = [rm.unvec(basis, x[i * n:(i + 1) * n]) for i in range(mm)]
        objv = sum(cp.sum_squares(cp.real(h - tg)) + cp.sum_squares(cp.imag(h - tg)) for h, tg in zip(hs_vars, targets))
        prob = cp.Problem(cp.Minimize(objv), cons)
        prob.solve(solver=cp.SCS, eps=1e-9, max_iters=200000)
        if prob.status not in ("optimal",):
            ctx.skip("scs-" + str(prob.status))
            return
        zs = np.concatenate([np.real(rm.vec(basis, h.value)) for h in hs_vars])
    else:
        mm = 1 if t == "gate" else m
        tm = rm.choi_transform(basis)
        cv = [cp.Variable((n, n), hermitian=True) for _ in range(mm)]
        cons += [c >> 0 for c in cv]
        targets = [(tm @ x[i * n * n:(i + 1) * n * n]).reshape(n, n) for i in range(mm)]
        # TP: partial trace over the output index of sum_x C_x equals identity.  C[(i,k),(j,l)], out i,j ; in k,l
        tot = sum(cv)
        for k in range(d):
            for l in range(d):
                expr = sum(tot[i * d + k, i * d + l] for i in range(d))
                cons.append(expr == (1.0 if k == l else 0.0))
        objv = sum(cp.sum_squares(cp.real(c - tg)) + cp.sum_squares(cp.imag(c - tg)) for c, tg in zip(cv, targets))
        prob = cp.Problem(cp.Minimize(objv), cons)
        prob.solve(solver=cp.SCS, eps=1e-9, max_iters=200000)
        if prob.status not in ("optimal",):
            ctx.skip("scs-" + str(prob.status))
            return
        zs = np.concatenate([np.real(tm.conj().T @ c.value.reshape(-1)) for c in cv])
    tol = tol_eps(eps, scale) + 1e-4 * (1 + scale)
    ctx.close(z, zs, tol, "nearest_vs_sdp")
    ctx.leq(np.linalg.norm(x - z), np.linalg.norm(x - zs), tol, "distance_not_worse_than_sdp")
    ctx.nontrivial(rm.eq_defect_stacked(t, x, d, m) > 1e-6 and rm.ineq_defect_stacked(t, x, basis, d, m) > 1e-6)


def sdp_case(tier):
    return proj_case("quick")


FACETS = {
    "projection": {
        "strategy": proj_case_with_competitors,
        "check": check_projection,
        "budget": {"quick": {"examples": 960, "shards": 16}, "thorough": {"examples": 24000, "shards": 16}},
        "nontrivial": "input violates both constraints (> 1e-6 each) and >= 3 sweeps were needed",
        "min_nontrivial": 30,
    },
    "sdp": {
        "strategy": sdp_case,
        "check": check_sdp,
        "budget": {"quick": {"examples": 48, "shards": 8}, "thorough": {"examples": 2000, "shards": 16}},
        "nontrivial": "input violates both constraints",
        "min_nontrivial": 5,
    },
}
