"""Textbook reference tables for C17, written from the definitions (pure numpy, imports nothing from quara).

Conventions: composite systems are Kronecker products in ascending system id; a multi-system gate given
``ids`` puts role r (control/target ...) on the tensor position rank(ids[r]) among sorted(ids).
"""
import itertools
import math
import re

import numpy as np

from harness import refmodel as rm

S2 = 1 / math.sqrt(2)
S3 = 1 / math.sqrt(3)
I2 = np.eye(2, dtype=complex)
X = np.array([[0, 1], [1, 0]], dtype=complex)
Y = np.array([[0, -1j], [1j, 0]], dtype=complex)
Z = np.array([[1, 0], [0, -1]], dtype=complex)
P0 = np.array([[1, 0], [0, 0]], dtype=complex)
P1 = np.array([[0, 0], [0, 1]], dtype=complex)
PAULI = {"i": I2, "x": X, "y": Y, "z": Z}

SYS = {
    "1q": ("qubit", 1), "2q": ("qubit", 2), "3q": ("qubit", 3),
    "qutrit": ("qutrit", 1), "2qutrit": ("qutrit", 2),
}


def dims_of(sys_):
    mode, num = SYS[sys_]
    return [2 if mode == "qubit" else 3] * num


def dim_of(sys_):
    return int(np.prod(dims_of(sys_)))


_BASIS = {}


def basis_of(sys_):
    """refmodel orthonormal Hermitian basis (identity first) of the system, as list and as N x N row matrix."""
    if sys_ not in _BASIS:
        loc = [rm.pauli_1q(True) if d == 2 else rm.gell_mann(True) for d in dims_of(sys_)]
        b = rm.kron_bases(loc)
        bm = np.array([x.reshape(-1) for x in b])
        _BASIS[sys_] = (b, bm)
        if sys_ in ("1q", "qutrit"):
            _selftest(sys_)
    return _BASIS[sys_]


def vec_of(sys_, m):
    """real coefficient vector of Hermitian m in the reference basis; raises if not real."""
    _, bm = basis_of(sys_)
    c = bm.conj() @ np.asarray(m, dtype=complex).reshape(-1)
    return c


def unvec_of(sys_, v):
    _, bm = basis_of(sys_)
    d = dim_of(sys_)
    return (np.asarray(v, dtype=complex) @ bm).reshape(d, d)


def hs_of_kraus(sys_, kraus):
    """HS_ab = Tr(B_a^dagger sum_k K B_b K^dagger) via the row-major identity |K M K^+>> = (K (x) conj K)|M>>."""
    _, bm = basis_of(sys_)
    cb = sum(np.kron(k, k.conj()) for k in kraus)
    return bm.conj() @ cb @ bm.T


def hs_of_commutator(sys_, h):
    """HS of the map A -> -i[H, A]."""
    _, bm = basis_of(sys_)
    d = h.shape[0]
    eye = np.eye(d)
    cb = -1j * (np.kron(h, eye) - np.kron(eye, h.T))
    return bm.conj() @ cb @ bm.T


def choi_of_hs(sys_, hs):
    """Choi matrix (sum |K>><<K|, row-major) of the map whose HS matrix in the reference basis is hs."""
    _, bm = basis_of(sys_)
    d = dim_of(sys_)
    cb = bm.T @ np.asarray(hs, dtype=complex) @ bm.conj()
    return cb.reshape(d, d, d, d).transpose(0, 2, 1, 3).reshape(d * d, d * d)


def _selftest(sys_):
    """the fast formulas above must agree with the element-wise refmodel definitions."""
    b, _ = _BASIS[sys_]
    d = dim_of(sys_)
    u = rm.unitary_from_raw([((7 * i) % 11 - 5) / 7.0 for i in range(2 * d * d)], d)
    h = rm.herm(u + np.diag(np.arange(d)))
    a = hs_of_kraus(sys_, [u])
    r = rm.hs_from_kraus(b, [u])
    assert np.allclose(a, r, atol=1e-12), "c17_ref selftest: hs_of_kraus"
    c = hs_of_commutator(sys_, h)
    r2 = rm.hs_from_map(b, lambda m: -1j * (h @ m - m @ h))
    assert np.allclose(c, r2, atol=1e-12), "c17_ref selftest: hs_of_commutator"
    assert np.allclose(choi_of_hs(sys_, a), rm.choi_from_kraus([u]), atol=1e-12), "c17_ref selftest: choi"


def expm_herm(h, t=-1j):
    """exp(t*H) for Hermitian H by eigendecomposition (numpy only)."""
    w, v = np.linalg.eigh(rm.herm(h))
    return (v * np.exp(t * w)) @ v.conj().T


def expm_antisym(l):
    """exp(L) for a real antisymmetric L: iL is Hermitian, exp(L) = exp(-i (iL))."""
    return expm_herm(1j * np.asarray(l, dtype=complex), -1j)


# ----------------------------------------------------------------------------- states
KET_1Q = {
    "x0": S2 * np.array([1, 1], dtype=complex),
    "x1": S2 * np.array([1, -1], dtype=complex),
    "y0": S2 * np.array([1, 1j], dtype=complex),
    "y1": S2 * np.array([1, -1j], dtype=complex),
    "z0": np.array([1, 0], dtype=complex),
    "z1": np.array([0, 1], dtype=complex),
    "a": S2 * np.array([1, np.exp(1j * math.pi / 4)], dtype=complex),
}
LEVELS = {"01": (0, 1), "12": (1, 2), "02": (0, 2)}


def _e(d, i):
    v = np.zeros(d, dtype=complex)
    v[i] = 1
    return v


def ket_qutrit(name):
    m = re.fullmatch(r"(01|12|02)([xyz])([01])", name)
    if not m:
        raise KeyError(name)
    i, j = LEVELS[m.group(1)]
    ax, s = m.group(2), (1 if m.group(3) == "0" else -1)
    if ax == "z":
        return _e(3, i) if s == 1 else _e(3, j)
    ph = 1 if ax == "x" else 1j
    return S2 * (_e(3, i) + s * ph * _e(3, j))


def _kron_all(vs):
    out = np.array([1.0 + 0j])
    for v in vs:
        out = np.kron(out, v)
    return out


def ket(name, sys_):
    """textbook state vector of a catalogue state name on the given system."""
    mode, num = SYS[sys_]
    if mode == "qubit":
        if num == 2 and name.startswith("bell_"):
            a, b = {"phi": ([1, 0, 0, 0], [0, 0, 0, 1]), "psi": ([0, 1, 0, 0], [0, 0, 1, 0])}[name.split("_")[1]]
            s = {"plus": 1, "minus": -1}[name.split("_")[2]]
            return S2 * (np.array(a, dtype=complex) + s * np.array(b, dtype=complex))
        if num == 3 and name == "ghz":
            return S2 * (_e(8, 0) + _e(8, 7))
        if num == 3 and name == "werner":
            return S3 * (_e(8, 1) + _e(8, 2) + _e(8, 4))
        parts = name.split("_")
        if len(parts) != num:
            raise KeyError(name)
        return _kron_all([KET_1Q[p] for p in parts])
    if num == 1 and name == "0_1_2_superposition":
        return S3 * np.ones(3, dtype=complex)
    if num == 2 and name == "00_11_22_superposition":
        return S3 * (_e(9, 0) + _e(9, 4) + _e(9, 8))
    parts = name.split("_")
    if len(parts) != num:
        raise KeyError(name)
    return _kron_all([ket_qutrit(p) for p in parts])


def proj(v):
    return np.outer(v, np.conj(v))


def expected_state_names():
    q1 = [a + b for a, b in itertools.product("xyz", "01")] + ["a"]
    t1 = [l + a + d for l, a, d in itertools.product(["01", "12", "02"], "xyz", "01")]
    return {
        "1q": q1,
        "2q": ["bell_phi_plus", "bell_phi_minus", "bell_psi_plus", "bell_psi_minus"]
        + ["_".join(t) for t in itertools.product(q1, repeat=2)],
        "3q": ["ghz", "werner"] + ["_".join(t) for t in itertools.product(q1, repeat=3)],
        "qutrit": ["0_1_2_superposition"] + t1,
        "2qutrit": ["00_11_22_superposition"] + ["_".join(t) for t in itertools.product(t1, repeat=2)],
    }


# ----------------------------------------------------------------------------- povms
def povm_single(name):
    """(list of textbook elements, ordered?) of a single-system POVM name."""
    if name in ("x", "y", "z"):
        return [proj(KET_1Q[name + "0"]), proj(KET_1Q[name + "1"])], True
    if name == "bell":
        return [proj(ket("bell_" + n, "2q")) for n in ("phi_plus", "phi_minus", "psi_plus", "psi_minus")], False
    if name == "z3":
        return [proj(_e(3, i)) for i in range(3)], True
    if name == "z2":
        return [proj(_e(3, 0)), proj(_e(3, 1)) + proj(_e(3, 2))], True
    m = re.fullmatch(r"(01|12|02)([xy])3", name)
    if m:
        lv = m.group(1)
        rest = ({0, 1, 2} - set(LEVELS[lv])).pop()
        return [proj(ket_qutrit(lv + m.group(2) + "0")), proj(ket_qutrit(lv + m.group(2) + "1")), proj(_e(3, rest))], True
    raise KeyError(name)


def povm(name):
    """(elements, ordered) of a catalogue POVM name (product names = Kronecker products, first factor slowest)."""
    parts = name.split("_")
    els, ordered = povm_single(parts[0])
    for p in parts[1:]:
        e2, o2 = povm_single(p)
        els = [np.kron(a, b) for a, b in itertools.product(els, e2)]
        ordered = ordered and o2
    return els, ordered


def expected_povm_names():
    q1 = ["x", "y", "z"]
    t1 = ["01x3", "01y3", "z3", "z2", "02x3", "02y3", "12x3", "12y3"]
    return {
        "1q": q1,
        "2q": ["bell"] + ["_".join(t) for t in itertools.product(q1, repeat=2)],
        "3q": ["_".join(t) for t in itertools.product(q1, repeat=3)],
        "qutrit": t1,
        "2qutrit": ["_".join(t) for t in itertools.product(t1, repeat=2)],
    }


# ----------------------------------------------------------------------------- gates
def rot(sigma, theta):
    return math.cos(theta / 2) * np.eye(sigma.shape[0], dtype=complex) - 1j * math.sin(theta / 2) * sigma


U_1Q = {
    "x90": rot(X, math.pi / 2), "x180": rot(X, math.pi), "x": X,
    "y90": rot(Y, math.pi / 2), "y180": rot(Y, math.pi), "y": Y,
    "z90": rot(Z, math.pi / 2), "z180": rot(Z, math.pi), "z": Z,
    "zm90": rot(Z, -math.pi / 2),
    "phase": np.diag([1, 1j]).astype(complex),
    "phase_daggered": np.diag([1, -1j]).astype(complex),
    "piover8": np.diag([1, np.exp(1j * math.pi / 4)]).astype(complex),
    "piover8_daggered": np.diag([1, np.exp(-1j * math.pi / 4)]).astype(complex),
    "hadamard": S2 * (X + Z),
}
GATES_2Q = ["cx", "cz", "swap", "zx90", "zz90"]
GATES_3Q = ["toffoli", "fredkin"]


def positions(ids):
    srt = sorted(ids)
    return [srt.index(i) for i in ids]


def embed(n, ops):
    out = np.array([[1.0 + 0j]])
    for p in range(n):
        out = np.kron(out, ops.get(p, I2))
    return out


def swap_on(n, p, q):
    return 0.5 * (embed(n, {}) + embed(n, {p: X, q: X}) + embed(n, {p: Y, q: Y}) + embed(n, {p: Z, q: Z}))


def sigma_emb(levels, ax):
    i, j = LEVELS[levels]
    s = np.zeros((3, 3), dtype=complex)
    p = PAULI[ax]
    s[i, i], s[i, j], s[j, i], s[j, j] = p[0, 0], p[0, 1], p[1, 0], p[1, 1]
    return s


def rot_emb(levels, ax, theta):
    """exp(-i theta/2 sigma) for sigma a Pauli matrix embedded on two levels of a qutrit (closed form)."""
    i, j = LEVELS[levels]
    s = sigma_emb(levels, ax)
    pij = np.zeros((3, 3), dtype=complex)
    pij[i, i] = pij[j, j] = 1
    return np.eye(3, dtype=complex) + (math.cos(theta / 2) - 1) * pij - 1j * math.sin(theta / 2) * s


ANGLE = {"90": math.pi / 2, "180": math.pi}
_RE_1QT = re.compile(r"(01|12|02)([xyz])(90|180)")
_RE_2QT = re.compile(r"(i|(?:01|12|02)[xyz])(i|(?:01|12|02)[xyz])(90|180)")


def _base_qutrit(tok):
    return np.eye(3, dtype=complex) if tok == "i" else sigma_emb(tok[:2], tok[2])


def hamiltonian_2qutrit(name):
    """H = sum over '_'-separated terms of (angle/2) * base0 (x) base1."""
    h = np.zeros((9, 9), dtype=complex)
    for part in name.split("_"):
        m = _RE_2QT.fullmatch(part)
        if not m or (m.group(1) == "i" and m.group(2) == "i"):
            raise KeyError(name)
        h = h + 0.5 * ANGLE[m.group(3)] * np.kron(_base_qutrit(m.group(1)), _base_qutrit(m.group(2)))
    return h


def terms_commute_2qutrit(name):
    parts = name.split("_")
    if len(parts) < 2:
        return True
    a, b = hamiltonian_2qutrit(parts[0]), hamiltonian_2qutrit(parts[1])
    return bool(np.allclose(a @ b, b @ a, atol=1e-12))


def unitary(name, sys_, ids=None):
    """textbook unitary of a catalogue gate name (global phase is conventional)."""
    mode, num = SYS[sys_]
    d = dim_of(sys_)
    if name == "identity":
        return np.eye(d, dtype=complex)
    if sys_ == "1q":
        return U_1Q[name]
    if sys_ == "2q":
        c, t = positions(ids)
        if name == "cx":
            return embed(2, {c: P0}) + embed(2, {c: P1, t: X})
        if name == "cz":
            return embed(2, {0: P0}) + embed(2, {0: P1, 1: Z})
        if name == "swap":
            return swap_on(2, 0, 1)
        if name == "zx90":
            return rot(embed(2, {c: Z, t: X}), math.pi / 2)
        if name == "zz90":
            return rot(embed(2, {0: Z, 1: Z}), math.pi / 2)
    if sys_ == "3q":
        a, b, c = positions(ids)
        if name == "toffoli":  # controls ids[0], ids[1]; target ids[2]
            cc = embed(3, {a: P1, b: P1})
            return embed(3, {}) - cc + cc @ embed(3, {c: X})
        if name == "fredkin":  # control ids[0]; swapped ids[1], ids[2]
            return embed(3, {a: P0}) + embed(3, {a: P1}) @ swap_on(3, b, c)
    if sys_ == "qutrit":
        m = _RE_1QT.fullmatch(name)
        if m:
            return rot_emb(m.group(1), m.group(2), ANGLE[m.group(3)])
    if sys_ == "2qutrit":
        return expm_herm(hamiltonian_2qutrit(name))
    raise KeyError((name, sys_))


def perm_op(pos, dims):
    """W |b_0 .. b_{n-1}> = |c> with c[pos[r]] = b[r]  (moves tensor factor r to position pos[r])."""
    n = len(dims)
    out_dims = [0] * n
    for r in range(n):
        out_dims[pos[r]] = dims[r]
    dtot = int(np.prod(dims))
    w = np.zeros((dtot, dtot), dtype=complex)
    for b in itertools.product(*[range(x) for x in dims]):
        c = [0] * n
        for r in range(n):
            c[pos[r]] = b[r]
        w[np.ravel_multi_index(c, out_dims), np.ravel_multi_index(b, dims)] = 1
    return w


def phase_align(u, uref):
    """uref multiplied by the global phase that best matches u."""
    ov = np.vdot(uref, u)
    if abs(ov) < 1e-12:
        return uref
    return uref * (ov / abs(ov))


def expected_gate_names():
    base1 = ["i"] + [l + a for l, a in itertools.product(["01", "12", "02"], "xyz")]
    base2 = [a + b for a, b in itertools.product(base1, repeat=2)]
    base2.remove("ii")
    single = [b + a for b, a in itertools.product(base2, ["90", "180"])]
    two = [a + "_" + b for a in single for b in single if a != b]
    return {
        "1q": list(U_1Q),
        "2q": list(GATES_2Q),
        "3q": list(GATES_3Q),
        "qutrit": [l + a + g for g in ("90", "180") for l in ("01", "12", "02") for a in "xyz"],
        "2qutrit_single": single,
        "2qutrit_two": two,
    }


# ----------------------------------------------------------------------------- measurement processes
MPROCESS_SYS = {"x": "1q", "y": "1q", "z": "1q", "bell": "2q", "xxparity": "2q", "zzparity": "2q", "z3": "qutrit", "z2": "qutrit"}


def mprocess_kraus(name):
    """nested Kraus lists [outcome][k] of a catalogue measurement-process name.

    type1 = projective (Lueders) measurement: K = projector; type2 = measure and reset to the first
    basis vector: K_x = |psi_0><psi_x|.
    """
    base, typ = name.split("-")
    if base in ("xxparity", "zzparity"):
        s = embed(2, {0: X, 1: X}) if base == "xxparity" else embed(2, {0: Z, 1: Z})
        if typ != "type1":
            raise KeyError(name)
        return [[0.5 * (np.eye(4) + s)], [0.5 * (np.eye(4) - s)]]
    if base in ("x", "y", "z"):
        groups = [[KET_1Q[base + "0"]], [KET_1Q[base + "1"]]]
    elif base == "bell":
        groups = [[ket("bell_" + n, "2q")] for n in ("phi_plus", "phi_minus", "psi_plus", "psi_minus")]
    elif base == "z3":
        groups = [[_e(3, 0)], [_e(3, 1)], [_e(3, 2)]]
    elif base == "z2":
        groups = [[_e(3, 0)], [_e(3, 1), _e(3, 2)]]
    else:
        raise KeyError(name)
    if typ == "type1":
        return [[proj(v) for v in g] for g in groups]
    if typ == "type2":
        v0 = groups[0][0]
        return [[np.outer(v0, np.conj(v)) for v in g] for g in groups]
    raise KeyError(name)


def mprocess_vectors(name):
    base, typ = name.split("-")
    if typ != "type1" or base in ("xxparity", "zzparity"):
        return None
    if base in ("x", "y", "z"):
        return [[KET_1Q[base + "0"]], [KET_1Q[base + "1"]]]
    if base == "bell":
        return [[ket("bell_" + n, "2q")] for n in ("phi_plus", "phi_minus", "psi_plus", "psi_minus")]
    if base == "z3":
        return [[_e(3, 0)], [_e(3, 1)], [_e(3, 2)]]
    if base == "z2":
        return [[_e(3, 0)], [_e(3, 1), _e(3, 2)]]
    raise KeyError(name)


EXPECTED_MPROCESS_TYPE1 = ["x-type1", "y-type1", "z-type1", "bell-type1", "z3-type1", "z2-type1", "xxparity-type1", "zzparity-type1"]
EXPECTED_MPROCESS_TYPE2 = ["x-type2", "y-type2", "z-type2", "z3-type2", "z2-type2"]


# ----------------------------------------------------------------------------- truth table (hand written)
# (system, gate name, ids, input state name, output state name)
TRUTH = [
    # Pauli gates and half turns
    ("1q", "x", None, "z0", "z1"), ("1q", "x", None, "z1", "z0"), ("1q", "x", None, "x0", "x0"), ("1q", "x", None, "y0", "y1"),
    ("1q", "y", None, "z0", "z1"), ("1q", "y", None, "x0", "x1"), ("1q", "y", None, "y1", "y1"),
    ("1q", "z", None, "x0", "x1"), ("1q", "z", None, "y0", "y1"), ("1q", "z", None, "z1", "z1"),
    ("1q", "x180", None, "z0", "z1"), ("1q", "x180", None, "y0", "y1"),
    ("1q", "y180", None, "z0", "z1"), ("1q", "y180", None, "x1", "x0"),
    ("1q", "z180", None, "x0", "x1"), ("1q", "z180", None, "y1", "y0"),
    # quarter turns (right-handed about the named axis)
    ("1q", "x90", None, "z0", "y1"), ("1q", "x90", None, "y0", "z0"), ("1q", "x90", None, "z1", "y0"), ("1q", "x90", None, "y1", "z1"),
    ("1q", "x90", None, "x1", "x1"),
    ("1q", "y90", None, "z0", "x0"), ("1q", "y90", None, "x0", "z1"), ("1q", "y90", None, "z1", "x1"), ("1q", "y90", None, "x1", "z0"),
    ("1q", "z90", None, "x0", "y0"), ("1q", "z90", None, "y0", "x1"), ("1q", "z90", None, "x1", "y1"), ("1q", "z90", None, "y1", "x0"),
    ("1q", "zm90", None, "x0", "y1"), ("1q", "zm90", None, "y0", "x0"), ("1q", "zm90", None, "z0", "z0"),
    # Clifford / T
    ("1q", "hadamard", None, "z0", "x0"), ("1q", "hadamard", None, "z1", "x1"), ("1q", "hadamard", None, "x0", "z0"),
    ("1q", "hadamard", None, "y0", "y1"),
    ("1q", "phase", None, "x0", "y0"), ("1q", "phase", None, "y0", "x1"), ("1q", "phase", None, "z1", "z1"),
    ("1q", "phase_daggered", None, "y0", "x0"), ("1q", "phase_daggered", None, "x0", "y1"),
    ("1q", "piover8", None, "x0", "a"), ("1q", "piover8_daggered", None, "a", "x0"), ("1q", "piover8", None, "z0", "z0"),
    ("1q", "identity", None, "a", "a"),
    # two qubits
    ("2q", "cx", [0, 1], "z1_z0", "z1_z1"), ("2q", "cx", [0, 1], "z0_z1", "z0_z1"), ("2q", "cx", [0, 1], "z1_z1", "z1_z0"),
    ("2q", "cx", [0, 1], "x0_z0", "bell_phi_plus"), ("2q", "cx", [0, 1], "x1_z0", "bell_phi_minus"),
    ("2q", "cx", [0, 1], "x0_z1", "bell_psi_plus"), ("2q", "cx", [0, 1], "x1_z1", "bell_psi_minus"),
    ("2q", "cx", [1, 0], "z0_z1", "z1_z1"), ("2q", "cx", [1, 0], "z1_z0", "z1_z0"), ("2q", "cx", [1, 0], "z0_x0", "bell_phi_plus"),
    ("2q", "cx", [1, 0], "z1_x1", "bell_psi_minus"),
    ("2q", "cz", [0, 1], "z1_x0", "z1_x1"), ("2q", "cz", [0, 1], "x0_z1", "x1_z1"), ("2q", "cz", [1, 0], "z0_x0", "z0_x0"),
    ("2q", "swap", [0, 1], "z0_z1", "z1_z0"), ("2q", "swap", [0, 1], "x0_y1", "y1_x0"), ("2q", "swap", [1, 0], "a_z1", "z1_a"),
    ("2q", "zz90", [0, 1], "z0_x0", "z0_y0"), ("2q", "zz90", [0, 1], "z1_x0", "z1_y1"), ("2q", "zz90", [0, 1], "x0_z1", "y1_z1"),
    ("2q", "zx90", [0, 1], "z0_z0", "z0_y1"), ("2q", "zx90", [0, 1], "z1_z0", "z1_y0"), ("2q", "zx90", [0, 1], "z0_y0", "z0_z0"),
    ("2q", "zx90", [1, 0], "z0_z0", "y1_z0"), ("2q", "zx90", [1, 0], "z0_z1", "y0_z1"),
    # three qubits: toffoli(controls ids[0], ids[1]; target ids[2]), fredkin(control ids[0]; swapped ids[1], ids[2])
    ("3q", "toffoli", [0, 1, 2], "z1_z1_z0", "z1_z1_z1"), ("3q", "toffoli", [0, 1, 2], "z1_z0_z0", "z1_z0_z0"),
    ("3q", "toffoli", [0, 1, 2], "z1_z1_x1", "z1_z1_x1"),
    ("3q", "toffoli", [1, 0, 2], "z1_z1_z1", "z1_z1_z0"),
    ("3q", "toffoli", [0, 2, 1], "z1_z0_z1", "z1_z1_z1"), ("3q", "toffoli", [0, 2, 1], "z1_z1_z0", "z1_z1_z0"),
    ("3q", "toffoli", [2, 1, 0], "z0_z1_z1", "z1_z1_z1"),
    ("3q", "toffoli", [1, 2, 0], "z0_z1_z1", "z1_z1_z1"), ("3q", "toffoli", [1, 2, 0], "z1_z1_z0", "z1_z1_z0"),
    ("3q", "toffoli", [2, 0, 1], "z1_z0_z1", "z1_z1_z1"), ("3q", "toffoli", [2, 0, 1], "z1_z1_z0", "z1_z1_z0"),
    ("3q", "fredkin", [0, 1, 2], "z1_z1_z0", "z1_z0_z1"), ("3q", "fredkin", [0, 1, 2], "z0_z1_z0", "z0_z1_z0"),
    ("3q", "fredkin", [0, 2, 1], "z1_x0_y0", "z1_y0_x0"),
    ("3q", "fredkin", [1, 0, 2], "z1_z1_z0", "z0_z1_z1"), ("3q", "fredkin", [1, 0, 2], "z1_z0_z0", "z1_z0_z0"),
    ("3q", "fredkin", [2, 1, 0], "z1_z0_z1", "z0_z1_z1"),
    ("3q", "fredkin", [1, 2, 0], "z1_z1_z0", "z0_z1_z1"), ("3q", "fredkin", [1, 2, 0], "z0_z0_z1", "z0_z0_z1"),
    ("3q", "fredkin", [2, 0, 1], "z1_z0_z1", "z0_z1_z1"), ("3q", "fredkin", [2, 0, 1], "z0_z1_z0", "z0_z1_z0"),
    # qutrit
    ("qutrit", "01x180", None, "01z0", "01z1"), ("qutrit", "12x180", None, "12z0", "12z1"), ("qutrit", "02y180", None, "02z0", "02z1"),
    ("qutrit", "01x180", None, "12z1", "12z1"), ("qutrit", "12y180", None, "01z0", "01z0"),
    ("qutrit", "01y90", None, "01z0", "01x0"), ("qutrit", "01x90", None, "01z0", "01y1"), ("qutrit", "01z90", None, "01x0", "01y0"),
    ("qutrit", "02x90", None, "02z0", "02y1"), ("qutrit", "12y90", None, "12z0", "12x0"), ("qutrit", "12z90", None, "12y0", "12x1"),
    ("qutrit", "02z180", None, "02x0", "02x1"), ("qutrit", "02y90", None, "02x0", "02z1"),
]
