"""C07 - Tensor products and embeddings respect subsystem structure."""
import functools
import itertools
import math
import os
import traceback

import numpy as np
from hypothesis import strategies as st

from harness import build, gen
from harness import refmodel as rm

RULE = (
    "A third of the embedding cases give the target qubits hand-rotated orthonormal Hermitian bases (harness/covar.py). "
    "Factors are physical by construction (Stinespring / Naimark / spectral recipes from Hypothesis-drawn Ginibre arrays) on "
    "k = 2..4 elemental systems of dimension 2 or 3 whose distinct integer names (drawn from 0..9) come in a generated "
    "permutation; POVM / measurement-process / ensemble factors get pairwise different outcome counts so that an axis of the "
    "reported shape identifies its factor by size alone.  kron_order calls tensor_product flat, as a list and in every binary "
    "grouping of the argument order, for the families state, POVM, process (gate / mprocess mixes), ensemble (state / ensemble "
    "mixes) and matrix basis (dense and sparse).  The oracle is the Kronecker product of the factor operators in ascending "
    "name order computed with refmodel (Kraus / matrix level, refmodel product basis), never quara.  A case is non-trivial "
    "when the names are not already ascending and (k >= 3 or outcome counts differ or dims 2 and 3 are mixed); for the "
    "name-free basis family when k >= 3 or dims are mixed.  Total dimension is capped (states/POVMs/ensembles d <= 36, "
    "processes d <= 9, bases d <= 24) because quara builds dense vec-permutation matrices of side d^2 (d^4 for processes)."
)
ASSUMPTIONS = [
    "a multi-index of a product POVM / MProcess / StateEnsemble is read through the object's own reported shape "
    "(nums_local_outcomes / shape / prob_dist.shape, row-major as Povm.vec(tuple) / MProcess.hs(tuple) document); the axis of "
    "a factor is identified by its (pairwise different) outcome count, so no assumption is made on whether axes follow the "
    "argument order or the sorted subsystem order",
    "the denotation of a parameter vector is its expansion in the product of the local normalised Pauli / Gell-Mann bases in "
    "ascending subsystem name; the composite basis quara reports is checked against that refmodel basis in every case",
    "embedding: only what the property states is asserted (physicality of the result, statistics of embedded inputs equal the "
    "qutrit statistics, ValueError for a wrong number of target systems); the concrete isometry is not fixed by the oracle",
]
TECHNIQUE = (
    "property-based testing (Hypothesis): generated physical factors, generated name permutations, exhaustive enumeration of "
    "all call groupings per case, against a numpy Kronecker-product reference model; exhaustive enumeration of type pairs"
)
LEVEL_TEXT = (
    "Generated-input search with an independent reference model: every case draws dimensions, a name permutation and physical "
    "factors with different outcome counts, evaluates every grouping (flat, list, all binary trees) and compares every element "
    "of the result, addressed through the reported shape, with the Kronecker product in ascending name order; statistics and "
    "factor-wise action are recomputed from Kraus operators.  It cannot prove absence of errors, but it covers the arrangements "
    "(>= 3 subsystems out of order, unequal outcome counts, mixed dimensions) that the fixed upstream examples never reach."
)
LEVEL_NOTE = (
    "Trusted: numpy (kron, einsum, eigvalsh), harness/refmodel.py constructions and bases, the count-identifies-axis rule for "
    "reading reported shapes.  Dimension caps: see RULE (cost of quara's dense permutation matrices)."
)

REPO = os.path.realpath(os.environ.get("VERIF_REPO", "/repo"))
SHAPE_OF_DIM = {2: "1q", 3: "qutrit"}
F1_ORACLE = "exception:ValueError@quara/utils/matrix_util.py:calc_permutation_matrix"


# ----------------------------------------------------------------------------- small helpers
def _quara_frame(tb):
    found = None
    for fs in traceback.extract_tb(tb):
        fn = os.path.realpath(fs.filename)
        if fn.startswith(REPO + os.sep) and (os.sep + "quara" + os.sep) in fn:
            found = f"{os.path.relpath(fn, REPO)}:{fs.name}"
    return found


def _local_basis(d):
    return rm.pauli_1q(True) if d == 2 else rm.gell_mann(True)


@functools.lru_cache(maxsize=64)
def _product_basis(dims):
    """(n, d, d) array: product of the local refmodel bases, first factor slowest."""
    return np.array(rm.kron_bases([_local_basis(d) for d in dims]))


def _vec(barr, m):
    return np.einsum("aij,ij->a", barr.conj(), m)


def _unvec(barr, v):
    return np.einsum("a,aij->ij", np.asarray(v, dtype=complex), barr)


def _hs_from_kraus(barr, kraus):
    n = barr.shape[0]
    hs = np.zeros((n, n), dtype=complex)
    for k in kraus:
        img = np.einsum("ij,bjl,ml->bim", k, barr, k.conj())
        hs += np.einsum("aim,bim->ab", barr.conj(), img)
    return hs


def _apply_kraus(kraus, rho):
    out = np.zeros_like(rho, dtype=complex)
    for k in kraus:
        out = out + k @ rho @ k.conj().T
    return out


def _kron_all(mats):
    out = np.array([[1.0 + 0j]])
    for m in mats:
        out = np.kron(out, m)
    return out


def _sorted_order(names):
    return sorted(range(len(names)), key=lambda i: names[i])


def _kron_sorted(mats, names):
    return _kron_all([mats[i] for i in _sorted_order(names)])


def _kraus_products(kraus_lists, names):
    """Kraus operators of the product channel: all combinations, factors in ascending name."""
    order = _sorted_order(names)
    return [_kron_all(combo) for combo in itertools.product(*[kraus_lists[i] for i in order])]


def _probs(raw, m):
    p = np.abs(np.round(np.asarray(raw[:m], dtype=float) * 2.0 ** 24) / 2.0 ** 24) + 0.25
    return p / p.sum()


def _tol(d, scale=1.0):
    return rm.algebraic_tol(d, scale)


# ----------------------------------------------------------------------------- groupings
def trees(lo, hi):
    """all binary bracketings of the leaves lo..hi-1 (argument order kept)."""
    if hi - lo == 1:
        return [lo]
    out = []
    for mid in range(lo + 1, hi):
        for left in trees(lo, mid):
            for right in trees(mid, hi):
                out.append((left, right))
    return out


def left_comb(k):
    t = 0
    for i in range(1, k):
        t = (t, i)
    return t


def tree_str(t):
    return str(t) if isinstance(t, int) else "(" + tree_str(t[0]) + tree_str(t[1]) + ")"


def _call_tree(t, objs):
    from quara.objects.operators import tensor_product

    if isinstance(t, int):
        return objs[t]
    return tensor_product(_call_tree(t[0], objs), _call_tree(t[1], objs))


def _perm_bug(order, sizes):
    """root cause of C07-F1: matrix_util._left_permutation_matrix sizes the identity blocks left / right of the swapped pair
    with reduce(add, ...) instead of a product; True iff some swap of the bubble sort has >= 2 systems on one side whose
    sizes have sum != product (then the factor has the wrong side length and the matmul raises)."""
    order, sizes = list(order), list(sizes)
    while True:
        pos = None
        for i in range(1, len(order)):
            if order[i - 1] > order[i]:
                pos = i
                break
        if pos is None:
            return False
        head = sizes[: pos - 1] if pos >= 2 else []
        tail = sizes[pos + 1:] if pos < len(sizes) - 1 else []
        for part in (head, tail):
            if len(part) >= 2 and sum(part) != int(np.prod(part)):
                return True
        order[pos - 1], order[pos] = order[pos], order[pos - 1]
        sizes[pos - 1], sizes[pos] = sizes[pos], sizes[pos - 1]


def _predict(t, names, dims, counts, family):
    """(hits_F1_root_cause, sorted names, their dim^2, their outcome counts) of evaluating the bracketing t."""
    if isinstance(t, int):
        return False, [names[t]], [dims[t] ** 2], [counts[t]]
    cl, nl, sl, ol = _predict(t[0], names, dims, counts, family)
    cr, nr, sr, orr = _predict(t[1], names, dims, counts, family)
    order, sizes, outs = nl + nr, sl + sr, ol + orr
    crash = cl or cr
    if family != "basis":
        crash = crash or _perm_bug(order, sizes)
        if family == "povm":
            crash = crash or _perm_bug(order, outs)
    idx = sorted(range(len(order)), key=lambda i: order[i])
    return crash, [order[i] for i in idx], [sizes[i] for i in idx], [outs[i] for i in idx]


def _case_counts(case):
    return [int(f.get("m", 1)) if f.get("type") in ("povm", "mprocess", "ensemble") else 1 for f in case["factors"]]


def _groupings(case):
    """[(label, tree, style)] evaluated for a kron_order case."""
    k = len(case["dims"])
    lc = left_comb(k)
    out = []
    if case["family"] == "process":  # expensive: the left comb is evaluated once, through the drawn call style
        out.append((case.get("style", "flat"), lc, case.get("style", "flat")))
        out.extend((tree_str(t), t, "tree") for t in trees(0, k) if t != lc)
    else:
        out.append(("flat", lc, "flat"))
        out.append(("list", lc, "list"))
        out.extend((tree_str(t), t, "tree") for t in trees(0, k))
    return out


def known_f1(case):
    """case -> bool: some evaluated grouping feeds calc_permutation_matrix a swap with >= 2 systems on one side (C07-F1)."""
    if not isinstance(case, dict) or "family" not in case or case["family"] == "basis":
        return False
    counts = _case_counts(case)
    return any(_predict(t, case["names"], case["dims"], counts, case["family"])[0] for _, t, _ in _groupings(case))


def known_f2(case):
    """case -> bool: a product of two measurement processes is formed (C07-F2: list order vs reported shape)."""
    if not isinstance(case, dict):
        return False
    fs = case.get("factors") or case.get("procs") or case.get("mps") or []
    return sum(1 for f in fs if f.get("type") == "mprocess") >= 2


def known_f3(case):
    """case -> bool: a measurement process with a null outcome (all Choi eigenvalues <= the 1e-13 cut of to_kraus_matrices,
    i.e. an empty Kraus list) is embedded (C07-F3)."""
    if not isinstance(case, dict) or not isinstance(case.get("obj"), dict) or case["obj"].get("type") != "mprocess":
        return False
    for kx in gen.mprocess_kraus(case["obj"]):
        if float(np.max(np.linalg.eigvalsh(rm.herm(rm.choi_from_kraus(kx))))) <= 1.5e-13:
            return True
    return False


def _guarded(ctx, label, fn, predicted):
    """run fn(); an exception with a quara frame is a failure whose oracle id says whether the F1 root cause predicts it."""
    try:
        return fn()
    except Exception as e:  # noqa
        qf = _quara_frame(e.__traceback__)
        if qf is None or type(e).__name__ in ("CheckFailure", "HarnessError"):
            raise
        oid = f"exception:{type(e).__name__}@{qf}"
        if not (predicted and oid == F1_ORACLE):
            oid = "unpredicted_" + oid
        ctx.fail(oid, f"grouping {label}: {type(e).__name__}: {str(e)[:300]}")
        return None


# ----------------------------------------------------------------------------- factors: quara object + reference
def _esys(name, d):
    from quara.objects.elemental_system import ElementalSystem

    return ElementalSystem(int(name), build.quara_local_basis(d))


def _csys(es_list):
    from quara.objects.composite_system import CompositeSystem

    return CompositeSystem(list(es_list))


def _make_factor(f, es):
    """(quara object on the one-system composite of es, reference dict)."""
    from quara.objects.multinomial_distribution import MultinomialDistribution
    from quara.objects.state_ensemble import StateEnsemble

    t = f["type"]
    c_sys = _csys([es])
    if t == "ensemble":
        basis = gen.ref_basis(f["shape"])
        rhos = [gen.state_matrix(s) for s in f["states"]]
        p = _probs(f["raw_p"], f["m"])
        states = [build.make(c_sys, "state", np.real(rm.vec(basis, r))) for r in rhos]
        obj = StateEnsemble(states, MultinomialDistribution(np.array(p, dtype=float)))
        return obj, {"t": t, "rhos": rhos, "p": p, "m": f["m"]}
    obj, _ = build.obj_from_case(f, c_sys)
    mats = gen.matrices(f)
    if t == "state":
        return obj, {"t": t, "rhos": [mats], "m": 1}
    if t == "povm":
        return obj, {"t": t, "E": mats, "m": f["m"]}
    if t == "gate":
        return obj, {"t": t, "K": [mats], "m": 1}
    if t == "mprocess":
        return obj, {"t": t, "K": mats, "m": f["m"]}
    raise ValueError(t)


def _check_local_basis(ctx, es_list, dims):
    for es, d in zip(es_list, dims):
        got = np.array([np.asarray(b.toarray() if hasattr(b, "toarray") else b) for b in es.basis])
        ctx.close(got, np.array(_local_basis(d)), 1e-14, "local_basis", "quara local basis differs from the refmodel basis")


def _check_csys(ctx, c_sys, es_list, names, dims, tag, with_basis=True):
    order = _sorted_order(names)
    got = [e.name for e in c_sys.elemental_systems]
    ctx.equal(got, [int(names[i]) for i in order], "csys_sorted", tag)
    ctx.check(len(got) == len(order) and all(c_sys.elemental_systems[j] is es_list[order[j]] for j in range(len(order))),
              "csys_instances", f"{tag}: elemental systems of the product are not the factor instances in ascending name")
    if with_basis:
        bref = _product_basis(tuple(dims[i] for i in order))
        got_b = np.array(build.quara_basis_matrices(c_sys))
        ctx.close(got_b, bref, 1e-13, "csys_basis", tag)


def _axis_of(ctx, shape, counts, oid, tag, names=None):
    """{factor position -> axis of the reported shape}; the factor of an axis is identified by its outcome count.
    Factors with EQUAL counts cannot be told apart by the shape: among them the axes are taken in ascending subsystem
    name (the arrangement the property states), which needs `names`."""
    try:
        shape = [int(s) for s in shape]
    except Exception:
        ctx.fail(oid, f"{tag}: reported shape {shape!r} is not a sequence of ints")
        return None
    want = sorted(counts.values())
    if not ctx.check(sorted(shape) == want, oid, f"{tag}: reported shape {shape} is not a permutation of the factor counts {want}"):
        return None
    if len(set(counts.values())) == len(counts) or names is None:
        return {f: shape.index(c) for f, c in counts.items()}
    out = {}
    for c in set(counts.values()):
        axes = [a for a, s_ in enumerate(shape) if s_ == c]
        tied = sorted((f for f, cc in counts.items() if cc == c), key=lambda f: names[f])
        out.update(dict(zip(tied, axes)))
    return out


def _serial(shape, idx):
    return int(np.ravel_multi_index(tuple(idx), tuple(shape))) if len(shape) else 0


# ----------------------------------------------------------------------------- expected products
def _expected(refs, names, dims, family):
    """dict: key (outcome index per outcome-bearing factor, in argument order) -> expected array in the sorted product basis."""
    order = _sorted_order(names)
    barr = _product_basis(tuple(dims[i] for i in order))
    k = len(refs)
    if family in ("state", "ensemble"):
        bearing = [i for i in range(k) if refs[i]["t"] == "ensemble"]
        out, probs = {}, {}
        for key in itertools.product(*[range(refs[i]["m"]) for i in bearing]):
            sel = dict(zip(bearing, key))
            mats = [refs[i]["rhos"][sel.get(i, 0)] for i in range(k)]
            out[key] = np.real(_vec(barr, _kron_sorted(mats, names)))
            probs[key] = float(np.prod([refs[i]["p"][sel[i]] for i in bearing])) if bearing else 1.0
        return bearing, out, probs
    if family == "povm":
        bearing = list(range(k))
        out = {}
        for key in itertools.product(*[range(refs[i]["m"]) for i in bearing]):
            mats = [refs[i]["E"][key[i]] for i in range(k)]
            out[key] = np.real(_vec(barr, _kron_sorted(mats, names)))
        return bearing, out, None
    if family == "process":
        bearing = [i for i in range(k) if refs[i]["t"] == "mprocess"]
        out = {}
        for key in itertools.product(*[range(refs[i]["m"]) for i in bearing]):
            sel = dict(zip(bearing, key))
            kl = [refs[i]["K"][sel.get(i, 0)] for i in range(k)]
            out[key] = np.real(_hs_from_kraus(barr, _kraus_products(kl, names)))
        return bearing, out, None
    raise ValueError(family)


def _match_elements(ctx, got_list, exp_dict, tol, oid, tag):
    """layout-free necessary condition: the elements of the result are the expected ones, one-to-one."""
    exp = list(exp_dict.values())
    if not ctx.check(len(got_list) == len(exp), oid, f"{tag}: {len(got_list)} elements, expected {len(exp)}"):
        return
    free = list(range(len(exp)))
    for g in got_list:
        g = np.asarray(g)
        hit = None
        for j in free:
            if g.shape == exp[j].shape and np.max(np.abs(g - exp[j])) <= tol:
                hit = j
                break
        if hit is None:
            ctx.fail(oid, f"{tag}: an element of the product equals no expected Kronecker product (tol {tol:.2e})")
            return
        free.remove(hit)
    ctx.n_oracles += 1


def _verify(ctx, res, family, refs, es_list, names, dims, exp, tag):
    from quara.objects.gate import Gate
    from quara.objects.mprocess import MProcess
    from quara.objects.povm import Povm
    from quara.objects.state import State
    from quara.objects.state_ensemble import StateEnsemble

    bearing, exp_el, exp_p = exp
    d = int(np.prod(dims))
    tol = _tol(d)
    counts = {i: refs[i]["m"] for i in bearing}
    if family in ("state", "ensemble"):
        if not bearing:
            if not ctx.check(type(res) is State, "result_type", f"{tag}: {type(res).__name__}"):
                return
            _check_csys(ctx, res.composite_system, es_list, names, dims, tag)
            ctx.close(res.vec, exp_el[()], tol, "kron:state", tag)
            return
        if not ctx.check(type(res) is StateEnsemble, "result_type", f"{tag}: {type(res).__name__}"):
            return
        shape = tuple(res.prob_dist.shape)
        ax = _axis_of(ctx, shape, counts, "ensemble_shape", tag)
        if ax is None:
            return
        if not ctx.check(len(res.states) == len(exp_el), "ensemble_shape", f"{tag}: {len(res.states)} states"):
            return
        _check_csys(ctx, res.states[0].composite_system, es_list, names, dims, tag)
        ps = np.asarray(res.prob_dist.ps, dtype=float)
        for idx in np.ndindex(*shape):
            key = tuple(idx[ax[i]] for i in bearing)
            idx_t = tuple(int(x) for x in idx)
            st_ = res.state(idx_t)
            ctx.close(st_.vec, exp_el[key], tol, "kron:ensemble_state", f"{tag} idx={idx_t}")
            ctx.check(st_ is res.states[_serial(shape, idx_t)], "ensemble_addressing", f"{tag} idx={idx_t}")
            ctx.close(res.prob_dist[idx_t], exp_p[key], 1e-14, "kron:ensemble_prob", f"{tag} idx={idx_t}")
            ctx.close(ps[_serial(shape, idx_t)], exp_p[key], 1e-14, "kron:ensemble_prob_flat", f"{tag} idx={idx_t}")
        return
    if family == "povm":
        if not ctx.check(type(res) is Povm, "result_type", f"{tag}: {type(res).__name__}"):
            return
        _check_csys(ctx, res.composite_system, es_list, names, dims, tag)
        _match_elements(ctx, list(res.vecs), exp_el, tol, "povm_elements", tag)
        shape = tuple(res.nums_local_outcomes)
        ax = _axis_of(ctx, shape, counts, "povm_shape", tag, names=names)
        if len(set(counts.values())) < len(counts):
            ctx.label("povm:tied-outcome-counts")
        if ax is None:
            return
        for idx in np.ndindex(*shape):
            key = tuple(idx[ax[i]] for i in bearing)
            idx_t = tuple(int(x) for x in idx)
            v = res.vec(idx_t)
            ctx.close(v, exp_el[key], tol, "povm_layout", f"{tag} idx={idx_t} shape={shape}")
            ctx.check(v is res.vecs[_serial(shape, idx_t)] or np.array_equal(v, res.vecs[_serial(shape, idx_t)]),
                      "povm_addressing", f"{tag} idx={idx_t}")
        return
    if family == "process":
        if not bearing:
            if not ctx.check(type(res) is Gate, "result_type", f"{tag}: {type(res).__name__}"):
                return
            _check_csys(ctx, res.composite_system, es_list, names, dims, tag)
            ctx.close(res.hs, exp_el[()], tol, "kron:gate", tag)
            return
        if not ctx.check(type(res) is MProcess, "result_type", f"{tag}: {type(res).__name__}"):
            return
        _check_csys(ctx, res.composite_system, es_list, names, dims, tag)
        _match_elements(ctx, list(res.hss), exp_el, tol, "mprocess_elements", tag)
        shape = tuple(res.shape)
        ax = _axis_of(ctx, shape, counts, "mprocess_shape", tag)
        if ax is None:
            return
        for idx in np.ndindex(*shape):
            key = tuple(idx[ax[i]] for i in bearing)
            idx_t = tuple(int(x) for x in idx)
            h = res.hs(idx_t)
            oid = "mplayout:hs" if len(bearing) >= 2 else "mprocess_layout"
            if not ctx.close(h, exp_el[key], tol, oid, f"{tag} idx={idx_t} shape={shape}"):
                break  # known finding: one hit per grouping is enough
            ctx.check(np.array_equal(h, res.hss[_serial(shape, idx_t)]), "mprocess_addressing", f"{tag} idx={idx_t}")
        return
    raise ValueError(family)


# ----------------------------------------------------------------------------- facet kron_order
def _nontrivial_rule(names, dims, counts):
    k = len(names)
    unsorted = list(names) != sorted(names)
    diff_counts = len({c for c in counts if c > 1}) >= 2
    return unsorted and (k >= 3 or diff_counts or len(set(dims)) > 1)


def _check_user_basis_product(ctx, refs, names, dims):
    """the same product states on elemental systems of the same names and dimensions that carry a user-supplied basis
    (the refmodel basis with elements 1 and 2 exchanged: still orthonormal, Hermitian, identity first): the product's
    composite system has the product of THOSE bases and the product state denotes the same Kronecker product of operators."""
    from quara.objects.elemental_system import ElementalSystem
    from quara.objects.matrix_basis import MatrixBasis
    from quara.objects.operators import tensor_product

    def swapped(d):
        b = [np.array(x) for x in _local_basis(d)]
        b[1], b[2] = b[2], b[1]
        return b

    loc = [swapped(d) for d in dims]
    es2 = [ElementalSystem(int(n), MatrixBasis([x.copy() for x in b])) for n, b in zip(names, loc)]
    objs2 = []
    for r, es, b in zip(refs, es2, loc):
        v = np.real(_vec(np.array(b), r["rhos"][0]))
        objs2.append(build.make(_csys([es]), "state", v))
    try:
        res = tensor_product(*objs2)
    except Exception as e:  # the grouping oracles report crashes of the flat fold; nothing to add here
        if _quara_frame(e.__traceback__) is None:
            raise
        ctx.label("user-basis:flat-fold-crash")
        return
    order = _sorted_order(names)
    bref = np.array(rm.kron_bases([loc[i] for i in order]))
    got_b = np.array(build.quara_basis_matrices(res.composite_system))
    d = int(np.prod(dims))
    ctx.close(got_b, bref, 1e-13, "user_basis:csys_basis_is_product_of_the_factors_bases")
    want = _kron_sorted([r["rhos"][0] for r in refs], names)
    ctx.close(np.asarray(res.to_density_matrix()), want, _tol(d), "user_basis:product_state_operator")
    ctx.label("user-basis-product")


def check_kron_order(case, ctx):
    from quara.objects.operators import tensor_product

    family = case["family"]
    dims, k = case["dims"], len(case["dims"])
    ctx.label("family:" + family, f"k={k}", "dims:" + "x".join(map(str, dims)))
    if family == "basis":
        return _check_basis(case, ctx)
    names = case["names"]
    counts = _case_counts(case)
    es_list = [_esys(n, d) for n, d in zip(names, dims)]
    _check_local_basis(ctx, es_list, dims)
    objs, refs = [], []
    for f, es in zip(case["factors"], es_list):
        o, r = _make_factor(f, es)
        objs.append(o)
        refs.append(r)
    pairs = set()
    exp = _expected(refs, names, dims, family)
    n_ok = 0
    for label, t, style in _groupings(case):
        predicted = _predict(t, names, dims, counts, family)[0]
        if style == "flat":
            fn = lambda: tensor_product(*objs)  # noqa
        elif style == "list":
            fn = lambda: tensor_product(list(objs))  # noqa
        else:
            fn = lambda t=t: _call_tree(t, objs)  # noqa
        res = _guarded(ctx, label, fn, predicted)
        if res is None:
            ctx.label("grouping:crash-known")
            continue
        n_ok += 1
        _verify(ctx, res, family, refs, es_list, names, dims, exp, f"grouping {label}")
    if family == "state":
        _check_user_basis_product(ctx, refs, names, dims)
    for a, b in zip(case["factors"][:-1], case["factors"][1:]):
        pairs.add(f"pair:{a['type']}x{b['type']}")
    ctx.label(*sorted(pairs))
    ctx.label("names:ascending" if list(names) == sorted(names) else "names:permuted")
    if k == 4:
        ctx.label(f"k4:groupings-evaluated={n_ok}")
    nt = _nontrivial_rule(names, dims, counts)
    ctx.nontrivial(nt and n_ok > 0)
    if nt and n_ok == 0:
        ctx.label("nontrivial-but-all-groupings-crash")


BASIS_KINDS = {2: ["pauli", "pauli_un", "comp", "comp_col", "herm"], 3: ["gm", "gm_un", "comp", "comp_col", "herm"]}


def _ref_basis_kind(kind, d):
    if kind == "pauli":
        return rm.pauli_1q(True)
    if kind == "pauli_un":
        return rm.pauli_1q(False)
    if kind == "gm":
        return rm.gell_mann(True)
    if kind == "gm_un":
        return rm.gell_mann(False)
    if kind == "comp":
        return rm.comp_basis(d, "row_major")
    if kind == "comp_col":
        return rm.comp_basis(d, "column_major")
    if kind == "herm":
        return rm.hermitian_eij_basis(d, True)
    raise ValueError(kind)


def _check_basis(case, ctx):
    from quara.objects.matrix_basis import MatrixBasis, SparseMatrixBasis
    from quara.objects.operators import tensor_product

    dims, kinds, sparse = case["dims"], case["kinds"], case["sparse"]
    k = len(dims)
    cls = SparseMatrixBasis if sparse else MatrixBasis
    refs = [_ref_basis_kind(kd, d) for kd, d in zip(kinds, dims)]
    objs = [cls([np.array(m) for m in r]) for r in refs]
    expected = np.array(rm.kron_bases(refs))  # argument order: bases carry no subsystem names
    d = int(np.prod(dims))
    ctx.label("basis:sparse" if sparse else "basis:dense")
    groupings = [("flat", lambda: tensor_product(*objs)), ("list", lambda: tensor_product(list(objs)))]
    groupings += [(tree_str(t), (lambda t=t: _call_tree(t, objs))) for t in trees(0, k)]
    for label, fn in groupings:
        res = fn()
        if not ctx.check(type(res) is cls, "result_type", f"basis grouping {label}: {type(res).__name__}"):
            continue
        got = np.array([np.asarray(b.toarray() if hasattr(b, "toarray") else b) for b in res])
        ctx.close(got, expected, _tol(d), "kron:basis", f"grouping {label}")
        ctx.equal(int(res.dim), d, "basis_dim", label)
    ctx.nontrivial(k >= 3 or len(set(dims)) > 1)


# dims admitted per family (cost: quara builds dense permutation matrices of side d^2, for processes d^4)
def _dim_tuples(kmin, kmax, dmax):
    out = []
    for k in range(kmin, kmax + 1):
        for t in itertools.product((2, 3), repeat=k):
            if int(np.prod(t)) <= dmax:
                out.append(list(t))
    return out


DIMS_VEC = _dim_tuples(2, 4, 36)
DIMS_VEC_SMALL = _dim_tuples(2, 4, 24)
DIMS_36 = [t for t in DIMS_VEC if int(np.prod(t)) == 36]
DIMS_BASIS = _dim_tuples(2, 4, 24)


@st.composite
def _names(draw, k):
    # k distinct names in drawn order (st.permutations is biased towards the identity; a unique list is not)
    # (names are arbitrary distinct integers: mostly 0..9, sometimes a range around zero with negative names)
    lo = draw(st.sampled_from([0, 0, 0, -4]))
    return [int(x) for x in draw(st.lists(st.integers(lo, lo + 9 if lo == 0 else 4), min_size=k, max_size=k, unique=True))]


@st.composite
def _factor(draw, typ, d, m=None, cheap=False):
    shp = (SHAPE_OF_DIM[d],)
    if typ == "state":
        return draw(gen.state_case(shp))
    if typ == "povm":
        return draw(gen.povm_case(shp, (m, m)))
    if typ == "gate":
        return draw(gen.gate_case(shp, max_rank=2))
    if typ == "mprocess":
        return draw(gen.mprocess_case(shp, (m, m), max_per=1 if cheap else 2))
    if typ == "ensemble":
        return {
            "type": "ensemble",
            "shape": shp[0],
            "m": m,
            "states": [draw(gen.state_case(shp)) for _ in range(m)],
            "raw_p": draw(gen.raw(m)),
        }
    raise ValueError(typ)


@st.composite
def kron_case(draw, tier):
    family = draw(st.sampled_from(["state", "povm", "povm", "ensemble", "process", "process", "basis"]))
    if family == "basis":
        dims = draw(st.sampled_from(DIMS_BASIS))
        return {
            "family": family,
            "dims": dims,
            "kinds": [draw(st.sampled_from(BASIS_KINDS[d])) for d in dims],
            "sparse": draw(st.booleans()),
        }
    if family == "process":
        # unit cost of one |HS>>x|HS>> permutation grows like d^8: d=4 0.1 s, d=6 0.6 s, d=8 2 s, d=9 5 s
        heavy = draw(st.integers(0, 19 if tier == "quick" else 11))
        if heavy == 0 and tier != "quick":  # two qutrits (5 s per |HS>>x|HS>> permutation): thorough tier only
            dims = [3, 3]
        elif heavy <= (4 if tier == "quick" else 3):
            dims = [2, 2, 2]
        else:
            dims = draw(st.sampled_from([[2, 2], [2, 2], [2, 3], [3, 2]]))
        k = len(dims)
        d = int(np.prod(dims))
        pool = draw(st.permutations([2, 3, 4] if d == 4 else [2, 3]))
        if d == 9:
            n_mp = draw(st.integers(0, 1))
        elif d == 8:  # two measurement processes among three factors: G x (M x M), (M x G) x M, (M x M) x G ...
            n_mp = draw(st.sampled_from([0, 1, 2, 2, 2, 2]))
        else:
            n_mp = draw(st.sampled_from([0, 1, 1, 2, 2, 2]))
        slots = draw(st.permutations(list(range(k))))
        mp_at = set(slots[:n_mp])
        factors, j = [], 0
        for i, dd in enumerate(dims):
            if i in mp_at:
                factors.append(draw(_factor("mprocess", dd, pool[j], cheap=True)))
                j += 1
            else:
                factors.append(draw(_factor("gate", dd)))
        return {"family": family, "dims": dims, "names": draw(_names(k)), "factors": factors,
                "style": draw(st.sampled_from(["flat", "list"]))}
    # d = 36 (2x2x3x3 in some order) costs ~15 s per case (an SVD rank test of a 1296^2 matrix per composite system): rare
    # (thorough tier only: one such case with all its groupings takes more than a minute)
    big = tier != "quick" and family != "ensemble" and draw(st.integers(0, 11)) == 0
    if big:
        dims = draw(st.sampled_from(DIMS_36))
    else:
        kk = draw(st.sampled_from([2, 3, 3, 4, 4]))
        dims = draw(st.sampled_from([t for t in DIMS_VEC_SMALL if len(t) == kk]))
    k = len(dims)
    names = draw(_names(k))
    if family == "state":
        factors = [draw(_factor("state", d)) for d in dims]
    elif family == "povm":
        pool = draw(st.permutations([2, 3, 4, 5]))
        # textbook products have EQUAL outcome counts (two 2-outcome measurements): every third case ties some or all
        tie = draw(st.integers(0, 5))
        if tie == 0:
            pool = [draw(st.sampled_from([2, 3]))] * k
        elif tie == 1:
            pool = list(pool)
            pool[draw(st.integers(1, k - 1))] = pool[0]
        factors = [draw(_factor("povm", d, pool[i])) for i, d in enumerate(dims)]
    else:
        pool = draw(st.permutations([2, 3, 4]))
        n_ens = draw(st.integers(1, min(k, 3)))
        slots = draw(st.permutations(list(range(k))))
        ens_at = set(slots[:n_ens])
        factors, j = [], 0
        for i, d in enumerate(dims):
            if i in ens_at:
                factors.append(draw(_factor("ensemble", d, pool[j])))
                j += 1
            else:
                factors.append(draw(_factor("state", d)))
    return {"family": family, "dims": dims, "names": names, "factors": factors}


# ----------------------------------------------------------------------------- facet type_pairs (enumeration)
TYPE_TAGS = ["state", "povm", "gate", "mprocess", "ensemble", "basis_dense", "basis_sparse"]
ACCEPTED = {
    ("gate", "gate"): "Gate", ("gate", "mprocess"): "MProcess", ("mprocess", "gate"): "MProcess",
    ("mprocess", "mprocess"): "MProcess", ("basis_dense", "basis_dense"): "MatrixBasis",
    ("basis_sparse", "basis_sparse"): "SparseMatrixBasis", ("state", "state"): "State",
    ("state", "ensemble"): "StateEnsemble", ("ensemble", "state"): "StateEnsemble",
    ("ensemble", "ensemble"): "StateEnsemble", ("povm", "povm"): "Povm",
}


def type_pair_items(tier):
    # a dense with a sparse basis: the docstring lists (MatrixBasis, MatrixBasis) and SparseMatrixBasis is a subclass;
    # neither acceptance nor rejection is documented -> excluded
    return [[a, b] for a in TYPE_TAGS for b in TYPE_TAGS if {a, b} != {"basis_dense", "basis_sparse"}]


def _tiny(tag, name):
    from quara.objects.matrix_basis import MatrixBasis, SparseMatrixBasis
    from quara.objects.multinomial_distribution import MultinomialDistribution
    from quara.objects.state_ensemble import StateEnsemble

    if tag == "basis_dense":
        return MatrixBasis([np.array(m) for m in rm.pauli_1q(True)])
    if tag == "basis_sparse":
        return SparseMatrixBasis([np.array(m) for m in rm.pauli_1q(True)])
    c_sys = _csys([_esys(name, 2)])
    b = gen.ref_basis("1q")
    z0 = np.diag([1.0, 0.0]).astype(complex)
    z1 = np.diag([0.0, 1.0]).astype(complex)
    if tag == "state":
        return build.make(c_sys, "state", np.real(rm.vec(b, z0)))
    if tag == "povm":
        return build.make(c_sys, "povm", np.concatenate([np.real(rm.vec(b, z0)), np.real(rm.vec(b, z1))]), m=2)
    if tag == "gate":
        return build.make(c_sys, "gate", np.eye(4).reshape(-1))
    if tag == "mprocess":
        hss = [np.real(rm.hs_from_kraus(b, [z])).reshape(-1) for z in (z0, z1)]
        return build.make(c_sys, "mprocess", np.concatenate(hss), m=2)
    if tag == "ensemble":
        s = [build.make(c_sys, "state", np.real(rm.vec(b, z))) for z in (z0, z1)]
        return StateEnsemble(s, MultinomialDistribution(np.array([0.25, 0.75])))
    raise ValueError(tag)


def check_type_pair(case, ctx):
    from quara.objects.operators import tensor_product

    a, b = case
    x, y = _tiny(a, 1), _tiny(b, 0)
    ctx.label("accepted" if (a, b) in ACCEPTED else "rejected")
    ctx.nontrivial(True)
    if (a, b) in ACCEPTED:
        res = tensor_product(x, y)
        ctx.equal(type(res).__name__, ACCEPTED[(a, b)], "pair_result_type", f"{a} x {b}")
        res2 = tensor_product([x, y])
        ctx.equal(type(res2).__name__, ACCEPTED[(a, b)], "pair_result_type_list", f"{a} x {b}")
    else:
        ctx.raises(TypeError, lambda: tensor_product(x, y), "pair_rejected", f"{a} x {b}")


# ----------------------------------------------------------------------------- facet large_state_product (enumeration)
LARGE_PRODUCTS = [  # (dims by argument position, first argument group, second argument group) - names are the positions
    {"dims": [2, 3, 2, 3], "groups": [[2, 3, 4], [1]]},   # vector of 1296 entries, a 4-cycle to sort
    {"dims": [3, 2, 3, 2], "groups": [[1, 4], [2, 3]]},
    {"dims": [2, 2, 3, 3], "groups": [[2, 4], [1, 3]]},
]


def large_product_items(tier):
    return LARGE_PRODUCTS if tier != "quick" else LARGE_PRODUCTS[:2]


def check_large_state_product(case, ctx):
    """product states whose coefficient vector has more than 1024 entries (four subsystems, two of them qutrits), the two
    arguments interleaved so that sorting needs a cycle: the product is the Kronecker product in ascending name."""
    from quara.objects.operators import tensor_product

    names = [1, 2, 3, 4]
    dims = {n: d for n, d in zip(names, case["dims"])}
    es = {n: _esys(n, dims[n]) for n in names}
    rhos, objs = {}, {}
    for n in names:
        d = dims[n]
        raw = [math.sin(1.7 * k + 0.3 * n) for k in range(2 * d * d)]
        u = rm.unitary_from_raw(raw, d)
        p = np.array([0.5 + 0.4 * math.cos(1.1 * k + n) for k in range(d)])
        p = p / p.sum()
        rho = rm.herm(u @ np.diag(p) @ u.conj().T)
        rhos[n] = rho
        objs[n] = build.make(_csys([es[n]]), "state", np.real(_vec(np.array(_local_basis(d)), rho)))
    g1, g2 = case["groups"]
    a = tensor_product(*[objs[n] for n in g1]) if len(g1) > 1 else objs[g1[0]]
    b = tensor_product(*[objs[n] for n in g2]) if len(g2) > 1 else objs[g2[0]]
    res = tensor_product(a, b)
    want = _kron_all([rhos[n] for n in names])
    dtot = int(np.prod(case["dims"]))
    ctx.equal([e.name for e in res.composite_system.elemental_systems], names, "large_product:csys_sorted")
    ctx.close(np.asarray(res.to_density_matrix()), want, _tol(dtot), "large_product:state_is_kron_in_ascending_name")
    ctx.label("dims:" + "x".join(map(str, case["dims"])), f"vec-entries:{dtot * dtot}")
    ctx.nontrivial(True)


# ----------------------------------------------------------------------------- facet product_statistics
def _safe_perm(names, perm):
    """argument order perm of the factors: True iff the flat fold never reaches the F1 root cause."""
    nm = [names[i] for i in perm]
    return not _predict(left_comb(len(nm)), nm, [2] * len(nm), [1] * len(nm), "state")[0]


def _arrange(objs, perm):
    return [objs[i] for i in perm]


def check_product_statistics(case, ctx):
    from quara.objects.operators import compose_qoperations, tensor_product

    dims, names = case["dims"], case["names"]
    k = len(dims)
    d = int(np.prod(dims))
    order = _sorted_order(names)
    barr = _product_basis(tuple(dims[i] for i in order))
    es_list = [_esys(n, dd) for n, dd in zip(names, dims)]
    _check_local_basis(ctx, es_list, dims)
    tol = _tol(d)
    full = case["chain"] == "full"
    ctx.label("chain:" + case["chain"], f"k={k}", "dims:" + "x".join(map(str, dims)))

    st_objs, st_refs = zip(*[_make_factor(f, e) for f, e in zip(case["states"], es_list)])
    pv_objs, pv_refs = zip(*[_make_factor(f, e) for f, e in zip(case["povms"], es_list)])
    rho = tensor_product(*_arrange(st_objs, case["perm_state"]))
    povm = tensor_product(*_arrange(pv_objs, case["perm_povm"]))
    _check_csys(ctx, rho.composite_system, es_list, names, dims, "state product", with_basis=True)
    _check_csys(ctx, povm.composite_system, es_list, names, dims, "povm product", with_basis=False)

    loc_rho = [r["rhos"][0] for r in st_refs]
    if full:
        gt_objs, gt_refs = zip(*[_make_factor(f, e) for f, e in zip(case["gates"], es_list)])
        mp_objs, mp_refs = zip(*[_make_factor(f, e) for f, e in zip(case["mps"], es_list)])
        gate = tensor_product(*_arrange(gt_objs, case["perm_gate"]))
        mp = tensor_product(*_arrange(mp_objs, case["perm_mp"]))
        loc_rho = [_apply_kraus(g["K"][0], r) for g, r in zip(gt_refs, loc_rho)]
        mp_bearing = [i for i in range(k) if mp_refs[i]["t"] == "mprocess"]
    else:
        mp_refs, mp_bearing = None, []

    # local unnormalised post-measurement states and local probability tables (refmodel only)
    def local_post(i, x):
        if not full:
            return loc_rho[i]
        ks = mp_refs[i]["K"][x] if mp_refs[i]["t"] == "mprocess" else mp_refs[i]["K"][0]
        return _apply_kraus(ks, loc_rho[i])

    pv_counts = {i: pv_refs[i]["m"] for i in range(k)}
    mp_counts = {i: mp_refs[i]["m"] for i in mp_bearing}
    pshape = tuple(povm.nums_local_outcomes)
    pax = _axis_of(ctx, pshape, pv_counts, "povm_shape", "povm product", names=names)
    if len(set(pv_counts.values())) < len(pv_counts):
        ctx.label("povm:tied-outcome-counts")
    if pax is None:
        return
    v = np.asarray(rho.vec, dtype=float)
    ctx.close(v, np.real(_vec(barr, _kron_sorted([r["rhos"][0] for r in st_refs], names))), tol, "kron:state", "state product")
    if full:
        v = np.asarray(gate.hs, dtype=float) @ v
        mshape = tuple(mp.shape) if mp_bearing else ()
        if mp_bearing:
            max_ = _axis_of(ctx, mshape, mp_counts, "mprocess_shape", "mprocess product")
            if max_ is None:
                return
        m_indices = list(np.ndindex(*mshape)) if mp_bearing else [()]
    else:
        m_indices, mshape = [()], ()

    exp_tab, obs_tab = {}, {}
    layout_ok = True
    two_mp = len(mp_bearing) >= 2  # the layout oracles of a product of two measurement processes carry their own id
    for midx in m_indices:
        midx = tuple(int(x) for x in midx)
        if full:
            hs = np.asarray(mp.hs(midx) if mp_bearing else mp.hs, dtype=float)
            w = hs @ v
            sel = {i: midx[max_[i]] for i in mp_bearing}
        else:
            w, sel = v, {}
        posts = [local_post(i, sel.get(i, 0)) for i in range(k)]
        if full and layout_ok:
            # product states stay product states: the unnormalised post-measurement state is the product of the local ones
            layout_ok = ctx.close(w, np.real(_vec(barr, _kron_sorted(posts, names))), tol,
                                  "mplayout:post_state" if two_mp else "post_state_layout", f"mprocess idx={midx} shape={mshape}")
        for pidx in np.ndindex(*pshape):
            pidx = tuple(int(x) for x in pidx)
            e_loc = [pv_refs[i]["E"][pidx[pax[i]]] for i in range(k)]
            exp_tab[(midx, pidx)] = float(np.prod([np.real(np.trace(e_loc[i] @ posts[i])) for i in range(k)]))
            obs_tab[(midx, pidx)] = float(np.dot(np.asarray(povm.vec(pidx), dtype=float), w))
    keys = sorted(exp_tab)
    e_arr = np.array([exp_tab[q] for q in keys])
    o_arr = np.array([obs_tab[q] for q in keys])
    ctx.close(np.sort(o_arr), np.sort(e_arr), tol, "stats_values", "multiset of joint probabilities")
    ctx.close(o_arr, e_arr, tol, "mplayout:stats" if two_mp else "stats_layout", f"joint statistics addressed through shapes {mshape}+{pshape}")
    ctx.close(float(e_arr.sum()), 1.0, tol, "stats_normalised")

    # what a user sees: quara's own Born rule on the products, laid out by the reported shapes
    if not full:
        dist = compose_qoperations(povm, rho)
        ps = np.asarray(dist.ps, dtype=float)
        if ctx.check(ps.size == int(np.prod(pshape)), "compose_povm_state_size", f"{ps.size} vs {pshape}"):
            tab = ps.reshape(pshape)
            exp = np.array([exp_tab[((), tuple(int(x) for x in pidx))] for pidx in np.ndindex(*pshape)]).reshape(pshape)
            # documented post-processing of the distribution: truncate_and_normalize zeroes entries < atol = 1e-13 and
            # MultinomialDistribution zeroes entries < eps_zero = 1e-8, both renormalise: perturbation <= size * 1e-8
            # (a layout error moves entries by O(1e-2) or more)
            ctx.close(tab, exp, tol + ps.size * 1.01e-8, "compose_povm_state_layout")
    elif mp_bearing:
        marg = {}
        for (midx, pidx), val in exp_tab.items():
            marg[midx] = marg.get(midx, 0.0) + val
        # documented post-processing: MProcess o State and MultinomialDistribution zero probabilities <= eps_zero = 1e-8
        # and renormalise: perturbation <= 2 * size * 1e-8 (a layout error moves entries by O(1e-2) or more)
        ens = compose_qoperations(mp, gate, rho)
        for midx, val in sorted(marg.items()):
            if not ctx.close(ens.prob_dist[midx], val, tol + 2.02e-8 * len(marg),
                             "mplayout:compose" if two_mp else "compose_mprocess_state_layout", f"idx={midx} shape={mshape}"):
                break

    permuted = any(list(case[p]) != order for p in ("perm_state", "perm_povm") + (("perm_gate", "perm_mp") if full else ()))
    ctx.label("args:permuted" if permuted else "args:ascending", f"mprocess-factors={len(mp_bearing)}")
    ctx.nontrivial(permuted)


@st.composite
def stats_case(draw, tier):
    chain = draw(st.sampled_from(["full", "full", "sp"]))
    if chain == "full":
        if draw(st.integers(0, 11 if tier == "quick" else 7)) == 0:
            dims = draw(st.sampled_from([[2, 2, 2], [3, 3]]))
        else:
            dims = draw(st.sampled_from([[2, 2], [2, 2], [2, 3], [3, 2]]))
    else:
        dims = draw(st.sampled_from(DIMS_VEC_SMALL))
    k = len(dims)
    d = int(np.prod(dims))
    names = draw(_names(k))

    def perm():
        # k = 4: arrangements whose flat fold reaches the C07-F1 root cause are left to kron_order
        ps = [list(p) for p in itertools.permutations(range(k)) if k < 4 or _safe_perm(names, p)]
        return draw(st.sampled_from(ps))

    pool = draw(st.permutations([2, 3, 4, 5]))
    if draw(st.integers(0, 3)) == 0:
        pool = [draw(st.sampled_from([2, 3]))] * len(dims)
    case = {
        "chain": chain, "dims": dims, "names": names,
        "states": [draw(_factor("state", dd)) for dd in dims],
        "povms": [draw(_factor("povm", dd, pool[i])) for i, dd in enumerate(dims)],
        "perm_state": perm(), "perm_povm": perm(),
    }
    if chain == "full":
        mpool = draw(st.permutations([2, 3, 4] if d == 4 else [2, 3]))
        n_mp = 1 if d >= 8 else draw(st.sampled_from([1, 1, 2]))
        slots = draw(st.permutations(list(range(k))))
        mp_at = set(slots[:n_mp])
        mps, j = [], 0
        for i, dd in enumerate(dims):
            if i in mp_at:
                mps.append(draw(_factor("mprocess", dd, mpool[j], cheap=True)))
                j += 1
            else:
                mps.append(draw(_factor("gate", dd)))
        case["mps"] = mps
        case["gates"] = [draw(_factor("gate", dd)) for dd in dims]
        case["perm_gate"] = perm()
        case["perm_mp"] = perm()
    return case


# ----------------------------------------------------------------------------- facet factorwise_action
def check_factorwise(case, ctx):
    from quara.objects.operators import compose_qoperations, tensor_product

    dims, names = case["dims"], case["names"]
    k = len(dims)
    d = int(np.prod(dims))
    order = _sorted_order(names)
    sdims = tuple(dims[i] for i in order)
    barr = _product_basis(sdims)
    es_list = [_esys(n, dd) for n, dd in zip(names, dims)]
    tol = _tol(d)
    objs, refs = zip(*[_make_factor(f, e) for f, e in zip(case["procs"], es_list)])
    perm = case["perm"]
    t = trees(0, k)[case["tree"] % len(trees(0, k))]
    arranged = _arrange(objs, perm)
    proc = _call_tree(t, arranged)
    ctx.label("input:" + case["input"]["kind"], f"k={k}", "dims:" + "x".join(map(str, dims)), "tree:" + tree_str(t))
    _check_csys(ctx, proc.composite_system, es_list, names, dims, "process product")

    if case["input"]["kind"] == "product":
        s_objs, s_refs = zip(*[_make_factor(f, e) for f, e in zip(case["input"]["states"], es_list)])
        rho_q = tensor_product(*_arrange(s_objs, case["input"]["perm"]))
        rho = _kron_sorted([r["rhos"][0] for r in s_refs], names)
        ctx.close(rho_q.vec, np.real(_vec(barr, rho)), tol, "kron:state", "input product state")
        loc = [r["rhos"][0] for r in s_refs]
    else:
        inp = case["input"]
        rho = rm.density_from_raw(inp["raw_u"], inp["raw_p"], d, inp.get("zero_mask"))
        rho_q = build.make(_csys(es_list), "state", np.real(_vec(barr, rho)))
        loc = None
    v = np.asarray(rho_q.vec, dtype=float)

    bearing = [i for i in range(k) if refs[i]["t"] == "mprocess"]
    counts = {i: refs[i]["m"] for i in bearing}
    if bearing:
        shape = tuple(proc.shape)
        ax = _axis_of(ctx, shape, counts, "mprocess_shape", "process product")
        if ax is None:
            return
        indices = [tuple(int(x) for x in i) for i in np.ndindex(*shape)]
    else:
        shape, ax, indices = (), {}, [()]
    got, exp = [], []
    for idx in indices:
        hs = np.asarray(proc.hs(idx) if bearing else proc.hs, dtype=float)
        sel = {i: idx[ax[i]] for i in bearing}
        kl = [refs[i]["K"][sel.get(i, 0)] for i in range(k)]
        out = _apply_kraus(_kraus_products(kl, names), rho)
        got.append(hs @ v)
        exp.append(np.real(_vec(barr, out)))
        if loc is not None:  # (G1 x G2)(rho1 x rho2) = G1 rho1 x G2 rho2
            fw = _kron_sorted([_apply_kraus(kl[i], loc[i]) for i in range(k)], names)
            ctx.close(out, fw, tol, "refmodel_selfcheck", "Kraus product vs factor-wise action (harness self-check)")
    _match_elements(ctx, got, dict(enumerate(exp)), tol, "action_elements", "outputs")
    for idx, g, e in zip(indices, got, exp):
        if not ctx.close(g, e, tol, "mplayout:action" if len(bearing) >= 2 else "action", f"idx={idx} shape={shape}"):
            break
    if not bearing:
        out_q = compose_qoperations(proc, rho_q)
        ctx.close(out_q.vec, exp[0], tol, "action_compose", "compose_qoperations(product gate, state)")
    ctx.label(f"mprocess-factors={len(bearing)}")
    arg_names = [names[i] for i in perm]
    ctx.nontrivial(arg_names != sorted(arg_names) and (case["input"]["kind"] == "entangled" or k >= 3 or len(set(dims)) > 1 or len(bearing) >= 1))


@st.composite
def factorwise_case(draw, tier):
    heavy = draw(st.integers(0, 5))
    if heavy == 0:
        dims = draw(st.sampled_from([[2, 2, 2], [2, 2, 2], [3, 3]]))
    else:
        dims = draw(st.sampled_from([[2, 2], [2, 3], [3, 2]]))
    k = len(dims)
    d = int(np.prod(dims))
    names = draw(_names(k))
    pool = draw(st.permutations([2, 3, 4] if d == 4 else [2, 3]))
    n_mp = 0 if d >= 8 else draw(st.sampled_from([0, 0, 1, 1, 2]))
    slots = draw(st.permutations(list(range(k))))
    mp_at = set(slots[:n_mp])
    procs, j = [], 0
    for i, dd in enumerate(dims):
        if i in mp_at:
            procs.append(draw(_factor("mprocess", dd, pool[j], cheap=True)))
            j += 1
        else:
            procs.append(draw(_factor("gate", dd)))
    if draw(st.booleans()):
        inp = {"kind": "product", "states": [draw(_factor("state", dd)) for dd in dims],
               "perm": list(draw(st.permutations(list(range(k)))))}
    else:
        inp = {"kind": "entangled", "raw_u": draw(gen.raw(2 * d * d)), "raw_p": draw(gen.raw(d))}
        if draw(st.booleans()):
            inp["zero_mask"] = [False] + [True] * (d - 1)  # pure entangled state
    return {"dims": dims, "names": names, "procs": procs, "perm": list(draw(st.permutations(list(range(k))))),
            "tree": draw(st.integers(0, 4)), "input": inp}


# ----------------------------------------------------------------------------- facet embedding
@functools.lru_cache(maxsize=4)
def _qubit_basis(n):
    return np.array(rm.kron_bases([rm.pauli_1q(True)] * n))


def _choi_from_hs(barr, hs):
    """Choi matrix (sum |K>><<K|, row-major vec) from an HS matrix in the orthonormal basis barr; vectorised."""
    n, d, _ = barr.shape
    u = barr.reshape(n, d * d).T  # column a = row-major vec of B_a
    hs_cb = u @ hs @ u.conj().T  # sum K (x) conj K : index ((i,k),(j,l)) with K_ij conj(K_kl)
    return hs_cb.reshape(d, d, d, d).transpose(0, 2, 1, 3).reshape(d * d, d * d)


def _physical_defects(t, barr, obj):
    """(equality defect, most negative eigenvalue) of a quara object, recomputed from its parameters with numpy."""
    d = barr.shape[1]
    if t == "state":
        rho = _unvec(barr, obj.vec)
        return abs(np.trace(rho) - 1), -min(0.0, rm.min_eig(rho))
    if t == "povm":
        es = [_unvec(barr, v) for v in obj.vecs]
        return float(np.max(np.abs(sum(es) - np.eye(d)))), -min(0.0, min(rm.min_eig(e) for e in es))
    hss = [np.asarray(obj.hs, dtype=float)] if t == "gate" else [np.asarray(h, dtype=float) for h in obj.hss]
    tr_b = np.array([np.trace(b) for b in barr])
    eq = float(np.max(np.abs(tr_b @ sum(hss) - tr_b)))
    neg = -min(0.0, min(rm.min_eig(_choi_from_hs(barr, h)) for h in hss))
    return eq, neg


def check_embedding(case, ctx):
    from quara.objects.qoperation import QOperation

    obj_case = case["obj"]
    t, shape = obj_case["type"], obj_case["shape"]
    nq = len(gen.SHAPES[shape])
    d3, d4 = 3 ** nq, 4 ** nq
    ctx.label(t, shape, "kind:" + str(obj_case.get("kind", "generic")))
    c3 = build.c_sys_for(shape)
    kw = {}
    if t == "mprocess" and case.get("mp_shape"):
        kw["shape"] = tuple(case["mp_shape"])
    obj3, _ = build.obj_from_case(obj_case, c3, **kw)
    rho_case = case["input"]
    rho3_q, _ = build.obj_from_case(rho_case, c3)
    pv_case = case["probe_povm"]
    pv3_q, _ = build.obj_from_case(pv_case, c3)

    qnames = case["qubit_names"]  # distinct, arbitrary order: the composite system sorts them
    es = [_esys(n, 2) for n in qnames]
    b4 = _qubit_basis(2 * nq)
    if case.get("target_rot") is not None:
        # target qubits carrying hand-rotated (orthonormal, Hermitian) bases; for states, POVMs and gates also bases whose
        # first element is not proportional to the identity (measurement processes document that they reject those)
        from harness import covar
        from quara.objects.elemental_system import ElementalSystem
        from quara.objects.matrix_basis import MatrixBasis

        mode = case.get("target_mode", "keep_first")
        ctx.label("target_basis:rotated:" + mode)
        loc = {}
        for k, n in enumerate(qnames):
            o = covar.local_rotation(2, case["target_rot"], k, mode)
            loc[int(n)] = [rm.herm(x) for x in rm.rotate_basis(rm.pauli_1q(True), o, keep_first=False)]
        es = [ElementalSystem(int(n), MatrixBasis(loc[int(n)])) for n in qnames]
        b4 = np.array(rm.kron_bases([loc[n] for n in sorted(loc)]))
    tol = _tol(d4) + 1e-10  # + eigenvalues <= 1e-13 of the Choi matrix dropped by to_kraus_matrices

    # documented rejection: 2 x (number of qutrits) target systems are required
    for wrong in ([1, 3] if nq == 1 else [1, 3]):
        es_w = [_esys(n, 2) for n in range(wrong)]
        ctx.raises(ValueError, lambda es_w=es_w: QOperation.embed_qoperation_from_qutrits_to_qubits(obj3, es_w),
                   "embed_rejects_wrong_count", f"{wrong} target systems for {nq} qutrit(s)")

    emb = QOperation.embed_qoperation_from_qutrits_to_qubits(obj3, es)
    if not ctx.check(type(emb) is type(obj3), "embed_type", f"{type(emb).__name__}"):
        return
    got = [e.name for e in emb.composite_system.elemental_systems]
    ctx.equal(got, sorted(int(n) for n in qnames), "embed_csys_sorted")
    ctx.close(np.array(build.quara_basis_matrices(emb.composite_system)), b4, 1e-13, "embed_csys_basis")

    eq, neg = _physical_defects(t, b4, emb)
    ctx.leq(eq, 0.0, tol, "embed_physical_eq", f"{t}: trace / identity-sum / TP defect of the embedded object")
    ctx.leq(neg, 0.0, tol, "embed_physical_ineq", f"{t}: most negative eigenvalue of the embedded object")
    if nq == 1 or t in ("state", "povm"):
        # (quara's CP verdict on 4 qubits builds 65 536 sparse Kronecker products per composite system: ~1 min; the
        # physicality oracle above does not depend on it)
        ctx.check(bool(emb.is_physical(1e-8, 1e-8)), "embed_is_physical_verdict", "quara's own verdict at atol 1e-8")

    # statistics of embedded inputs: everything on the qubit side comes from quara's embedding, the qutrit side from refmodel
    es2 = list(emb.composite_system.elemental_systems)
    emb_rho = emb if t == "state" else QOperation.embed_qoperation_from_qutrits_to_qubits(rho3_q, es2)
    emb_pv = emb if t == "povm" else QOperation.embed_qoperation_from_qutrits_to_qubits(pv3_q, es2)
    rho3 = gen.matrices(obj_case) if t == "state" else gen.state_matrix(rho_case)
    e3 = gen.matrices(obj_case) if t == "povm" else gen.povm_matrices(pv_case)
    v4 = np.asarray(emb_rho.vec, dtype=float)
    e4 = [np.asarray(v, dtype=float) for v in emb_pv.vecs]
    if not ctx.check(len(e4) == len(e3), "embed_num_outcomes", f"{len(e4)} vs {len(e3)}"):
        return
    if t in ("state", "povm"):
        exp = np.array([np.real(np.trace(e @ rho3)) for e in e3])
        obs = np.array([float(np.dot(e, v4)) for e in e4])
        ctx.close(obs, exp, tol, f"embed_statistics:{t}")
    elif t == "gate":
        out3 = _apply_kraus(gen.gate_kraus(obj_case), rho3)
        w4 = np.asarray(emb.hs, dtype=float) @ v4
        exp = np.array([np.real(np.trace(e @ out3)) for e in e3])
        obs = np.array([float(np.dot(e, w4)) for e in e4])
        ctx.close(obs, exp, tol, "embed_statistics:gate")
    else:
        ks = gen.mprocess_kraus(obj_case)
        ctx.equal(tuple(emb.shape), tuple(obj3.shape), "embed_mprocess_shape")
        if not ctx.check(len(emb.hss) == len(ks), "embed_num_outcomes", f"{len(emb.hss)} vs {len(ks)}"):
            return
        exp = np.array([[np.real(np.trace(e @ _apply_kraus(kx, rho3))) for e in e3] for kx in ks])
        obs = np.array([[float(np.dot(e, np.asarray(h, dtype=float) @ v4)) for e in e4] for h in emb.hss])
        ctx.close(obs, exp, tol, "embed_statistics:mprocess")
    ctx.nontrivial(True)


@st.composite
def embedding_case(draw, tier):
    t = draw(st.sampled_from(["state", "povm", "gate", "mprocess"]))
    two = draw(st.integers(0, 9)) < (3 if t in ("state", "povm") else 1)
    shape = "2qutrit" if two else "qutrit"
    shp = (shape,)
    nq = 2 if two else 1
    case = {}
    if t == "state":
        case["obj"] = draw(gen.state_case(shp))
    elif t == "povm":
        case["obj"] = draw(gen.povm_case(shp, (2, 4)))
    elif t == "gate":
        # 2 qutrits: the depolarising kind has rank 81 and quara's embedding of it takes > 1 min; ranks <= 3 only
        case["obj"] = draw(gen.gate_case(shp, max_rank=3).filter(lambda c: not (two and (c["kind"] == "depol" or (c["kind"] == "weak" and c.get("sub") == "depol")))))
    else:
        case["obj"] = draw(gen.mprocess_case(shp, (2, 4), max_per=2))
        if case["obj"]["m"] == 4 and draw(st.booleans()):
            case["mp_shape"] = [2, 2]
    case["input"] = draw(gen.state_case(shp))
    case["probe_povm"] = draw(gen.povm_case(shp, (3, 4)))
    pool = draw(st.permutations(list(range(8))))
    case["qubit_names"] = [int(x) for x in pool[: 2 * nq]]
    if draw(st.integers(0, 2)) == 0:
        case["target_rot"] = draw(gen.raw(32))
        case["target_mode"] = "keep_first" if t == "mprocess" else draw(st.sampled_from(["keep_first", "full", "givens0"]))
    return case


# ----------------------------------------------------------------------------- facets
FACETS = {
    "kron_order": {
        "strategy": kron_case,
        "check": check_kron_order,
        "budget": {"quick": {"examples": 320, "shards": 16}, "thorough": {"examples": 4000, "shards": 16}},
        "nontrivial": "names not ascending and (k >= 3 or different outcome counts or dims 2/3 mixed), at least one grouping "
                      "evaluated; basis family: k >= 3 or mixed dims",
        "min_nontrivial": 40,
    },
    "type_pairs": {
        "kind": "enumeration",
        "items": type_pair_items,
        "check": check_type_pair,
        "budget": {"quick": {"examples": 0, "shards": 1}, "thorough": {"examples": 0, "shards": 1}},
        "nontrivial": "every ordered pair of operand types (exhaustive)",
        "min_nontrivial": 47,
    },
    "large_state_product": {
        "kind": "enumeration",
        "items": large_product_items,
        "check": check_large_state_product,
        "exhaustive": False,
        "budget": {"quick": {"examples": 0, "shards": 2}, "thorough": {"examples": 0, "shards": 3}},
        "nontrivial": "every case (coefficient vector beyond 1024 entries, arguments interleaved)",
        "min_nontrivial": 2,
    },
    "product_statistics": {
        "strategy": stats_case,
        "check": check_product_statistics,
        "budget": {"quick": {"examples": 400, "shards": 4}, "thorough": {"examples": 6000, "shards": 16}},
        "nontrivial": "at least one of the products (state, gate, mprocess, POVM) is formed with arguments not in ascending name",
        "min_nontrivial": 30,
    },
    "factorwise_action": {
        "strategy": factorwise_case,
        "check": check_factorwise,
        "budget": {"quick": {"examples": 400, "shards": 4}, "thorough": {"examples": 6000, "shards": 16}},
        "nontrivial": "arguments not in ascending name and (entangled input or k >= 3 or mixed dims or a measurement process factor)",
        "min_nontrivial": 30,
    },
    "embedding": {
        "strategy": embedding_case,
        "check": check_embedding,
        "budget": {"quick": {"examples": 300, "shards": 6}, "thorough": {"examples": 4000, "shards": 16}},
        "nontrivial": "every case (generated physical qutrit object, generated embedded input and probe POVM)",
        "min_nontrivial": 30,
    },
}
