"""C03 - Optimisation variables and objects are in one-to-one correspondence."""
import functools
import math

import numpy as np
from hypothesis import strategies as st

from harness import build, gen
from harness import refmodel as rm

RULE = (
    "A configuration is (type in state/povm/gate/mprocess, shape in 1q/qutrit/2q[/2x3], outcome count m in 2..5 for "
    "povm/mprocess, parametrisation flag on_para_eq_constraint, for mprocess also a multi-dimensional outcome shape).  Real "
    "parameter vectors are plain case data: either every entry is a Hypothesis-drawn float in [-1e3,1e3] (vectors of <= 80 "
    "entries) or a Weyl sequence scale*(2*frac(offset+i*alpha)-1) with Hypothesis-drawn scale in [1e-3,1e3], offset and alpha "
    "(all entries distinct, so a misplaced entry is visible) plus Hypothesis-drawn overrides (0, +-1, 1/sqrt d, +-1e3, "
    "denormals) at drawn positions; they are arbitrary real vectors, not physical objects.  For flag=True the object-side "
    "vector is completed by the pure-numpy reference parametrisation of this module (implied first coefficient 1/sqrt d, "
    "implied last POVM element sqrt(d) e0 - sum, implied first HS row e0, implied first row of the last HS = e0 - sum of the "
    "other first rows), so it satisfies the equality constraint by construction; vectors violating it are also generated and "
    "only the half of the round trip that is defined for them is asserted.  Index maps are enumerated exhaustively: every "
    "variable index of every configuration of the tier (all types x flags x m in 2..5 x shapes), and every total index of "
    "every generated operation set (0..3 objects per type, mixed flags, m and dimensions).  Non-trivial = m >= 3 or "
    "flag=True, or an operation set holding >= 2 object types."
)
ASSUMPTIONS = [
    "stacked-vector layout = the constructor argument order: state vec; POVM vecs concatenated by outcome; gate HS row-major; "
    "measurement-process HS matrices row-major concatenated by outcome (harness/build.make)",
    "the variable order inside an object is the stacked order with the implied entries removed (what to_var documents and "
    "every estimator relies on); the order of objects inside SetQOperations.var_total is NOT assumed: it is read through "
    "local_info_from_index_var_total and checked to be a bijection onto the reference set of (type, object, local index)",
    "free entries are copied, never recomputed: compared with tolerance 0 when flag=False, and with the algebraic tolerance "
    "1e3*eps*d^2*(1+scale) when flag=True (implied entries involve a sum of <= 4 terms)",
    "calc_gradient: required to be the derivative of generate_from_var on the explicitly stored (free) entries; at implied "
    "entries both the stored-entry convention (0) and the true derivative are accepted",
]
TECHNIQUE = (
    "property-based testing (Hypothesis) of round trips against a pure-numpy reference parametrisation + exhaustive "
    "enumeration of every variable index per configuration and of every total index per generated operation set"
)
LEVEL_TEXT = (
    "Index conversions are decided exhaustively for every configuration of the tier (every variable index: range, bijection, "
    "one-hot gradient = exact finite difference of the affine map generate_from_var, entry holds the variable) and for every "
    "total index of each generated operation set.  The value round trips (object->var->object, var->object->var, "
    "stacked<->var, SetQOperations var_total) are a generated-input search over all types, flags, m in 2..5 and shapes with "
    "arbitrary real vectors whose entries are all distinct, compared with an independent numpy model of the parametrisation; "
    "since every conversion is affine and entry-wise, one vector with distinct entries per configuration already pins the "
    "map, thousands are run.  num_variables of the four tomography classes, SetQOperations.size_var_* and the column count of "
    "matA are compared with the reference count for every generated configuration."
)
LEVEL_NOTE = (
    "Trusted: numpy, harness/build.make as the definition of the stacked layout, and the reference parametrisation written in "
    "this module from the property statement (implied entries) - it imports nothing from quara.  Only the normalised "
    "identity-first bases (Pauli / Gell-Mann and their tensor products) are generated, the domain on which the implied "
    "entries 1/sqrt d, sqrt(d) e0 and e0 are meaningful."
)

TYPES = ("state", "povm", "gate", "mprocess")
ALPHAS = (
    0.6180339887498949,  # golden ratio - 1
    0.41421356237309515,  # sqrt 2 - 1
    0.7320508075688772,  # sqrt 3 - 1
    0.23606797749978958,  # sqrt 5 - 2
)
DRAWN_MAX = 80


# ============================================================================= reference model (pure numpy)
def dims_of(cfg):
    d = gen.dim_of(cfg["shape"])
    return d, d * d


def stacked_len(t, n, m):
    if t == "state":
        return n
    if t == "povm":
        return m * n
    if t == "gate":
        return n * n
    if t == "mprocess":
        return m * n * n
    raise ValueError(t)


def implied_positions(t, n, m, flag):
    """stacked positions that the equality-constrained parametrisation does not store."""
    if not flag:
        return np.zeros(0, dtype=int)
    if t == "state":
        return np.array([0])
    if t == "povm":
        return np.arange((m - 1) * n, m * n)
    if t == "gate":
        return np.arange(0, n)
    if t == "mprocess":
        return np.arange((m - 1) * n * n, (m - 1) * n * n + n)
    raise ValueError(t)


def free_positions(t, n, m, flag):
    mask = np.ones(stacked_len(t, n, m), dtype=bool)
    mask[implied_positions(t, n, m, flag)] = False
    return np.nonzero(mask)[0]


def ref_num_var(t, n, m, flag):
    return stacked_len(t, n, m) - len(implied_positions(t, n, m, flag))


def ref_var_to_stacked(t, d, m, flag, var):
    """the object (as stacked vector) a variable vector denotes."""
    n = d * d
    var = np.asarray(var, dtype=float)
    if not flag:
        return var.copy()
    x = np.zeros(stacked_len(t, n, m))
    x[free_positions(t, n, m, flag)] = var
    if t == "state":
        x[0] = 1.0 / math.sqrt(d)
    elif t == "povm":
        last = np.zeros(n)
        last[0] = math.sqrt(d)
        for k in range(m - 1):
            last = last - var[k * n : (k + 1) * n]
        x[(m - 1) * n :] = last
    elif t == "gate":
        x[:n] = 0.0
        x[0] = 1.0
    elif t == "mprocess":
        row = np.zeros(n)
        row[0] = 1.0
        for k in range(m - 1):
            row = row - var[k * n * n : k * n * n + n]
        x[(m - 1) * n * n : (m - 1) * n * n + n] = row
    return x


def ref_stacked_to_var(t, d, m, flag, x):
    return np.asarray(x, dtype=float)[free_positions(t, d * d, m, flag)].copy()


def ref_object_index(t, n, p):
    """object-entry index (as the index maps name it) of stacked position p."""
    p = int(p)
    if t == "state":
        return p
    if t in ("povm", "gate"):
        return (p // n, p % n)
    if t == "mprocess":
        return (p // (n * n), (p % (n * n)) // n, p % n)
    raise ValueError(t)


def reshape_like_object(t, n, m, x):
    x = np.asarray(x, dtype=float)
    if t == "state":
        return x
    if t == "povm":
        return x.reshape(m, n)
    if t == "gate":
        return x.reshape(n, n)
    return x.reshape(m, n, n)


def fill_values(spec, length, d):
    """the real vector a fill spec denotes (pure function of case data)."""
    length = int(length)
    if spec["kind"] == "drawn":
        vals = np.array([float(v) for v in spec["values"]], dtype=float)
        if vals.size < length:  # only after manual editing of a replay file
            vals = np.concatenate([vals, np.zeros(length - vals.size)])
        vals = vals[:length].copy()
    elif spec["kind"] == "weyl":
        i = np.arange(1, length + 1, dtype=float)
        u = np.mod(float(spec["offset"]) + i * ALPHAS[int(spec["alpha"]) % len(ALPHAS)], 1.0)
        vals = float(spec["scale"]) * (2.0 * u - 1.0)
    elif spec["kind"] == "grid":  # exactly representable, all distinct
        vals = (np.arange(length, dtype=float) + 1.0) / 8.0
    else:
        raise ValueError(spec["kind"])
    for pos, val in spec.get("overrides", []):
        if length:
            if val == "inv_sqrt_d":
                val = 1.0 / math.sqrt(d)
            elif val == "sqrt_d":
                val = math.sqrt(d)
            vals[int(pos) % length] = float(val)
    return vals


def all_distinct(v):
    v = np.asarray(v)
    return bool(np.unique(v).size == v.size)


def tol_for(d, *arrays):
    scale = max([float(np.max(np.abs(a))) if np.size(a) else 0.0 for a in arrays] + [1.0])
    return rm.algebraic_tol(d, scale)


# ============================================================================= quara access helpers
@functools.lru_cache(maxsize=None)
def _native_convert(t):
    """(var -> native form, native form -> var) module-level converters named in the property's mechanism."""
    if t == "state":
        from quara.objects.state import convert_var_to_vec, convert_vec_to_var

        return convert_var_to_vec, convert_vec_to_var
    if t == "povm":
        from quara.objects.povm import convert_var_to_vecs, convert_vecs_to_var

        return convert_var_to_vecs, convert_vecs_to_var
    if t == "gate":
        from quara.objects.gate import convert_hs_to_var, convert_var_to_hs

        return convert_var_to_hs, convert_hs_to_var
    from quara.objects.mprocess import convert_hss_to_var, convert_var_to_hss

    return convert_var_to_hss, convert_hss_to_var


@functools.lru_cache(maxsize=None)
def c_sys_cached(shape):
    return build.c_sys_for(shape)


def obj_class(t):
    from quara.objects.gate import Gate
    from quara.objects.mprocess import MProcess
    from quara.objects.povm import Povm
    from quara.objects.state import State

    return {"state": State, "povm": Povm, "gate": Gate, "mprocess": MProcess}[t]


def make_obj(cfg, x, flag=None, c_sys=None):
    c_sys = c_sys_cached(cfg["shape"]) if c_sys is None else c_sys
    kw = {"on_para_eq_constraint": cfg["flag"] if flag is None else flag}
    if cfg["type"] == "mprocess" and cfg.get("mshape"):
        kw["shape"] = tuple(int(s) for s in cfg["mshape"])
    return build.make(c_sys, cfg["type"], x, m=cfg.get("m"), **kw)


def stacked_of(ctx, obj, length, oracle):
    """to_stacked_vector() validated to be a real 1-d array of the right length (else a failure, not a harness error)."""
    s = obj.to_stacked_vector()
    ok = isinstance(s, np.ndarray) and s.ndim == 1 and s.shape[0] == length and s.dtype == np.float64
    ctx.check(ok, oracle + ":stacked_form", lambda: f"to_stacked_vector gives {type(s).__name__} shape {getattr(s, 'shape', None)}, expected ({length},)")
    return s if ok else None


def var_of(ctx, obj, length, oracle):
    v = obj.to_var()
    ok = isinstance(v, np.ndarray) and v.ndim == 1 and v.shape[0] == length and v.dtype == np.float64
    ctx.check(ok, oracle + ":var_form", lambda: f"to_var gives {type(v).__name__} shape {getattr(v, 'shape', None)}, expected ({length},)")
    return v if ok else None


def attr_of(t, obj):
    if t == "state":
        return obj.vec
    if t == "povm":
        return obj.vecs
    if t == "gate":
        return obj.hs
    return obj.hss


def check_same_kind(ctx, cfg, src, new, flag, oracle):
    """regenerated object keeps type, system, flag, outcome count (and the outcome shape of a measurement process)."""
    t = cfg["type"]
    ctx.check(type(new) is obj_class(t), oracle + ":type", lambda: f"{type(new).__name__}")
    ctx.check(new.composite_system is src.composite_system, oracle + ":c_sys")
    ctx.check(new.on_para_eq_constraint is flag or new.on_para_eq_constraint == flag, oracle + ":flag",
              lambda: f"on_para_eq_constraint={new.on_para_eq_constraint} expected {flag}")
    if t in ("povm", "mprocess"):
        ctx.equal(int(new.num_outcomes), int(cfg["m"]), oracle + ":num_outcomes")
    if t == "mprocess":
        ctx.equal(tuple(new.shape), tuple(src.shape), oracle + ":mprocess_shape")


def compare_stacked(ctx, cfg, got, expected, oracle, tol):
    """free entries with tolerance `tol_free` (0 when flag False), implied entries with the algebraic tolerance."""
    t = cfg["type"]
    d, n = dims_of(cfg)
    m = cfg.get("m")
    flag = cfg["flag"]
    if got is None:
        return
    free = free_positions(t, n, m, flag)
    imp = implied_positions(t, n, m, flag)
    ctx.close(got[free], expected[free], tol if flag else 0.0, oracle + ":free")
    if imp.size:
        ctx.close(got[imp], expected[imp], tol, oracle + ":implied")


# ============================================================================= strategies
def shapes_for(t, tier, small=False):
    if small:
        if tier == "quick":
            return {"state": ("1q", "1q", "qutrit", "2q"), "povm": ("1q", "1q", "qutrit", "2q"),
                    "gate": ("1q", "1q", "qutrit"), "mprocess": ("1q", "1q", "1q", "qutrit")}[t]
        return ("1q", "1q", "qutrit", "2q")
    if tier == "quick":
        return ("1q", "qutrit", "2q", "2x3") if t in ("state", "povm") else ("1q", "qutrit", "2q")
    return ("1q", "qutrit", "2q", "2x3")


def factorizations(m):
    out = [[m]]
    for a in range(2, m):
        if m % a == 0:
            out.append([a, m // a])
    return out


@st.composite
def cfg_st(draw, tier, small=False, types=TYPES):
    t = draw(st.sampled_from(types))
    shape = draw(st.sampled_from(shapes_for(t, tier, small)))
    cfg = {"type": t, "shape": shape, "flag": draw(st.booleans())}
    if t in ("povm", "mprocess"):
        cfg["m"] = draw(st.integers(2, 5))
        # many outcomes on a small system (every 12th POVM): variable counts around and beyond 256
        if t == "povm" and not small and gen.dim_of(shape) <= 4 and draw(st.integers(0, 11)) == 0:
            cfg["m"] = draw(st.sampled_from([16, 17, 20] if gen.dim_of(shape) == 4 else [29, 30, 64, 65, 70]))
    if t == "mprocess":
        cfg["mshape"] = draw(st.sampled_from(factorizations(cfg["m"])))
    return cfg


SPECIALS = [0.0, -0.0, 1.0, -1.0, 0.5, 1e3, -1e3, 1e-300, 5e-324, "inv_sqrt_d", "sqrt_d"]


@st.composite
def fill_st(draw, length):
    kinds = ["weyl", "weyl", "weyl", "grid"] + (["drawn", "drawn"] if length <= DRAWN_MAX else [])
    kind = draw(st.sampled_from(kinds))
    if kind == "drawn":
        vals = draw(st.lists(st.floats(-1e3, 1e3, allow_nan=False, allow_infinity=False, width=64),
                             min_size=length, max_size=length))
        return {"kind": "drawn", "values": [float(v) for v in vals]}
    spec = {"kind": kind}
    if kind == "weyl":
        spec["alpha"] = draw(st.integers(0, len(ALPHAS) - 1))
        spec["offset"] = draw(st.floats(0.0, 1.0, allow_nan=False, exclude_max=True))
        spec["scale"] = draw(gen.log_uniform(1e-3, 1e3))
    n_over = draw(st.sampled_from([0, 0, 0, 1, 2, 4]))
    spec["overrides"] = [
        [draw(st.integers(0, max(0, length - 1))),
         draw(st.one_of(st.sampled_from(SPECIALS), st.floats(-1e3, 1e3, allow_nan=False, allow_infinity=False)))]
        for _ in range(n_over)
    ]
    return spec


def _lens(cfg):
    d, n = dims_of(cfg)
    m = cfg.get("m")
    return stacked_len(cfg["type"], n, m), ref_num_var(cfg["type"], n, m, cfg["flag"])


@st.composite
def obj_var_obj_case(draw, tier):
    cfg = draw(cfg_st(tier))
    L, nv = _lens(cfg)
    case = {"cfg": cfg, "var_fill": draw(fill_st(nv))}
    # under flag=True one case in four is an object that violates the equality constraint
    case["violate"] = bool(cfg["flag"] and draw(st.integers(0, 3)) == 0)
    if case["violate"] or draw(st.booleans()):
        case["stacked_fill"] = draw(fill_st(L))
    return case


@st.composite
def var_obj_var_case(draw, tier):
    cfg = draw(cfg_st(tier))
    L, nv = _lens(cfg)
    other = dict(cfg, flag=not cfg["flag"])
    return {
        "cfg": cfg,
        "var_fill": draw(fill_st(nv)),
        "other_var_fill": draw(fill_st(_lens(other)[1])),
        "template": draw(st.sampled_from(["zeros", "arbitrary"])),
        "template_fill": draw(fill_st(L)),
    }


@st.composite
def stacked_var_case(draw, tier):
    cfg = draw(cfg_st(tier))
    L, nv = _lens(cfg)
    return {"cfg": cfg, "var_fill": draw(fill_st(nv)), "stacked_fill": draw(fill_st(L))}


@st.composite
def set_case(draw, tier):
    objs = []
    for t in TYPES:
        k = draw(st.sampled_from([0, 1, 1, 2, 3]))
        for _ in range(k):
            cfg = draw(cfg_st(tier, small=True, types=(t,)))
            L, nv = _lens(cfg)
            objs.append({"cfg": cfg, "stacked_fill": draw(fill_st(L)), "new_var_fill": draw(fill_st(nv))})
            # the SAME object listed once more (states=[z0, z0], povms=[pz, px, pz]): its own block of the total vector
            if draw(st.integers(0, 3)) == 0:
                objs.append({"cfg": cfg, "stacked_fill": objs[-1]["stacked_fill"], "new_var_fill": draw(fill_st(nv)),
                             "dup": True})
    return {"objects": objs, "share_c_sys": draw(st.booleans())}


@st.composite
def set_history_case(draw, tier):
    base = draw(set_case(tier))
    steps = []
    for _ in range(draw(st.integers(1, 3))):
        t = draw(st.sampled_from(TYPES))
        k = draw(st.sampled_from([0, 1, 1, 2, 3]))
        objs = []
        for _ in range(k):
            cfg = draw(cfg_st(tier, small=True, types=(t,)))
            L, nv = _lens(cfg)
            objs.append({"cfg": cfg, "stacked_fill": draw(fill_st(L)), "new_var_fill": draw(fill_st(nv))})
        steps.append({"mode": t, "objects": objs, "via": draw(st.sampled_from(["setter", "setter", "inplace"]))})
    base["steps"] = steps
    return base


# ============================================================================= facet 1: object -> var -> object
def check_obj_var_obj(case, ctx):
    cfg = case["cfg"]
    t, flag, m = cfg["type"], cfg["flag"], cfg.get("m")
    d, n = dims_of(cfg)
    L, nv = _lens(cfg)
    free = free_positions(t, n, m, flag)
    violate = bool(case.get("violate"))
    if "stacked_fill" in case and (violate or not flag):
        x = fill_values(case["stacked_fill"], L, d)
    else:
        x = ref_var_to_stacked(t, d, m, flag, fill_values(case["var_fill"], nv, d))
    ctx.label(t, cfg["shape"], f"flag:{flag}", f"m:{m}", "constraint:" + ("violated" if violate else ("n/a" if not flag else "exact")),
              "entries:" + ("distinct" if all_distinct(x[free]) else "repeated"))
    if t == "mprocess":
        ctx.label("mshape:" + "x".join(str(s) for s in cfg.get("mshape", [m])))
    ctx.nontrivial(flag or (m or 0) >= 3)
    tol = tol_for(d, x)

    q = make_obj(cfg, x)
    # the stacked form is the constructor data (exact, no arithmetic)
    s = stacked_of(ctx, q, L, "obj_stacked")
    if s is not None:
        ctx.close(s, x, 0.0, "obj_stacked:value")
    var = var_of(ctx, q, nv, "to_var")
    if var is None:
        return
    # the variable vector is the stacked vector without the implied entries
    ctx.close(var, x[free], 0.0, "to_var:value")
    # the vector handed out is the caller's: editing it in place (an optimiser's update) does not reach the object, and the
    # conversion asked again describes the object as it is now - also after the object was zeroed in place
    handed = q.to_var()
    stored = []
    for nm in ("_vec", "_hs", "_vecs", "_hss"):
        a_ = getattr(q, nm, None)
        if isinstance(a_, np.ndarray):
            stored.append(a_)
        elif isinstance(a_, (list, tuple)):
            stored.extend(x_ for x_ in a_ if isinstance(x_, np.ndarray))
    if isinstance(handed, np.ndarray) and any(np.shares_memory(handed, a) for a in stored):
        # (State.to_var() of the unconstrained parametrisation IS the stored vector, like the accessor .vec: writing into
        # it is writing into the object through its accessor - the library's convention, nothing is asserted about it)
        ctx.label("to_var:hands-out-the-stored-array")
    elif isinstance(handed, np.ndarray) and handed.size and handed.flags.writeable:
        handed += 1.0
        handed *= -3.0
        again = var_of(ctx, q, nv, "to_var:again")
        if again is not None:
            ctx.close(again, x[free], 0.0, "to_var:unchanged_after_caller_edited_the_vector_handed_out")
        s_again = stacked_of(ctx, q, L, "obj_stacked:again")
        if s_again is not None:
            ctx.close(s_again, x, 0.0, "obj_stacked:unchanged_after_caller_edited_the_var_handed_out")
    qz = make_obj(cfg, x)
    qz.to_var()
    try:
        qz.set_zero()
        zeroed = True
    except Exception:
        zeroed = False
    if zeroed:
        sz = stacked_of(ctx, qz, L, "set_zero:stacked")
        vz = var_of(ctx, qz, nv, "set_zero:to_var")
        if sz is not None and vz is not None:
            ctx.close(sz, np.zeros(L), 0.0, "set_zero:stacked_is_zero")
            ctx.close(vz, np.zeros(nv), 0.0, "set_zero:to_var_describes_the_zeroed_object")
    q2 = q.generate_from_var(var)
    check_same_kind(ctx, cfg, q, q2, flag, "regenerated")
    s2 = stacked_of(ctx, q2, L, "regenerated")
    if violate:
        # only the variable half survives; the regenerated object is the reference completion of var
        compare_stacked(ctx, cfg, s2, ref_var_to_stacked(t, d, m, flag, x[free]), "regenerated_from_violating", tol)
        v2 = var_of(ctx, q2, nv, "regenerated_to_var")
        if v2 is not None:
            ctx.close(v2, x[free], tol, "violating_var_idempotent")
        return
    compare_stacked(ctx, cfg, s2, x, "obj_var_obj", tol)
    # the named attributes vec / vecs / hs / hss
    want = reshape_like_object(t, n, m, x)
    got = attr_of(t, q2)
    if flag:
        ctx.close(got, want, tol, "obj_var_obj:attr")
    else:
        ctx.close(got, want, 0.0, "obj_var_obj:attr")
    # a second pass is a fixed point
    v2 = var_of(ctx, q2, nv, "regenerated_to_var")
    if v2 is not None:
        ctx.close(v2, var, 0.0, "var_fixed_point")
    # copy() is the same object
    q3 = q.copy()
    s3 = stacked_of(ctx, q3, L, "copy")
    if s3 is not None:
        ctx.close(s3, x, 0.0, "copy:value")
    ctx.check(q3.on_para_eq_constraint == flag, "copy:flag")


# ============================================================================= facet 2: var -> object -> var, counts
def _tester_state(c_sys):
    from quara.objects.state import State

    d = c_sys.dim
    v = np.zeros(d * d)
    v[0] = 1.0 / math.sqrt(d)
    return State(c_sys, v)


def _tester_povm(c_sys):
    from quara.objects.povm import Povm

    d = c_sys.dim
    e = np.zeros(d * d)
    e[0] = math.sqrt(d) / 2
    return Povm(c_sys, [e.copy(), e.copy()])


@functools.lru_cache(maxsize=None)
def tomography_for(t, shape, m, flag):
    from quara.protocol.qtomography.standard.standard_povmt import StandardPovmt
    from quara.protocol.qtomography.standard.standard_qmpt import StandardQmpt
    from quara.protocol.qtomography.standard.standard_qpt import StandardQpt
    from quara.protocol.qtomography.standard.standard_qst import StandardQst

    c_sys = c_sys_cached(shape)
    if t == "state":
        return StandardQst([_tester_povm(c_sys)], on_para_eq_constraint=flag)
    if t == "povm":
        return StandardPovmt([_tester_state(c_sys)], m, on_para_eq_constraint=flag)
    if t == "gate":
        return StandardQpt([_tester_state(c_sys)], [_tester_povm(c_sys)], on_para_eq_constraint=flag)
    return StandardQmpt([_tester_state(c_sys)], [_tester_povm(c_sys)], m, on_para_eq_constraint=flag)


def _module_convert(t):
    if t == "state":
        from quara.objects.state import convert_var_to_state

        return convert_var_to_state
    if t == "povm":
        from quara.objects.povm import convert_var_to_povm

        return convert_var_to_povm
    if t == "gate":
        from quara.objects.gate import convert_var_to_gate

        return convert_var_to_gate
    return None


def check_var_obj_var(case, ctx):
    from quara.objects.qoperations import SetQOperations

    cfg = case["cfg"]
    t, flag, m = cfg["type"], cfg["flag"], cfg.get("m")
    d, n = dims_of(cfg)
    L, nv = _lens(cfg)
    var = fill_values(case["var_fill"], nv, d)
    expected = ref_var_to_stacked(t, d, m, flag, var)
    ctx.label(t, cfg["shape"], f"flag:{flag}", f"m:{m}", "template:" + case["template"],
              "entries:" + ("distinct" if all_distinct(var) else "repeated"), "fill:" + case["var_fill"]["kind"])
    ctx.nontrivial(flag or (m or 0) >= 3)
    tol = tol_for(d, var)
    tol_var = tol if flag else 0.0

    x_t = np.zeros(L) if case["template"] == "zeros" else fill_values(case["template_fill"], L, d)
    tmpl = make_obj(cfg, x_t)
    c_sys = tmpl.composite_system

    def roundtrip(obj, name, want_flag=flag, want_var=var, want_stacked=expected, cfg_=cfg):
        check_same_kind(ctx, cfg_, tmpl, obj, want_flag, name)
        L_, nv_ = _lens(cfg_)
        v = var_of(ctx, obj, nv_, name)
        if v is not None:
            ctx.close(v, want_var, tol if want_flag else 0.0, name + ":var")
        s = stacked_of(ctx, obj, L_, name)
        compare_stacked(ctx, cfg_, s, want_stacked, name + ":stacked", tol)

    # (a) the template's generate_from_var (what the estimators call)
    roundtrip(tmpl.generate_from_var(var.copy()), "generate_from_var")
    # (b) the module-level converter
    conv = _module_convert(t)
    if conv is not None:
        roundtrip(conv(c_sys, var.copy(), is_physicality_required=False, on_para_eq_constraint=flag), "convert_var_to_obj")
    # (c) through the matching tomography class
    tomo = tomography_for(t, cfg["shape"], m, flag)
    obj_t = tomo.convert_var_to_qoperation(var.copy())
    cfg_t = dict(cfg)
    cfg_t.pop("mshape", None)
    ctx.check(type(obj_t) is obj_class(t), "tomography:type")
    v_t = var_of(ctx, obj_t, nv, "tomography")
    if v_t is not None:
        ctx.close(v_t, var, tol_var, "tomography:var")
    compare_stacked(ctx, cfg_t, stacked_of(ctx, obj_t, L, "tomography"), expected, "tomography:stacked", tol)
    # (d) the flag override of generate_from_var: the other parametrisation from the same template
    other = dict(cfg, flag=not flag)
    nv_o = _lens(other)[1]
    var_o = fill_values(case["other_var_fill"], nv_o, d)
    obj_o = tmpl.generate_from_var(var_o.copy(), on_para_eq_constraint=not flag)
    roundtrip(obj_o, "generate_from_var_other_flag", want_flag=not flag, want_var=var_o,
              want_stacked=ref_var_to_stacked(t, d, m, not flag, var_o), cfg_=other)

    # ---- counts: len(var) = num_variables everywhere it is reported
    ctx.equal(int(tomo.num_variables), nv, "num_variables:tomography", f"{type(tomo).__name__}")
    ctx.equal(int(tomo.set_qoperations.size_var_total()), nv, "num_variables:tomography_set")
    ctx.equal(int(len(tomo.generate_empty_estimation_obj_with_setting_info().to_var())), nv, "num_variables:empty_estimation_obj")
    mat_a = tomo.calc_matA()
    ctx.check(getattr(mat_a, "ndim", 0) == 2 and mat_a.shape[1] == nv, "num_variables:matA_columns",
              lambda: f"matA shape {getattr(mat_a, 'shape', None)} but {nv} variables")
    key = {"state": "states", "povm": "povms", "gate": "gates", "mprocess": "mprocesses"}[t]
    sq = SetQOperations(**{key: [tmpl]})
    size_all = {"state": sq.size_var_states, "povm": sq.size_var_povms, "gate": sq.size_var_gates, "mprocess": sq.size_var_mprocesses}[t]
    size_one = {"state": sq.size_var_state, "povm": sq.size_var_povm, "gate": sq.size_var_gate, "mprocess": sq.size_var_mprocess}[t]
    ctx.equal(int(size_all()), nv, "num_variables:size_var_type")
    ctx.equal(int(size_one(0)), nv, "num_variables:size_var_item")
    ctx.equal(int(sq.size_var_total()), nv, "num_variables:size_var_total")


# ============================================================================= facet 3: stacked <-> var
def check_stacked_var(case, ctx):
    cfg = case["cfg"]
    t, flag, m = cfg["type"], cfg["flag"], cfg.get("m")
    d, n = dims_of(cfg)
    L, nv = _lens(cfg)
    cls = obj_class(t)
    c_sys = c_sys_cached(cfg["shape"])
    var = fill_values(case["var_fill"], nv, d)
    x_arb = fill_values(case["stacked_fill"], L, d)
    free = free_positions(t, n, m, flag)
    tol = tol_for(d, var, x_arb)
    tol_free = tol if flag else 0.0
    ctx.label(t, cfg["shape"], f"flag:{flag}", f"m:{m}", "entries:" + ("distinct" if all_distinct(var) else "repeated"))
    ctx.nontrivial(flag or (m or 0) >= 3)

    def v2s(v):
        return cls.convert_var_to_stacked_vector(c_sys, v, on_para_eq_constraint=flag)

    def s2v(s):
        return cls.convert_stacked_vector_to_var(c_sys, s, on_para_eq_constraint=flag)

    def form(a, length, oracle):
        ok = isinstance(a, np.ndarray) and a.ndim == 1 and a.shape[0] == length
        ctx.check(ok, oracle, lambda: f"{type(a).__name__} shape {getattr(a, 'shape', None)} expected ({length},)")
        return ok

    # var -> stacked agrees with the reference completion (implied entries) ...
    s = v2s(var.copy())
    expected = ref_var_to_stacked(t, d, m, flag, var)
    if form(s, L, "var_to_stacked:form"):
        compare_stacked(ctx, cfg, np.asarray(s, dtype=float), expected, "var_to_stacked", tol)
        # ... and with the object generate_from_var builds (facet 1)
        q = make_obj(cfg, np.zeros(L)).generate_from_var(var.copy())
        sq = stacked_of(ctx, q, L, "var_to_stacked_vs_object")
        compare_stacked(ctx, cfg, np.asarray(s, dtype=float), sq, "var_to_stacked_vs_object", tol)
        # stacked -> var undoes it
        back = s2v(s)
        if form(back, nv, "var_stacked_var:form"):
            ctx.close(back, var, tol_free, "var_stacked_var")
    # stacked -> var on an arbitrary stacked vector: the free entries, = to_var of the object with that data
    v = s2v(x_arb.copy())
    if form(v, nv, "stacked_to_var:form"):
        ctx.close(v, x_arb[free], tol_free, "stacked_to_var")
        vq = var_of(ctx, make_obj(cfg, x_arb), nv, "stacked_to_var_vs_object")
        if vq is not None:
            ctx.close(v, vq, tol_free, "stacked_to_var_vs_object")
    # stacked -> var -> stacked = id on vectors that satisfy the equality constraint
    x_ok = expected if flag else x_arb
    s_back = v2s(s2v(x_ok.copy()))
    if form(s_back, L, "stacked_var_stacked:form"):
        compare_stacked(ctx, cfg, np.asarray(s_back, dtype=float), x_ok, "stacked_var_stacked", tol)
    # inputs are not modified by the conversions
    v_in, x_in = var.copy(), x_arb.copy()
    v2s(v_in)
    s2v(x_in)
    ctx.close(v_in, var, 0.0, "conversion_keeps_input:var")
    ctx.close(x_in, x_arb, 0.0, "conversion_keeps_input:stacked")

    # the module-level converters between the variable vector and the native form (vec / list of vecs / HS / list of HS):
    # same correspondence, and the caller's arguments (in particular a list it keeps using) are left as they were
    to_nat, to_var = _native_convert(t)

    def native(x):
        a = reshape_like_object(t, n, m, np.array(x, dtype=float))
        return [np.array(e, copy=True) for e in a] if t in ("povm", "mprocess") else np.array(a, copy=True)

    def flat(a):
        return np.concatenate([np.asarray(e, dtype=float).reshape(-1) for e in a]) if isinstance(a, (list, tuple)) else np.asarray(a, dtype=float).reshape(-1)

    for tag, x_src in (("on_constraint", x_ok), ("arbitrary", x_arb)):
        nat = native(x_src)
        keep = native(x_src)
        v1 = to_var(c_sys, nat, on_para_eq_constraint=flag)
        same = (len(nat) == len(keep) and all(np.array_equal(a, b) for a, b in zip(nat, keep))) if isinstance(keep, list) else np.array_equal(nat, keep)
        ctx.check(same, "native_to_var_keeps_input", lambda: f"{t} flag={flag} {tag}: the caller's native data changed (len {len(nat)} vs {len(keep)})")
        if form(v1, nv, "native_to_var:form"):
            ctx.close(v1, np.asarray(x_src, dtype=float)[free], tol_free, "native_to_var")
            v2 = to_var(c_sys, nat, on_para_eq_constraint=flag)
            ctx.check(isinstance(v2, np.ndarray) and v2.shape == v1.shape and np.array_equal(v1, v2), "native_to_var_repeatable",
                      lambda: f"{t} flag={flag} {tag}: second conversion of the same data gives shape {getattr(v2, 'shape', None)}")
    v_keep = var.copy()
    back_nat = to_nat(c_sys, v_keep, on_para_eq_constraint=flag)
    ctx.close(v_keep, var, 0.0, "var_to_native_keeps_input")
    fb = flat(back_nat)
    if ctx.check(fb.shape == (L,), "var_to_native:form", lambda: f"{fb.shape} expected ({L},)"):
        compare_stacked(ctx, cfg, fb, expected, "var_to_native", tol)


# ============================================================================= facet 4: index maps (exhaustive)
def index_items(tier):
    shapes = ("1q", "qutrit", "2q") if tier == "quick" else ("1q", "qutrit", "2q", "2x3")
    items = []
    for shape in shapes:
        for flag in (False, True):
            items.append({"cfg": {"type": "state", "shape": shape, "flag": flag}})
            items.append({"cfg": {"type": "gate", "shape": shape, "flag": flag}})
            for m in (2, 3, 4, 5):
                items.append({"cfg": {"type": "povm", "shape": shape, "flag": flag, "m": m}})
                items.append({"cfg": {"type": "mprocess", "shape": shape, "flag": flag, "m": m}})
    # the flag handed to the module-level index converters as numpy bool / int as well (the values decide, not the type):
    # cheap shapes only
    for it in list(items):
        if it["cfg"]["shape"] in ("1q", "qutrit"):
            for rep in ("np_bool", "int"):
                items.append({"cfg": dict(it["cfg"]), "flag_rep": rep})
    # expensive configurations first so that the stride sharding balances
    items.sort(key=lambda it: -_lens(it["cfg"])[0])
    return items


def _index_fns(t, c_sys, q, flag):
    """(var_index -> object index, object index -> var_index) as quara exposes them."""
    if t == "state":
        from quara.objects.state import convert_state_index_to_var_index, convert_var_index_to_state_index

        return (lambda i: convert_var_index_to_state_index(i, flag), lambda o: convert_state_index_to_var_index(o, flag))
    if t == "povm":
        from quara.objects.povm import convert_povm_index_to_var_index, convert_var_index_to_povm_index

        vecs = list(q.vecs)
        return (lambda i: convert_var_index_to_povm_index(c_sys, vecs, i, flag),
                lambda o: convert_povm_index_to_var_index(c_sys, vecs, o, flag))
    if t == "gate":
        from quara.objects.gate import convert_gate_index_to_var_index, convert_var_index_to_gate_index

        return (lambda i: convert_var_index_to_gate_index(c_sys, i, flag), lambda o: convert_gate_index_to_var_index(c_sys, o, flag))
    from quara.objects.mprocess import convert_mprocess_index_to_var_index, convert_var_index_to_mprocess_index

    hss = q.hss
    return (lambda i: convert_var_index_to_mprocess_index(c_sys, hss, i, flag),
            lambda o: convert_mprocess_index_to_var_index(c_sys, o, hss, flag))


def _is_int(v):
    return isinstance(v, (int, np.integer)) and not isinstance(v, bool)


def _norm_index(t, o):
    """object index as plain ints, or None when it does not have the documented form."""
    if t == "state":
        return int(o) if _is_int(o) else None
    k = 2 if t in ("povm", "gate") else 3
    if isinstance(o, tuple) and len(o) == k and all(_is_int(v) for v in o):
        return tuple(int(v) for v in o)
    return None


def _in_range(t, o, n, m):
    if t == "state":
        return 0 <= o < n
    if t == "povm":
        return 0 <= o[0] < m and 0 <= o[1] < n
    if t == "gate":
        return 0 <= o[0] < n and 0 <= o[1] < n
    return 0 <= o[0] < m and 0 <= o[1] < n and 0 <= o[2] < n


def _flat(t, o, n):
    if t == "state":
        return o
    if t in ("povm", "gate"):
        return o[0] * n + o[1]
    return o[0] * n * n + o[1] * n + o[2]


def _entry(t, obj, o):
    """the object entry an object index names, read through the public attributes."""
    if t == "state":
        return float(obj.vec[o])
    if t == "povm":
        return float(obj.vecs[o[0]][o[1]])
    if t == "gate":
        return float(obj.hs[o[0]][o[1]])
    return float(obj.hss[o[0]][o[1]][o[2]])


def check_index_maps(case, ctx):
    cfg = case["cfg"]
    t, flag, m = cfg["type"], cfg["flag"], cfg.get("m")
    d, n = dims_of(cfg)
    L, nv = _lens(cfg)
    free = free_positions(t, n, m, flag)
    imp = implied_positions(t, n, m, flag)
    ctx.label(t, cfg["shape"], f"flag:{flag}", f"m:{m}")
    ctx.nontrivial(flag or (m or 0) >= 3)
    c_sys = c_sys_cached(cfg["shape"])
    var0 = (np.arange(nv, dtype=float) + 1.0) / 8.0  # distinct, exactly representable, +1 is exact
    tmpl = make_obj(cfg, np.zeros(L))
    base = tmpl.generate_from_var(var0.copy())
    s0 = stacked_of(ctx, base, L, "base")
    v0 = var_of(ctx, base, nv, "base")
    if s0 is None or v0 is None:
        return
    ctx.close(v0, var0, 0.0, "base:var")
    tol = tol_for(d, var0)
    rep = case.get("flag_rep", "py")
    ctx.label("flag_rep:" + rep)
    flag_arg = np.bool_(flag) if rep == "np_bool" else int(flag) if rep == "int" else flag
    to_obj, to_var = _index_fns(t, c_sys, base, flag_arg)
    seen = set()
    for i in range(nv):
        o_raw = to_obj(i)
        o = _norm_index(t, o_raw)
        if not ctx.check(o is not None, "object_index:form", lambda: f"var index {i} -> {o_raw!r}"):
            continue
        if not ctx.check(_in_range(t, o, n, m), "object_index:in_range", lambda: f"var index {i} -> {o} (n={n}, m={m})"):
            continue
        p = _flat(t, o, n)
        # onto the free entries, each once, in variable order
        ctx.check(p not in seen, "object_index:injective", lambda: f"var index {i} -> {o} already used")
        seen.add(p)
        ctx.check(p == int(free[i]), "object_index:reference_position",
                  lambda: f"var index {i} -> {o} (stacked {p}); the reference parametrisation stores var[{i}] at stacked {int(free[i])} = {ref_object_index(t, n, free[i])}")
        back = to_var(o_raw)
        ctx.check(_is_int(back) and int(back) == i, "var_index_of_object_index", lambda: f"{i} -> {o} -> {back!r}")
        # the entry holds the variable
        ctx.check(_entry(t, base, o) == var0[i], "entry_holds_variable",
                  lambda: f"entry {o} = {_entry(t, base, o)!r} but var[{i}] = {var0[i]!r}")
        # derivative of the (affine) map var -> object, exact by construction of var0
        var1 = var0.copy()
        var1[i] += 1.0
        s1 = stacked_of(ctx, tmpl.generate_from_var(var1), L, "shifted")
        if s1 is None:
            continue
        deriv = s1 - s0
        onehot = np.zeros(L)
        onehot[int(free[i])] = 1.0
        ctx.close(deriv[free], onehot[free], 0.0, "derivative_free_entries", f"var index {i}")
        g_obj = base.calc_gradient(i)
        ctx.check(type(g_obj) is obj_class(t), "gradient:type")
        g = stacked_of(ctx, g_obj, L, "gradient")
        if g is None:
            continue
        ctx.close(g[free], deriv[free], 0.0, "gradient_equals_derivative", f"var index {i}")
        ctx.close(g[free], onehot[free], 0.0, "gradient_one_hot", f"var index {i}")
        ctx.check(_entry(t, g_obj, o) == 1.0, "gradient_at_object_index", lambda: f"var index {i}: gradient entry {o} is {_entry(t, g_obj, o)!r}")
        if imp.size:
            gi, di = g[imp], deriv[imp]
            ok = bool(np.all(gi == 0.0)) or bool(np.max(np.abs(gi - di)) <= tol)
            ctx.check(ok, "gradient_implied_entries", lambda: f"var index {i}: gradient on implied entries {gi.tolist()} is neither 0 nor the derivative {di.tolist()}")
    ctx.check(len(seen) == nv and seen == set(int(p) for p in free), "object_index:onto_free_entries",
              lambda: f"{len(seen)} distinct object entries for {nv} variables")
    # the inverse map on every free object entry (enumerated from the object side)
    for j, p in enumerate(free):
        o = ref_object_index(t, n, p)
        back = to_var(o)
        ctx.check(_is_int(back) and int(back) == j, "var_index_of_free_entry", lambda: f"object entry {o} -> {back!r}, expected {j}")


# ============================================================================= facet 5: SetQOperations
MODE_KEY = {"state": "states", "gate": "gates", "povm": "povms", "mprocess": "mprocesses"}


class _Tagged:
    """ctx proxy that appends a tag to every oracle id (so evidence and findings tell the phases of a history apart)."""

    def __init__(self, ctx, tag):
        self._c, self._t = ctx, tag

    def check(self, cond, oracle, *a, **k):
        return self._c.check(cond, oracle + self._t, *a, **k)

    def equal(self, a_, b_, oracle, *a, **k):
        return self._c.equal(a_, b_, oracle + self._t, *a, **k)

    def close(self, a_, b_, tol, oracle, *a, **k):
        return self._c.close(a_, b_, tol, oracle + self._t, *a, **k)

    def raises(self, exc, fn, oracle, *a, **k):
        return self._c.raises(exc, fn, oracle + self._t, *a, **k)

    def __getattr__(self, name):
        return getattr(self._c, name)


def _build_groups(specs, share, shared=None):
    shared = {} if shared is None else shared
    groups = {t: [] for t in TYPES}  # mode -> list of (cfg, x, object, spec)
    for sp in specs:
        cfg = sp["cfg"]
        d, n = dims_of(cfg)
        L, nv = _lens(cfg)
        x = fill_values(sp["stacked_fill"], L, d)
        if share:
            c_sys = shared.setdefault(cfg["shape"], c_sys_cached(cfg["shape"]))
        else:
            c_sys = build.c_sys_for(cfg["shape"])
        if sp.get("dup") and groups[cfg["type"]]:
            groups[cfg["type"]].append((cfg, x, groups[cfg["type"]][-1][2], sp))  # the very same instance again
        else:
            groups[cfg["type"]].append((cfg, x, make_obj(cfg, x, c_sys=c_sys), sp))
    return groups


def check_set_qoperations(case, ctx):
    from quara.objects.qoperations import SetQOperations

    groups = _build_groups(case["objects"], case.get("share_c_sys"))
    sq = SetQOperations(**{MODE_KEY[t]: [g[2] for g in groups[t]] for t in TYPES})
    _verify_set(ctx, sq, groups)


def check_set_history(case, ctx):
    """history: one SetQOperations object is queried, then changed through its list setters (or by in-place edits of the
    lists it returns), then queried again - every index map must describe the CURRENT contents."""
    from quara.objects.qoperations import SetQOperations

    shared = {}
    groups = _build_groups(case["objects"], case.get("share_c_sys"), shared)
    sq = SetQOperations(**{MODE_KEY[t]: [g[2] for g in groups[t]] for t in TYPES})
    ctx._history = True
    _verify_set(ctx, sq, groups)
    changed = False
    for k, stp in enumerate(case["steps"]):
        t = stp["mode"]
        new_groups = _build_groups(stp["objects"], case.get("share_c_sys"), shared)
        new_list = new_groups[t]
        if stp["via"] == "inplace" and len(new_list) == len(groups[t]) and len(new_list) > 0:
            lst = getattr(sq, MODE_KEY[t])
            for j, g in enumerate(new_list):
                lst[j] = g[2]
            ctx.label("mutation:inplace")
        else:
            setattr(sq, MODE_KEY[t], [g[2] for g in new_list])
            ctx.label("mutation:setter")
        old_sizes = [g[1][free_positions(t, dims_of(g[0])[1], g[0].get("m"), g[0]["flag"])].size for g in groups[t]]
        new_sizes = [g[1][free_positions(t, dims_of(g[0])[1], g[0].get("m"), g[0]["flag"])].size for g in new_list]
        if old_sizes != new_sizes:
            changed = True
            ctx.label("mutation:block-size-changed")
        groups[t] = new_list
        _verify_set(ctx, sq, groups, tag=f":after_mutation")
    ctx.nontrivial(changed)


def _verify_set(ctx, sq, groups, tag=""):
    from quara.objects.qoperations import SetQOperations

    specs = [g[3] for t in TYPES for g in groups[t]]
    types_present = [t for t in TYPES if groups[t]]
    if tag:
        ctx = _Tagged(ctx, tag)
    ctx.label(f"types:{len(types_present)}", f"objects:{len(specs)}",
              "flags:" + ("mixed" if len({sp['cfg']['flag'] for sp in specs}) == 2 else "uniform"),
              "dims:" + ("mixed" if len({sp['cfg']['shape'] for sp in specs}) >= 2 else "uniform"))
    for t in types_present:
        ctx.label("has:" + t)
    if any(sp.get("dup") for sp in specs):
        ctx.label("same-object-listed-twice")
    if not tag and not getattr(ctx, "_history", False):
        ctx.nontrivial(len(types_present) >= 2)

    # reference: the set of (mode, object, local index) and the value each one names
    ref = {}
    per_type = {t: 0 for t in TYPES}
    for t in TYPES:
        for k, (cfg, x, _, _) in enumerate(groups[t]):
            d, n = dims_of(cfg)
            fv = x[free_positions(t, n, cfg.get("m"), cfg["flag"])]
            per_type[t] += fv.size
            for j, val in enumerate(fv):
                ref[(t, k, j)] = float(val)
    total = len(ref)
    ctx.equal(int(sq.size_var_total()), total, "size_var_total")
    ctx.equal(int(sq.size_var_states()), per_type["state"], "size_var_states")
    ctx.equal(int(sq.size_var_gates()), per_type["gate"], "size_var_gates")
    ctx.equal(int(sq.size_var_povms()), per_type["povm"], "size_var_povms")
    ctx.equal(int(sq.size_var_mprocesses()), per_type["mprocess"], "size_var_mprocesses")
    for t in TYPES:
        ctx.equal(int(sq.num_qoperations(t)), len(groups[t]), "num_qoperations")
    vt = sq.var_total()
    if not ctx.check(isinstance(vt, np.ndarray) and vt.ndim == 1 and vt.shape[0] == total, "var_total:form",
                     lambda: f"var_total shape {getattr(vt, 'shape', None)} expected ({total},)"):
        return

    # every total index (exhaustive): bijection onto the reference set, pointing at the value
    key_of = {}
    seen = set()
    for k in range(total):
        info = sq.local_info_from_index_var_total(k)
        okf = isinstance(info, dict) and info.get("mode") in TYPES and _is_int(info.get("index_operations")) and _is_int(info.get("index_var_local"))
        if not ctx.check(okf, "local_info:form", lambda: f"{k} -> {info!r}"):
            continue
        key = (info["mode"], int(info["index_operations"]), int(info["index_var_local"]))
        if not ctx.check(key in ref, "local_info:in_range", lambda: f"total index {k} -> {key}, not a variable of this set"):
            continue
        ctx.check(key not in seen, "local_info:injective", lambda: f"total index {k} -> {key} already used")
        seen.add(key)
        key_of[k] = key
        back = sq.index_var_total_from_local_info(*key)
        ctx.check(_is_int(back) and int(back) == k, "total_from_local_of_local_from_total", lambda: f"{k} -> {key} -> {back!r}")
        ctx.check(float(vt[k]) == ref[key], "var_total_points_at_value",
                  lambda: f"var_total[{k}] = {float(vt[k])!r} but {key} holds {ref[key]!r}")
    ctx.check(len(seen) == total, "local_info:onto", lambda: f"{len(seen)} of {total} local positions reached")
    # the other composition, enumerated from the local side
    for key in ref:
        k = sq.index_var_total_from_local_info(*key)
        if not ctx.check(_is_int(k) and 0 <= int(k) < total, "total_from_local:in_range", lambda: f"{key} -> {k!r}"):
            continue
        info = sq.local_info_from_index_var_total(int(k))
        ctx.check(isinstance(info, dict) and (info.get("mode"), info.get("index_operations"), info.get("index_var_local")) == key,
                  "local_from_total_of_total_from_local", lambda: f"{key} -> {k} -> {info!r}")

    # out of range / wrong length: the documented rejections
    ctx.raises((IndexError,), lambda: sq.local_info_from_index_var_total(total), "index_out_of_range:upper")
    ctx.raises((IndexError,), lambda: sq.local_info_from_index_var_total(-1), "index_out_of_range:negative")
    ctx.raises((ValueError,), lambda: sq.set_qoperations_from_var_total(np.zeros(total + 1)), "wrong_length:longer")
    if total > 0:
        ctx.raises((ValueError,), lambda: sq.set_qoperations_from_var_total(np.zeros(total - 1)), "wrong_length:shorter")
    ctx.raises((ValueError,), lambda: sq.index_var_total_from_local_info("channel", 0, 0), "unsupported_mode")

    # set_qoperations_from_var_total(var_total()) reproduces every object
    def compare_set(new, want_stacked, oracle):
        ctx.check(isinstance(new, SetQOperations), oracle + ":type")
        for t in TYPES:
            lst = new.qoperations(t)
            if not ctx.check(len(lst) == len(groups[t]), oracle + ":count", lambda: f"{t}: {len(lst)} != {len(groups[t])}"):
                continue
            for k, (cfg, x, q, sp) in enumerate(groups[t]):
                d, n = dims_of(cfg)
                L, nv = _lens(cfg)
                want = want_stacked(t, k)
                check_same_kind(ctx, cfg, q, lst[k], cfg["flag"], oracle)
                compare_stacked(ctx, cfg, stacked_of(ctx, lst[k], L, oracle), want, oracle, tol_for(d, want))

    def same(t, k):
        cfg, x, _, _ = groups[t][k]
        d, n = dims_of(cfg)
        return ref_var_to_stacked(t, d, cfg.get("m"), cfg["flag"], x[free_positions(t, n, cfg.get("m"), cfg["flag"])])

    compare_set(sq.set_qoperations_from_var_total(vt.copy()), same, "reproduce")

    # a fresh var_total: each object receives exactly the entries its total indices name
    if len(key_of) == total:
        new_local = {}
        for t in TYPES:
            for k, (cfg, x, _, sp) in enumerate(groups[t]):
                d, n = dims_of(cfg)
                new_local[(t, k)] = fill_values(sp["new_var_fill"], _lens(cfg)[1], d)
        new_vt = np.array([new_local[(key[0], key[1])][key[2]] for key in (key_of[k] for k in range(total))], dtype=float)

        def fresh(t, k):
            cfg = groups[t][k][0]
            d, n = dims_of(cfg)
            return ref_var_to_stacked(t, d, cfg.get("m"), cfg["flag"], new_local[(t, k)])

        new = sq.set_qoperations_from_var_total(new_vt.copy())
        compare_set(new, fresh, "fresh_var_total")
        vt2 = new.var_total()
        if ctx.check(isinstance(vt2, np.ndarray) and vt2.shape == new_vt.shape, "fresh_var_total:var_total_form"):
            flags_any = any(sp["cfg"]["flag"] for sp in specs)
            d_max = max([dims_of(sp["cfg"])[0] for sp in specs] + [2])
            ctx.close(vt2, new_vt, tol_for(d_max, new_vt) if flags_any else 0.0, "fresh_var_total:var_total_roundtrip")
        # the original set is untouched
        ctx.close(sq.var_total(), vt, 0.0, "original_set_unchanged")


# ============================================================================= facets
_NT = "m >= 3 or on_para_eq_constraint=True"
FACETS = {
    "set_qoperations_history": {
        "strategy": set_history_case,
        "check": check_set_history,
        "budget": {"quick": {"examples": 320, "shards": 8}, "thorough": {"examples": 6000, "shards": 16}},
        "nontrivial": "a mutation (setter or in-place list edit) that changes the size of a type's variable block, followed by index queries on the same set object",
        "min_nontrivial": 40,
    },
    "obj_var_obj": {
        "strategy": obj_var_obj_case,
        "check": check_obj_var_obj,
        "budget": {"quick": {"examples": 1600, "shards": 4}, "thorough": {"examples": 16000, "shards": 16}},
        "nontrivial": _NT,
        "min_nontrivial": 100,
    },
    "var_obj_var": {
        "strategy": var_obj_var_case,
        "check": check_var_obj_var,
        "budget": {"quick": {"examples": 1600, "shards": 4}, "thorough": {"examples": 16000, "shards": 16}},
        "nontrivial": _NT,
        "min_nontrivial": 100,
    },
    "stacked_var": {
        "strategy": stacked_var_case,
        "check": check_stacked_var,
        "budget": {"quick": {"examples": 1200, "shards": 4}, "thorough": {"examples": 12000, "shards": 16}},
        "nontrivial": _NT,
        "min_nontrivial": 100,
    },
    "index_maps": {
        "kind": "enumeration",
        "items": index_items,
        "check": check_index_maps,
        "budget": {"quick": {"examples": 0, "shards": 8}, "thorough": {"examples": 0, "shards": 16}},
        "nontrivial": _NT + " (every variable index of the configuration is enumerated)",
        "min_nontrivial": 40,
    },
    "set_qoperations": {
        "strategy": set_case,
        "check": check_set_qoperations,
        "budget": {"quick": {"examples": 640, "shards": 8}, "thorough": {"examples": 6000, "shards": 16}},
        "nontrivial": "operation set holding >= 2 object types (every total index of the set is enumerated)",
        "min_nontrivial": 50,
    },
}
