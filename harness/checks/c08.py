"""C08 - Tomography forward model equals the circuit's Born-rule statistics."""
import itertools
import math

import numpy as np
from hypothesis import strategies as st

from harness import reps, build, gen
from harness import refmodel as rm

RULE = (
    "A fifth of the configurations live on a hand-rotated orthonormal Hermitian identity-first basis (harness/covar.py); qmpt circuits are also run with a multi-axis outcome layout of the same process. "
    "A case is one tomography configuration: type (qst/povmt/qpt/qmpt) x on_para_eq_constraint x shape (1q/qutrit/2q) x "
    "tester set built physical by construction from Hypothesis-drawn Ginibre arrays (states: generic/pure/rank-deficient/"
    "mixed/diagonal/real; POVMs: Naimark/rank-1/projective/trivial/diagonal/real, outcome counts drawn per tester and forced "
    "to differ) x schedule list ('all', or a drawn list of valid (state,povm) index pairs: subsets, repetitions, permutations) "
    "x outcome count of the unknown (2..4) x an interior physical candidate (drawn object mixed with the maximally mixed one). "
    "The oracle is a numpy model of the Born rule (Tr E_y Phi_x(rho), outcome order x-major) and of the documented variable "
    "layout; the affine maps are compared on an affine basis of the equality-constraint set through the interior point.  "
    "Non-trivial = tester outcome counts of the scheduled measurements are not all equal, or the schedule list is not 'all', "
    "or on_para_eq_constraint=True (shape facet: additionally >= 10 schedules or >= 10 outcomes in a schedule; full_rank "
    "facet: every case whose reference rank verdict is outside the singular-value margin)."
)
ASSUMPTIONS = [
    "Born rule p(x,y)=Tr(E_y Phi_x(rho)) with outcomes ordered measurement-process outcome major, POVM outcome minor "
    "(the shape the circuit itself reports)",
    "variable layout as documented by the objects' to_var/to_stacked_vector: State drops the identity coefficient; Povm drops "
    "the last element; Gate drops the first HS row; MProcess drops the first row of the last HS matrix",
    "testers are constructed with is_physicality_required=False (they are physical by construction; the flag does not enter "
    "the statistics) and candidates with the tomography's own parametrisation flag (what every caller does via "
    "_recreate_qoperation)",
    "the circuit is affine only where all probabilities exceed its documented truncation thresholds (1e-13, then 1e-8): "
    "circuit comparisons use points whose reference probabilities are >= 5e-4",
]
TECHNIQUE = (
    "property-based testing (Hypothesis) over tomography configurations; per configuration the two affine maps (model vs "
    "circuit) are decided on an affine basis of the constraint set and against an independent numpy Born-rule model"
)
LEVEL_TEXT = (
    "Generated-input search over configurations (4 tomography types, both flags, 3 shapes, mixed tester outcome counts, custom "
    "schedule lists).  Inside one configuration the for-all-candidates statement is decided, not sampled: calc_matA/calc_vecB "
    "are compared entrywise with reference matrices, and the circuit is evaluated on a full affine basis of the constraint set "
    "(sampled basis + dense directions when the variable count exceeds the tier's limit).  Absence of defects is established "
    "only for the configurations generated."
)
LEVEL_NOTE = (
    "Trusted: numpy LAPACK, harness/refmodel.py, the Born-rule/variable-layout model in this module (self-checked per case: "
    "HS-coefficient model vs Kraus/matrix-level Born at the interior point)."
)

TOMOS = ("qst", "povmt", "qpt", "qmpt")
# debugging switch for the mutant experiments in notes/c08.md (never set by run_check.sh): skip the reference-matrix
# oracles so that a mutant has to be caught by the literal statement "model == circuit on an affine basis"
_ONLY_CIRCUIT = bool(__import__("os").environ.get("C08_ONLY_CIRCUIT"))
P_INTERIOR = 1e-3  # reference probabilities at the interior point must be at least this for circuit comparisons


# ============================================================================= tester matrices
def _q(raw):
    return np.round(np.asarray(raw, dtype=float) * 2.0 ** 24) / 2.0 ** 24


def state_mat(c):
    m = gen.state_matrix(c)
    if c.get("real"):
        m = rm.herm(np.real(m)).astype(complex)
    return m


def povm_mats(c):
    d = gen.dim_of(c["shape"])
    m = c["m"]
    if c["kind"] == "diag":
        w = np.abs(_q(c["raw"][: m * d])).reshape(m, d) + 1e-3
        w = w / w.sum(axis=0, keepdims=True)
        return [np.diag(w[y]).astype(complex) for y in range(m)]
    es = gen.povm_matrices(c)
    if c.get("real"):
        es = [rm.herm(np.real(e)).astype(complex) for e in es]
    mu = float(c.get("mu", 0.0))
    if mu:
        es = [(1.0 - mu) * e + mu * np.eye(d, dtype=complex) / m for e in es]
    return es


def rvec(basis, mat):
    return np.real(rm.vec(basis, mat))


# ============================================================================= schedules
def schedule_pairs(case):
    """list of (state index, povm index) in schedule order."""
    tomo = case["tomo"]
    s = case["schedules"]
    if s == "all":
        ns, npv = len(case.get("states", [])), len(case.get("povms", []))
        if tomo == "qst":
            return [(0, j) for j in range(npv)]
        if tomo == "povmt":
            return [(i, 0) for i in range(ns)]
        return list(itertools.product(range(ns), range(npv)))
    return [(int(a), int(b)) for a, b in s]


def quara_schedules(case):
    if case["schedules"] == "all":
        return "all"
    mid = {"qst": None, "povmt": None, "qpt": ("gate", 0), "qmpt": ("mprocess", 0)}[case["tomo"]]
    out = []
    for i, j in schedule_pairs(case):
        sch = [("state", int(i))]
        if mid is not None:
            sch.append(mid)
        sch.append(("povm", int(j)))
        out.append(sch)
    return out


def outcome_counts(case):
    """expected number of outcomes of every schedule."""
    tomo = case["tomo"]
    out = []
    for i, j in schedule_pairs(case):
        if tomo == "qst":
            out.append(case["povms"][j]["m"])
        elif tomo == "povmt":
            out.append(case["m"])
        elif tomo == "qpt":
            out.append(case["povms"][j]["m"])
        else:
            out.append(case["m"] * case["povms"][j]["m"])
    return out


def mixed_outcome_counts(case):
    """known-finding predicate (C08-F1): the schedules do not all have the same number of outcomes."""
    return len(set(outcome_counts(case))) > 1


def schedule_features(case):
    if case["schedules"] == "all":
        return ["sched:all"]
    pairs = schedule_pairs(case)
    full = schedule_pairs(dict(case, schedules="all"))
    f = ["sched:custom"]
    if len(set(pairs)) < len(pairs):
        f.append("sched:repetition")
    if set(pairs) != set(full):
        f.append("sched:subset")
    dedup = [p for k, p in enumerate(pairs) if p not in pairs[:k]]
    if dedup != sorted(dedup):
        f.append("sched:permuted")
    return f


# ============================================================================= reference model of one configuration
class Cfg:
    pass


def n_stacked(tomo, n, m):
    return {"qst": n, "povmt": m * n, "qpt": n * n, "qmpt": m * n * n}[tomo]


def n_var(tomo, n, m, flag):
    full = n_stacked(tomo, n, m)
    if not flag:
        return full
    return full - {"qst": 1, "povmt": n, "qpt": n, "qmpt": n}[tomo]


def embed(tomo, d, n, m, v):
    """documented variable layout under on_para_eq_constraint=True: var -> stacked vector (affine)."""
    v = np.asarray(v, dtype=float)
    if tomo == "qst":
        return np.concatenate([[1.0 / math.sqrt(d)], v])
    if tomo == "povmt":
        blocks = v.reshape(m - 1, n)
        last = -blocks.sum(axis=0)
        last[0] += math.sqrt(d)
        return np.concatenate([v, last])
    e0 = np.zeros(n)
    e0[0] = 1.0
    if tomo == "qpt":
        return np.concatenate([e0, v])
    # qmpt: first m-1 HS matrices complete, last one without its first row
    head = v[: (m - 1) * n * n]
    tail = v[(m - 1) * n * n:]
    first_rows = head.reshape(m - 1, n, n)[:, 0, :].sum(axis=0) if m > 1 else np.zeros(n)
    return np.concatenate([head, e0 - first_rows, tail])


def var_of_stacked(tomo, n, m, x):
    x = np.asarray(x, dtype=float)
    if tomo == "qst":
        return x[1:].copy()
    if tomo == "povmt":
        return x[: (m - 1) * n].copy()
    if tomo == "qpt":
        return x[n:].copy()
    k = (m - 1) * n * n
    return np.concatenate([x[:k], x[k + n:]])


def violating_indices(tomo, n, m):
    """stacked coordinates that leave the equality-constraint set (complement of the tangent basis)."""
    if tomo == "qst":
        return [0]
    if tomo == "povmt":
        return list(range((m - 1) * n, m * n))
    if tomo == "qpt":
        return list(range(n))
    k = (m - 1) * n * n
    return list(range(k, k + n))


def origin_stacked(tomo, d, n, m):
    e0 = np.zeros(n)
    e0[0] = 1.0
    if tomo == "qst":
        return e0 / math.sqrt(d)
    if tomo == "povmt":
        return np.concatenate([e0 * math.sqrt(d) / m for _ in range(m)])
    dep = np.zeros((n, n))
    dep[0, 0] = 1.0
    if tomo == "qpt":
        return dep.reshape(-1)
    return np.concatenate([dep.reshape(-1) / m for _ in range(m)])


UNKNOWN_TYPE = {"qst": "state", "povmt": "povm", "qpt": "gate", "qmpt": "mprocess"}


def realise(case):
    """everything the oracles need, computed without quara."""
    c = Cfg()
    c.tomo = tomo = case["tomo"]
    c.flag = bool(case["flag"])
    c.shape = shape = case["shape"]
    c.d = d = gen.dim_of(shape)
    c.n = n = d * d
    c.basis = basis = gen.ref_basis(shape)
    c.rot = case.get("rot")
    if c.rot is not None:
        from harness import covar

        c.basis = basis = covar.rotated_env(shape, c.rot)[2]
    c.m = m = int(case.get("m") or 1)
    c.states = [state_mat(s) for s in case.get("states", [])]
    c.povms = [povm_mats(p) for p in case.get("povms", [])]
    c.svecs = [rvec(basis, r) for r in c.states]
    c.evecs = [[rvec(basis, e) for e in es] for es in c.povms]
    c.pairs = schedule_pairs(case)
    c.counts = outcome_counts(case)
    c.N = N = n_stacked(tomo, n, m)
    c.nvar = n_var(tomo, n, m, c.flag)

    # ---- linear Born map on stacked coordinates: p = L x, rows ordered (schedule, outcome)
    rows = []
    for i, j in c.pairs:
        if tomo == "qst":
            for e in c.evecs[j]:
                rows.append(e)
        elif tomo == "povmt":
            for x in range(m):
                r = np.zeros(N)
                r[x * n:(x + 1) * n] = c.svecs[i]
                rows.append(r)
        elif tomo == "qpt":
            for e in c.evecs[j]:
                rows.append(np.outer(e, c.svecs[i]).reshape(-1))
        else:
            for x in range(m):
                for e in c.evecs[j]:
                    r = np.zeros(N)
                    r[x * n * n:(x + 1) * n * n] = np.outer(e, c.svecs[i]).reshape(-1)
                    rows.append(r)
    c.L = L = np.array(rows, dtype=float).reshape(len(rows), N)

    # ---- variable layout: x = P v + xc
    if c.flag:
        nv = c.nvar
        xc = embed(tomo, d, n, m, np.zeros(nv))
        P = np.zeros((N, nv))
        for k in range(nv):
            ek = np.zeros(nv)
            ek[k] = 1.0
            P[:, k] = embed(tomo, d, n, m, ek) - xc
        c.P, c.xc = P, xc
        c.A_ref = L @ P
        c.B_ref = L @ xc
        c.T = np.eye(nv)  # tangent basis in variable coordinates
    else:
        nvt = n_var(tomo, n, m, True)
        xc = embed(tomo, d, n, m, np.zeros(nvt))
        T = np.zeros((N, nvt))
        for k in range(nvt):
            ek = np.zeros(nvt)
            ek[k] = 1.0
            T[:, k] = embed(tomo, d, n, m, ek) - xc
        c.P, c.xc = np.eye(N), np.zeros(N)
        c.A_ref = L.copy()
        c.B_ref = np.zeros(L.shape[0])
        c.T = T
    c.viol = violating_indices(tomo, n, m)

    # ---- interior candidate
    cand = case["cand"]
    lam = float(case.get("lam", 0.3))
    x_c = gen.stacked_reference(cand, basis)
    c.x0 = x0 = (1.0 - lam) * x_c + lam * origin_stacked(tomo, d, n, m)
    c.v0 = var_of_stacked(tomo, n, m, x0) if c.flag else x0.copy()
    c.p0 = L @ x0
    c.p0_matrix = born_matrix_level(c, cand, lam)
    if c.p0_matrix.shape != c.p0.shape or np.max(np.abs(c.p0_matrix - c.p0)) > rm.algebraic_tol(n, 2.0):
        raise RuntimeError("C08 reference model inconsistent: HS-coefficient Born map != matrix-level Born rule")
    c.offsets = np.concatenate([[0], np.cumsum(c.counts)]).astype(int)
    return c


def born_matrix_level(c, cand, lam):
    """Born probabilities of the interior candidate from matrices / Kraus operators only (no coefficient vectors)."""
    d, m, tomo = c.d, c.m, c.tomo
    eye = np.eye(d, dtype=complex)
    out = []
    if tomo == "qst":
        rho = (1 - lam) * gen.state_matrix(cand) + lam * eye / d
        for i, j in c.pairs:
            out.extend(rm.born(c.povms[j], rho))
    elif tomo == "povmt":
        es = [(1 - lam) * e + lam * eye / m for e in gen.povm_matrices(cand)]
        for i, j in c.pairs:
            out.extend(rm.born(es, c.states[i]))
    elif tomo == "qpt":
        ks = gen.gate_kraus(cand)
        for i, j in c.pairs:
            rho = c.states[i]
            img = (1 - lam) * rm.apply_kraus(ks, rho) + lam * np.trace(rho) * eye / d
            out.extend(rm.born(c.povms[j], img))
    else:
        kss = gen.mprocess_kraus(cand)
        for i, j in c.pairs:
            rho = c.states[i]
            for x in range(m):
                img = (1 - lam) * rm.apply_kraus(kss[x], rho) + (lam / m) * np.trace(rho) * eye / d
                out.extend(rm.born(c.povms[j], img))
    return np.array(out, dtype=float)


# ============================================================================= quara side
def build_tomo(case, c):
    from quara.protocol.qtomography.standard.standard_povmt import StandardPovmt
    from quara.protocol.qtomography.standard.standard_qmpt import StandardQmpt
    from quara.protocol.qtomography.standard.standard_qpt import StandardQpt
    from quara.protocol.qtomography.standard.standard_qst import StandardQst

    c_sys = build.c_sys_for(c.shape)
    if getattr(c, "rot", None) is not None:
        from harness import covar

        c_sys = covar.rotated_env(c.shape, c.rot)[0]
    states = [build.make(c_sys, "state", v) for v in c.svecs]
    povms = [build.make(c_sys, "povm", np.concatenate(ev), m=len(ev)) for ev in c.evecs]
    from harness import reps

    sch = quara_schedules(case)
    if isinstance(sch, list):  # the custom schedule list as list or tuple (of lists or tuples)
        inner = reps.pick(("inner", repr(sch)[:200]), 2)
        sch = reps.seq([tuple(x) if inner else list(x) for x in sch], "sched")
    kw = dict(on_para_eq_constraint=reps.flag(c.flag, c.tomo + c.shape), schedules=sch)
    if c.tomo == "qst":
        t = StandardQst(povms, **kw)
    elif c.tomo == "povmt":
        t = StandardPovmt(states, c.m, **kw)
    elif c.tomo == "qpt":
        t = StandardQpt(states, povms, **kw)
    else:
        t = StandardQmpt(states, povms, c.m, **kw)
    return t, c_sys


def labels(case, c, ctx):
    ctx.label(c.tomo, c.shape, f"flag:{c.flag}", *schedule_features(case))
    mixed = len(set(c.counts)) > 1
    ctx.label("counts:mixed" if mixed else "counts:equal")
    if c.tomo in ("povmt", "qmpt"):
        ctx.label(f"m_unknown:{c.m}")
    return mixed or case["schedules"] != "all" or c.flag


def tol_for(c, scale=2.0):
    return rm.algebraic_tol(c.n, scale)


def compare_matrices(case, c, tomo, ctx):
    """calc_matA / calc_vecB against the reference affine map.  False => do not use them further."""
    A = tomo.calc_matA()
    B = tomo.calc_vecB()
    tol = tol_for(c)
    if _ONLY_CIRCUIT:  # sensitivity experiments only: leave the decision to the model-vs-circuit oracles
        return np.asarray(A, dtype=float), np.asarray(B, dtype=float)
    ok = ctx.close(A, c.A_ref, tol, f"matA_vs_born:{c.tomo}")
    ok = ctx.close(B, c.B_ref, tol, f"vecB_vs_born:{c.tomo}") and ok
    if ok and isinstance(A, np.ndarray) and isinstance(B, np.ndarray):
        # a caller that rescales the matrices it was given (whitening, weighting) does not change the model the
        # tomography object reports next
        keepA, keepB = np.array(A, dtype=float, copy=True), np.array(B, dtype=float, copy=True)
        if A.flags.writeable and B.flags.writeable:
            A *= 2
            B += 1
            ctx.equal(np.asarray(tomo.calc_matA(), dtype=float), keepA, f"matA_unchanged_after_caller_edit:{c.tomo}")
            ctx.equal(np.asarray(tomo.calc_vecB(), dtype=float), keepB, f"vecB_unchanged_after_caller_edit:{c.tomo}")
        return keepA, keepB
    return (np.asarray(A, dtype=float), np.asarray(B, dtype=float)) if ok else None


def circuit(tomo, v):
    obj = tomo.convert_var_to_qoperation(np.array(v, dtype=np.float64))
    return tomo.generate_prob_dists_sequence(obj)


def check_circuit_point(c, tomo, AB, v, x, ctx, tag):
    """G(v) vs reference Born probabilities and vs F(v); v in variable coordinates, x the same point stacked."""
    tol = tol_for(c, 1.0 + float(np.max(np.abs(x))))
    ref = c.L @ x
    seq = circuit(tomo, v)
    if not ctx.check(isinstance(seq, (list, tuple)) and len(seq) == len(c.pairs), f"circuit_num_schedules:{c.tomo}",
                     lambda: f"{len(seq) if hasattr(seq, '__len__') else type(seq)} distributions for {len(c.pairs)} schedules"):
        return
    g = []
    for j in range(len(c.pairs)):
        sl = ref[c.offsets[j]:c.offsets[j + 1]]
        if not ctx.close(np.asarray(seq[j], dtype=float), sl, tol, f"circuit_vs_born:{c.tomo}", f"schedule {j} point {tag}"):
            return
        g.append(np.asarray(seq[j], dtype=float))
    g = np.concatenate(g)
    if AB is not None:
        A, B = AB
        ctx.close(A @ v + B, g, tol, f"affine_equality:{c.tomo}", f"F(v) vs circuit at point {tag}")
    if c.tomo == "qmpt" and c.m >= 4 and (c.m % 2 == 0 or c.m % 3 == 0) and tag == "v0":
        # the same measurement process declared with a multi-axis outcome layout (serial order is row-major, documented):
        # the circuit's statistics and their order do not depend on the declared layout
        from quara.objects.mprocess import MProcess

        obj = tomo.convert_var_to_qoperation(np.array(v, dtype=np.float64))
        f = 2 if c.m % 2 == 0 else 3
        obj2 = MProcess(obj.composite_system, [np.array(h) for h in obj.hss], shape=(f, c.m // f), is_physicality_required=False,
                        on_para_eq_constraint=c.flag)
        seq2 = tomo.generate_prob_dists_sequence(obj2)
        ctx.label("circuit:multi-axis-mprocess")
        for j in range(len(c.pairs)):
            if not ctx.close(np.asarray(seq2[j], dtype=float).reshape(-1), ref[c.offsets[j]:c.offsets[j + 1]], tol,
                             f"circuit_vs_born:{c.tomo}:multi_axis_layout", f"schedule {j}"):
                break


# ----------------------------------------------------------------------------- facet: affine_equality
def full_basis_limit(case):
    return int(case.get("full_limit", 100))


def check_affine(case, ctx):
    c = realise(case)
    tomo, c_sys = build_tomo(case, c)
    nt = labels(case, c, ctx)
    ctx.nontrivial(nt)
    AB = compare_matrices(case, c, tomo, ctx)

    # ---- F against the un-normalised Born values in every variable direction (incl. constraint-violating ones)
    if AB is not None:
        A, B = AB
        ctx.check(A.shape[1] == c.nvar and tomo.num_variables == c.nvar, f"num_variables:{c.tomo}",
                  lambda: f"matA {A.shape}, num_variables {tomo.num_variables}, expected {c.nvar}")
        if not c.flag:
            for k in c.viol:
                x = c.x0.copy()
                x[k] += 0.25
                ctx.close(A @ x + B, c.L @ x, tol_for(c), f"F_vs_unnormalised_born:{c.tomo}", f"violating direction {k}")

    pmin = float(np.min(c.p0))
    if pmin < P_INTERIOR:
        ctx.skip("interior-point-below-threshold")
        return
    # ---- circuit on the affine basis of the constraint set
    check_circuit_point(c, tomo, AB, c.v0, c.x0, ctx, "v0")
    # the matrix-level Born rule at v0 (no coefficient vectors involved)
    seq0 = circuit(tomo, c.v0)
    if isinstance(seq0, (list, tuple)) and len(seq0) == len(c.pairs):
        for j in range(len(c.pairs)):
            ctx.close(np.asarray(seq0[j], dtype=float), c.p0_matrix[c.offsets[j]:c.offsets[j + 1]], tol_for(c),
                      f"circuit_vs_born_matrix_level:{c.tomo}", f"schedule {j}")

    # ---- an outcome that never occurs (a projective instrument on its own eigenstate, a POVM with a zero element): the
    #      first outcome's block is moved into the second one, which keeps the constraint, positivity, and every other
    #      probability >= the interior ones; exact zeros are untouched by the documented truncation, so circuit == model
    if c.tomo in ("povmt", "qmpt") and c.m >= 2:
        blk = c.N // c.m
        xz = c.x0.copy()
        xz[blk:2 * blk] += xz[:blk]
        xz[:blk] = 0.0
        vz = var_of_stacked(c.tomo, c.n, c.m, xz) if c.flag else xz.copy()
        ctx.label("circuit:impossible-first-outcome")
        check_circuit_point(c, tomo, AB, vz, xz, ctx, "impossible-first-outcome")

    # ---- one-schedule runs (the path generate_empi_dist takes) for two different candidates, after a full run that failed
    #      on an unusable object and was caught by the caller: each run is the circuit of ITS object
    if c.tomo in ("qpt", "qmpt") and reps.pick(repr(c.x0.tolist()), 2) == 0:
        try:
            tomo.generate_prob_dists_sequence(tomo.generate_empty_estimation_obj_with_setting_info())
            ctx.label("failed-full-run:did-not-raise")
        except Exception:
            ctx.label("failed-full-run:raised")
        t0_ = c.T[:, 0]
        tx0 = c.P @ t0_
        mx0 = float(np.max(np.abs(c.L @ tx0)))
        dl = 1.0 if mx0 == 0.0 else min(1.0, 0.5 * pmin / mx0)
        attr = "gates" if c.tomo == "qpt" else "mprocesses"
        for tag, v, x in (("v0", c.v0, c.x0), ("t0", c.v0 + dl * t0_, c.x0 + dl * tx0)):
            obj = tomo.convert_var_to_qoperation(np.array(v, dtype=np.float64))
            ex = tomo.experiment.copy()
            lst = getattr(ex, attr)
            for k_ in range(len(lst)):
                lst[k_] = obj
            ref = c.L @ x
            for j in range(len(c.pairs)):
                if not ctx.close(np.asarray(ex.calc_prob_dist(j), dtype=float), ref[c.offsets[j]:c.offsets[j + 1]],
                                 tol_for(c, 1.0 + float(np.max(np.abs(x)))), f"single_schedule_circuit_vs_born:{c.tomo}",
                                 f"schedule {j} point {tag}"):
                    break

    nt_dirs = c.T.shape[1]
    if nt_dirs <= full_basis_limit(case):
        dirs = [("t%d" % k, c.T[:, k]) for k in range(nt_dirs)]
        ctx.label("circuit:full-basis")
    else:
        idx = sorted({int(k) % nt_dirs for k in case.get("dir_idx", [])})
        dirs = [("t%d" % k, c.T[:, k]) for k in idx]
        raw = np.asarray(case.get("raw_dir", [0.5]), dtype=float)
        for r in range(3):
            coef = np.array([raw[(k + 7 * r) % raw.size] + 0.37 * math.sin(1.7 * k + 0.3 + r) for k in range(nt_dirs)])
            dirs.append(("dense%d" % r, c.T @ coef))
        ctx.label("circuit:sampled-basis")
    for tag, t in dirs:
        # t is in variable coordinates; its stacked image is P t
        tx = c.P @ t
        dp = c.L @ tx
        mx = float(np.max(np.abs(dp))) if dp.size else 0.0
        delta = 1.0 if mx == 0.0 else min(1.0, 0.5 * pmin / mx)
        check_circuit_point(c, tomo, AB, c.v0 + delta * t, c.x0 + delta * tx, ctx, tag)


# ----------------------------------------------------------------------------- facet: prob_dists
def check_prob_dists(case, ctx):
    c = realise(case)
    tomo, c_sys = build_tomo(case, c)
    nt = labels(case, c, ctx)
    ctx.nontrivial(nt)
    AB = compare_matrices(case, c, tomo, ctx)
    ns = len(c.pairs)
    ctx.equal(int(tomo.num_schedules), ns, f"num_schedules:{c.tomo}")
    for j in range(ns):
        ctx.equal(int(tomo.num_outcomes(j)), int(c.counts[j]), f"num_outcomes:{c.tomo}", f"schedule {j}")

    typ = UNKNOWN_TYPE[c.tomo]
    m_kw = c.m if typ in ("povm", "mprocess") else None
    # candidate built independently of convert_var_to_qoperation, with the tomography's flag
    objs = [("made", build.make(c_sys, typ, c.x0, m=m_kw, on_para_eq_constraint=c.flag), c.x0)]
    if typ == "mprocess" and c.m >= 4 and (c.m % 2 == 0 or c.m % 3 == 0):
        # the same measurement process declared with a multi-axis outcome layout (row-major serial order is documented):
        # the circuit statistics and their order do not depend on how the m outcomes are laid out
        f = 2 if c.m % 2 == 0 else 3
        objs.append(("made_multiaxis", build.make(c_sys, typ, c.x0, m=m_kw, mshape=(f, c.m // f), on_para_eq_constraint=c.flag), c.x0))
        ctx.label("mprocess:multi-axis-outcomes")
    # a second point on the constraint set, through the tomography's own converter
    coef = np.asarray(case.get("raw_dir", [0.5]), dtype=float)
    t = c.T @ np.array([coef[k % coef.size] for k in range(c.T.shape[1])])
    tx = c.P @ t
    mx = float(np.max(np.abs(c.L @ tx)))
    pmin = float(np.min(c.p0))
    delta = 0.0 if pmin <= 0 else (1.0 if mx == 0 else min(1.0, 0.5 * pmin / mx))
    x1 = c.x0 + delta * tx
    objs.append(("converted", tomo.convert_var_to_qoperation(np.array(c.v0 + delta * t, dtype=np.float64)), x1))
    # truncation (< 1e-13 -> 0) and renormalisation are documented; they move a row by less than this
    tol = tol_for(c) + 40 * 1e-13
    for tag, obj, x in objs:
        ref = c.L @ x
        if float(np.min(ref)) < 0:
            continue
        # ---- calc_prob_dists: one distribution per schedule, with that schedule's outcome count
        try:
            pds = tomo.calc_prob_dists(obj)
            err = None
        except ValueError as e:  # a reshape error is reported under the same oracle as a wrong shape
            pds, err = None, e
        ok = ctx.check(err is None, f"calc_prob_dists:per_schedule:{c.tomo}",
                       lambda: f"raised {type(err).__name__}: {err} (outcome counts {c.counts})")
        if ok:
            ok = ctx.check(hasattr(pds, "__len__") and len(pds) == ns, f"calc_prob_dists:per_schedule:{c.tomo}",
                           lambda: f"{len(pds) if hasattr(pds, '__len__') else type(pds)} rows for {ns} schedules")
        if ok:
            for j in range(ns):
                if not ctx.close(np.asarray(pds[j], dtype=float), ref[c.offsets[j]:c.offsets[j + 1]], tol,
                                 f"calc_prob_dists:per_schedule:{c.tomo}", f"{tag} schedule {j} counts {c.counts}"):
                    break
        # ---- calc_prob_dist(obj, j)
        for j in range(ns):
            try:
                pd = tomo.calc_prob_dist(obj, j)
                err = None
            except ValueError as e:
                pd, err = None, e
            if not ctx.check(err is None, f"calc_prob_dist:per_schedule:{c.tomo}",
                             lambda: f"raised {type(err).__name__}: {err} (outcome counts {c.counts})"):
                break
            if not ctx.close(np.asarray(pd, dtype=float), ref[c.offsets[j]:c.offsets[j + 1]], tol,
                             f"calc_prob_dist:per_schedule:{c.tomo}", f"{tag} schedule {j} counts {c.counts}"):
                break
        # F slices themselves (what the two functions are documented to return)
        if AB is not None:
            A, B = AB
            v = var_of_stacked(c.tomo, c.n, c.m, x) if c.flag else x
            ctx.close(A @ v + B, ref, tol_for(c), f"F_vs_born:{c.tomo}", tag)
            qv = np.asarray(obj.to_var() if c.flag else obj.to_stacked_vector(), dtype=float)
            ctx.close(qv, v, tol_for(c), f"variable_layout:{c.tomo}", tag)


# ----------------------------------------------------------------------------- facet: shape
def check_shape(case, ctx):
    c = realise(case)
    tomo, c_sys = build_tomo(case, c)
    labels(case, c, ctx)
    big = len(c.pairs) >= 10 or max(c.counts) >= 10
    ctx.label("schedules>=10" if len(c.pairs) >= 10 else "schedules<10", "outcomes>=10" if max(c.counts) >= 10 else "outcomes<10")
    ctx.nontrivial(big)
    A = tomo.calc_matA()
    B = tomo.calc_vecB()
    rows = int(sum(c.counts))
    ctx.equal(tuple(np.shape(A)), (rows, c.nvar), f"matA_shape:{c.tomo}")
    ctx.equal(tuple(np.shape(B)), (rows,), f"vecB_shape:{c.tomo}")
    ctx.equal(int(tomo.num_variables), int(c.nvar), f"num_variables:{c.tomo}")
    empty = tomo.generate_empty_estimation_obj_with_setting_info()
    ctx.equal(int(np.size(empty.to_var())), int(c.nvar), f"len_to_var:{c.tomo}", "empty estimation object")
    obj = tomo.convert_var_to_qoperation(np.array(c.v0, dtype=np.float64))
    ctx.equal(int(np.size(obj.to_var())), int(c.nvar), f"len_to_var:{c.tomo}", "converted candidate")
    ctx.close(np.asarray(obj.to_var(), dtype=float), c.v0, tol_for(c), f"var_roundtrip:{c.tomo}")
    AB = compare_matrices(case, c, tomo, ctx)
    if AB is None:
        return
    A, B = AB
    tol = tol_for(c)
    # rows are sorted by (schedule, outcome): the accessor for (j, x) is row offsets[j] + x
    for j in range(len(c.pairs)):
        ctx.equal(int(tomo.num_outcomes(j)), int(c.counts[j]), f"num_outcomes:{c.tomo}", f"schedule {j}")
        for x in range(c.counts[j]):
            r = int(c.offsets[j] + x)
            ctx.close(np.asarray(tomo.get_coeffs_1st(j, x), dtype=float), c.A_ref[r], tol, f"row_order:{c.tomo}", f"({j},{x})")
            ctx.close(np.asarray(tomo.get_coeffs_0th(j, x), dtype=float).reshape(()), np.asarray(c.B_ref[r]).reshape(()), tol,
                      f"row_order:{c.tomo}", f"({j},{x}) offset")
        ctx.close(np.asarray(tomo.get_coeffs_1st_mat(j), dtype=float), c.A_ref[c.offsets[j]:c.offsets[j + 1]], tol,
                  f"coeffs_1st_mat:{c.tomo}", f"schedule {j}")
        ctx.close(np.asarray(tomo.get_coeffs_0th_vec(j), dtype=float), c.B_ref[c.offsets[j]:c.offsets[j + 1]], tol,
                  f"coeffs_0th_vec:{c.tomo}", f"schedule {j}")


# ----------------------------------------------------------------------------- facet: full_rank
def check_full_rank(case, ctx):
    c = realise(case)
    tomo, c_sys = build_tomo(case, c)
    labels(case, c, ctx)
    ctx.label("style:" + case.get("style", "generic"))
    AB = compare_matrices(case, c, tomo, ctx)
    s_ref = np.linalg.svd(c.A_ref, compute_uv=False)
    smax = float(s_ref[0]) if s_ref.size else 0.0
    rows, cols = c.A_ref.shape
    # informational completeness, decided on the reference model with a margin:
    #   complete   : all `cols` singular values >= 1e-6 * scale
    #   incomplete : every other singular value is at least 20x below the threshold numpy.linalg.matrix_rank uses
    #                (smax * max(rows, cols) * eps), i.e. the deficiency is exact up to rounding
    scale = max(smax, 1e-6)  # tester coefficient vectors are O(1); an all-zero reference matrix has rank 0
    np_tol = smax * max(rows, cols) * np.finfo(float).eps
    big = int(np.sum(s_ref >= 1e-6 * scale))
    tiny = int(np.sum(s_ref <= 0.05 * np_tol))
    if rows >= cols and big == cols:
        verdict = True
    elif big + tiny == s_ref.size and (rows < cols or big < cols):
        verdict = False
    else:
        ctx.label("ic:margin-band")
        ctx.skip("rank-margin-band")
        return
    ctx.label(f"ic:{verdict}")
    got = bool(tomo.is_fullrank_matA())
    if verdict:
        ctx.check(got, f"full_rank_when_complete:{c.tomo}", lambda: f"smin/smax={s_ref[-1] / scale:.3e}, shape {rows}x{cols}")
        if AB is not None:
            s = np.linalg.svd(AB[0], compute_uv=False)
            ctx.check(s.size == cols and s[-1] >= 1e-7 * scale, f"full_column_rank:{c.tomo}", lambda: f"smin={s[-1]:.3e}")
        ctx.nontrivial(True)
    else:
        if AB is not None:
            s = np.linalg.svd(AB[0], compute_uv=False)
            ctx.check(int(np.sum(s >= 1e-7 * scale)) < cols, f"rank_deficient_when_incomplete:{c.tomo}",
                      lambda: f"column rank {int(np.sum(s >= 1e-7 * scale))} of {cols}")
        bitwise = AB is not None and AB[0].shape == c.A_ref.shape and bool(np.array_equal(AB[0], c.A_ref))
        if rows >= cols and not bitwise:
            # a rounding-level difference between matA and the reference could move a null singular value across numpy's
            # rank threshold: the verdict is asserted only where the two matrices are identical
            ctx.label("ic:False:matA-not-bitwise-reference")
        elif rows >= cols:
            # with fewer rows than columns "full rank" in is_fullrank_matA means full ROW rank; nothing is asserted then
            ctx.check(not got, f"not_full_rank_when_incomplete:{c.tomo}",
                      lambda: f"reference rank {big} < {cols} variables, shape {rows}x{cols}")
            ctx.nontrivial(True)
        else:
            # fewer probability rows than variables: rank <= rows < cols whatever the rounding, so the set is not
            # informationally complete and "full rank" (= full column rank, what the estimators need to invert A^T A)
            # must be False.  (Before /repo commit bad2d2c the function compared with min(shape) and said True here.)
            ctx.label("ic:False:fewer-rows-than-columns")
            ctx.check(not got, f"not_full_rank_when_fewer_rows_than_variables:{c.tomo}", lambda: f"shape {rows}x{cols}")
            ctx.nontrivial(True)


# ============================================================================= strategies
def raw_dense(n):
    """like gen.raw but every entry is drawn on its own (hnp.arrays' default fill makes most entries equal, which turns
    Ginibre-based testers into degenerate ones: null POVM elements, repeated states)."""
    from hypothesis.extra import numpy as hnp

    return hnp.arrays(np.float64, n, elements=st.floats(-1.0, 1.0, allow_nan=False, allow_infinity=False, width=64),
                      fill=st.nothing()).map(lambda a: [float(x) for x in a])


def _raw(draw, n, dense):
    return draw(raw_dense(n)) if dense else draw(gen.raw(n))


def _naimark(draw, shape, m, dense=True):
    d = gen.dim_of(shape)
    return {"type": "povm", "shape": shape, "m": m, "kind": "naimark", "raw": _raw(draw, 2 * d * m * d, dense)}


@st.composite
def dense_state_case(draw, shape, kinds=("generic", "generic", "generic", "pure", "rankdef", "mixed", "diag")):
    """same case format as gen.state_case, entries drawn independently."""
    d = gen.dim_of(shape)
    kind = draw(st.sampled_from(list(kinds)))
    case = {"type": "state", "shape": shape, "kind": kind}
    if kind == "mixed":
        return case
    case["raw_u"] = draw(raw_dense(2 * d * d))
    case["raw_p"] = draw(raw_dense(d))
    if kind == "pure":
        case["zero_mask"] = [False] + [True] * (d - 1)
    elif kind == "rankdef":
        zm = draw(st.lists(st.booleans(), min_size=d, max_size=d))
        if not any(zm):
            zm[-1] = True
        case["zero_mask"] = zm
    return case


@st.composite
def dense_povm_case(draw, shape, m):
    """same case format as gen.povm_case, entries drawn independently."""
    d = gen.dim_of(shape)
    kind = draw(st.sampled_from(["naimark", "naimark", "naimark", "rank1", "projective", "trivial"]))
    if kind == "rank1" and m < d:
        kind = "naimark"
    if kind == "projective" and m > d:
        kind = "naimark"
    case = {"type": "povm", "shape": shape, "m": m, "kind": kind}
    if kind == "naimark":
        case["raw"] = draw(raw_dense(2 * d * m * d))
    elif kind == "rank1":
        case["raw"] = draw(raw_dense(2 * m * d))
    elif kind == "projective":
        case["raw"] = draw(raw_dense(2 * d * d))
    return case


@st.composite
def tester_state(draw, shape, style):
    dense = draw(st.integers(0, 3)) > 0
    if style == "generic":
        return draw(dense_state_case(shape)) if dense else draw(gen.state_case((shape,)))
    c = draw(dense_state_case(shape, ("generic",))) if (dense or style == "spanning") else draw(gen.state_case((shape,), special=False))
    if style == "diag":
        c["kind"] = "diag"
    elif style == "real":
        c["real"] = True
    return c


@st.composite
def tester_povm(draw, shape, m, style):
    d = gen.dim_of(shape)
    dense = draw(st.integers(0, 3)) > 0
    if style == "generic":
        return draw(dense_povm_case(shape, m)) if dense else draw(gen.povm_case((shape,), (m, m)))
    if style == "spanning":
        return _naimark(draw, shape, m, True)
    if style == "diag":
        return {"type": "povm", "shape": shape, "m": m, "kind": "diag", "raw": _raw(draw, m * d, dense)}
    c = _naimark(draw, shape, m, True)
    c["real"] = True
    return c


@st.composite
def counts_list(draw, k, m_lo, m_hi, mixed):
    cs = [draw(st.integers(m_lo, m_hi)) for _ in range(k)]
    if mixed and k >= 2 and len(set(cs)) == 1 and m_hi > m_lo:
        cs[-1] = cs[0] + 1 if cs[0] < m_hi else cs[0] - 1
    return cs


@st.composite
def candidate(draw, tomo, shape, m):
    dense = draw(st.integers(0, 3)) > 0
    if tomo == "qst":
        return draw(dense_state_case(shape)) if dense else draw(gen.state_case((shape,)))
    if tomo == "povmt":
        return draw(dense_povm_case(shape, m)) if dense else draw(gen.povm_case((shape,), (m, m)))
    if tomo == "qpt":
        return draw(gen.gate_case((shape,), max_rank=3))
    return draw(gen.mprocess_case((shape,), (m, m), max_per=2))


@st.composite
def schedules_st(draw, tomo, ns, npv, mode, min_len=1, max_len=8):
    """'all' or a list of valid [state, povm] index pairs."""
    if mode == "all":
        return "all"
    if tomo == "qst":
        pool = [[0, j] for j in range(npv)]
    elif tomo == "povmt":
        pool = [[i, 0] for i in range(ns)]
    else:
        pool = [[i, j] for i in range(ns) for j in range(npv)]
    if mode == "permutation":
        return draw(st.permutations(pool)).copy()
    k = draw(st.integers(min_len, max_len))
    return [list(draw(st.sampled_from(pool))) for _ in range(k)]


AFFINE_SHAPES = {
    "quick": {"qst": ("1q", "qutrit", "2q"), "povmt": ("1q", "qutrit", "2q"), "qpt": ("1q", "1q", "qutrit"),
              "qmpt": ("1q",)},
    "thorough": {"qst": ("1q", "qutrit", "2q"), "povmt": ("1q", "qutrit", "2q"), "qpt": ("1q", "qutrit", "2q"),
                 "qmpt": ("1q", "1q", "qutrit", "2q")},
}
ALL_SHAPES = {t: ("1q", "qutrit", "2q") for t in TOMOS}


@st.composite
def config(draw, tier, purpose):
    tomo = draw(st.sampled_from(TOMOS))
    flag = draw(st.booleans())
    if purpose == "affine":
        shape = draw(st.sampled_from(AFFINE_SHAPES[tier][tomo]))
    elif purpose == "shape" and tomo in ("qpt", "qmpt"):
        shape = draw(st.sampled_from(("1q", "1q", "qutrit") if tier == "quick" else ("1q", "qutrit", "2q")))
    else:
        shape = draw(st.sampled_from(ALL_SHAPES[tomo]))
    d = gen.dim_of(shape)
    m = draw(st.integers(2, 4)) if tomo in ("povmt", "qmpt") else None
    if tomo == "qmpt" and shape != "1q" and purpose in ("affine",):
        m = draw(st.integers(2, 3))
    case = {"tomo": tomo, "flag": flag, "shape": shape}
    if m is not None:
        case["m"] = m
    style = "generic"
    big = purpose == "shape"
    # ---- testers
    ns = npv = 0
    if tomo != "qst":
        ns = draw(st.integers(1, 4)) if not big else draw(st.integers(2, 6))
        if big and tomo == "povmt":
            ns = draw(st.integers(10, 13))
        case["states"] = [draw(tester_state(shape, style)) for _ in range(ns)]
    if tomo != "povmt":
        npv = draw(st.integers(1, 3)) if not big else draw(st.integers(2, 4))
        if big and tomo == "qst":
            npv = draw(st.integers(10, 12))
        m_hi = 5 if not big else (12 if (shape == "1q" and tomo in ("qst", "qpt")) else 5)
        cs = draw(counts_list(npv, 2, m_hi, mixed=draw(st.integers(0, 3)) > 0))
        if big and shape == "1q" and tomo in ("qst", "qpt") and draw(st.booleans()):
            cs[0] = draw(st.integers(10, 12))
        if purpose == "affine" and shape == "1q" and tomo in ("qst", "qpt") and draw(st.integers(0, 5)) == 0:
            # a final measurement with ten or more outcomes also where the CIRCUIT is compared with the Born rule
            cs[-1] = draw(st.integers(9, 12))
        case["povms"] = [draw(tester_povm(shape, mm, style)) for mm in cs]
        if purpose == "affine":
            # construction instead of rejection: a tester with a (nearly) null element is mixed with the trivial POVM so
            # that every probability of the interior candidate stays above the circuit's truncation thresholds
            for pc in case["povms"]:
                if min(float(np.real(np.trace(e))) for e in povm_mats(pc)) / d < 0.02:
                    pc["mu"] = 0.2
    # ---- schedules
    if big:
        mode = draw(st.sampled_from(["all", "list", "list", "permutation"]))
        total = {"qst": npv, "povmt": ns}.get(tomo, ns * npv)
        if mode in ("all", "permutation") and total < 10 and max(outcome_counts(dict(case, schedules="all"))) < 10:
            mode = "list"
        case["schedules"] = draw(schedules_st(tomo, ns, npv, mode, 10, 14))
    else:
        mode = draw(st.sampled_from(["all", "all", "list", "list", "permutation"]))
        case["schedules"] = draw(schedules_st(tomo, ns, npv, mode, 1, 6))
    # ---- interior candidate and direction material
    case["cand"] = draw(candidate(tomo, shape, m))
    case["lam"] = draw(st.sampled_from([0.3, 0.6]))
    case["dir_idx"] = draw(st.lists(st.integers(0, 10 ** 6), min_size=12, max_size=12))
    case["raw_dir"] = draw(gen.raw(24))
    case["full_limit"] = 100 if tier == "quick" else 400
    if draw(st.integers(0, 4)) == 0:
        # the same experiment over a hand-rotated (orthonormal, Hermitian, identity-first) basis: harness/covar.py
        case["rot"] = draw(gen.raw(64))
    return case


def affine_case(tier):
    return config(tier, "affine")


def probs_case(tier):
    return config(tier, "probs")


def shape_case(tier):
    return config(tier, "shape")


@st.composite
def rank_case(draw, tier):
    tomo = draw(st.sampled_from(TOMOS))
    flag = draw(st.booleans())
    if tomo in ("qpt", "qmpt"):
        shape = draw(st.sampled_from(("1q", "1q", "qutrit") if tier == "quick" else ("1q", "qutrit", "2q")))
    else:
        shape = draw(st.sampled_from(("1q", "qutrit", "2q")))
    d = gen.dim_of(shape)
    n = d * d
    m = draw(st.integers(2, 4)) if tomo in ("povmt", "qmpt") else None
    if tomo == "qmpt" and shape != "1q":
        m = 2
    case = {"tomo": tomo, "flag": flag, "shape": shape}
    if m is not None:
        case["m"] = m
    # complete by construction, or incomplete for a named structural reason
    style = draw(st.sampled_from(["spanning", "spanning", "spanning", "diag", "real", "too_few", "subset", "duplicate"]))
    case["style"] = style
    t_style = style if style in ("diag", "real") else "spanning"
    ns = npv = 0
    if tomo != "qst":
        ns = n + draw(st.integers(0, 2))
        if style == "too_few":
            ns = draw(st.integers(1, n - 1))
        case["states"] = [draw(tester_state(shape, t_style)) for _ in range(ns)]
    if tomo != "povmt":
        m_hi = 5 if d > 2 else 4
        npv = draw(st.integers(1, 3))
        cs = draw(counts_list(npv, 2, m_hi, mixed=True))
        if style == "too_few":
            # elements span at most 1 + sum(m_j - 1) < d^2 dimensions
            while 1 + sum(x - 1 for x in cs) >= n:
                if cs[-1] > 2:
                    cs[-1] -= 1
                elif len(cs) > 1:
                    cs.pop()
                else:
                    break
        else:
            while 1 + sum(x - 1 for x in cs) < n:
                cs.append(draw(st.integers(max(2, m_hi - 1), m_hi)))
        npv = len(cs)
        case["povms"] = [draw(tester_povm(shape, mm, t_style)) for mm in cs]
    total = {"qst": npv, "povmt": ns}.get(tomo, ns * npv)
    if style == "subset" and total >= 2:
        k = draw(st.integers(1, total - 1))
        pool = schedule_pairs(dict(case, schedules="all"))
        idx = draw(st.lists(st.integers(0, total - 1), min_size=k, max_size=k, unique=True))
        case["schedules"] = [list(pool[i]) for i in idx]
    elif style == "duplicate":
        pool = schedule_pairs(dict(case, schedules="all"))
        one = pool[draw(st.integers(0, total - 1))]
        case["schedules"] = [list(one) for _ in range(draw(st.integers(2, 2 * n)))]
    else:
        mode = draw(st.sampled_from(["all", "all", "permutation", "all+repeat"]))
        if mode == "all+repeat":
            pool = [list(p) for p in schedule_pairs(dict(case, schedules="all"))]
            extra = [list(draw(st.sampled_from(pool))) for _ in range(draw(st.integers(1, 3)))]
            case["schedules"] = draw(st.permutations(pool + extra)).copy()
        else:
            case["schedules"] = draw(schedules_st(tomo, ns, npv, mode))
    case["cand"] = draw(candidate(tomo, shape, m))
    case["lam"] = 0.3
    return case


FACETS = {
    "affine_equality": {
        "strategy": affine_case,
        "check": check_affine,
        "budget": {"quick": {"examples": 480, "shards": 16}, "thorough": {"examples": 5000, "shards": 16}},
        "nontrivial": "scheduled outcome counts not all equal, or schedule list not 'all', or on_para_eq_constraint=True",
        "min_nontrivial": 40,
    },
    "prob_dists": {
        "strategy": probs_case,
        "check": check_prob_dists,
        "budget": {"quick": {"examples": 600, "shards": 8}, "thorough": {"examples": 6000, "shards": 16}},
        "nontrivial": "scheduled outcome counts not all equal, or schedule list not 'all', or on_para_eq_constraint=True",
        "min_nontrivial": 40,
    },
    "shape": {
        "strategy": shape_case,
        "check": check_shape,
        "budget": {"quick": {"examples": 320, "shards": 8}, "thorough": {"examples": 3000, "shards": 16}},
        "nontrivial": ">= 10 schedules, or >= 10 outcomes in one schedule",
        "min_nontrivial": 30,
    },
    "full_rank": {
        "strategy": rank_case,
        "check": check_full_rank,
        "budget": {"quick": {"examples": 400, "shards": 8}, "thorough": {"examples": 4000, "shards": 16}},
        "nontrivial": "reference rank verdict outside the singular-value margin and is_fullrank_matA asserted",
        "min_nontrivial": 30,
    },
}
