"""C19 - Analytical error formulas equal exact expectations.

Oracles (all pure numpy, defined in this module):
  * exact multinomial moments by complete enumeration of the outcomes of every schedule;
  * an independent Born-rule forward model P (stacked object vector -> outcome probabilities) built from the
    real coefficient vectors of the testers in the orthonormal Hermitian refmodel basis;
  * the affine map  var -> stacked vector  (T, t0) obtained numerically from quara's
    ``convert_var_to_stacked_vector`` (C03's subject), so that the forward model in variables is A = P T, b = P t0;
  * MSE(var) = tr(A+ V A+^T),  MSE(object) = tr(T A+ V A+^T T^T),  Fisher F_j = sum_x grad p_x grad p_x^T / p_x,
    CRB(object) = tr(T (sum_j n_j F_j)^-1 T^T);
  * end to end: the real LinearEstimator is fed every joint outcome (tiny configurations) or probed coordinate by
    coordinate, and E||stacked(estimate) - stacked(true)||^2 is summed exactly.
"""
import functools
import itertools
import math

import numpy as np
from hypothesis import strategies as st

from harness import reps, build, gen
from harness import refmodel as rm

RULE = (
    "A configuration = tomography type (QST/POVMT/QPT/QMPT) x parametrisation flag x shape (1q; qutrit for QST/POVMT) x "
    "generated tester states/POVMs (generic, pure, rank-1, projective; all POVMs of one configuration have the same outcome "
    "count 2..4, QMPT estimates 2..3 outcomes) x generated physical true object (all kinds of harness/gen.py incl. pure / "
    "rank-deficient / projective / unitary) x a list of sample sizes n_j (1..8, capped so a schedule has <= 13000 outcomes; "
    "equal or unequal) drawn by Hypothesis.  Exact moments come from complete enumeration of the multinomial outcomes "
    "of each schedule.  Non-trivial = the n_j are not all equal, or the variable->object map is not an isometry "
    "(implied last POVM element / implied first row of the last HS), or some true outcome probability is < 1e-6 "
    "(boundary object, exercises truncation), or the tester set is over-complete (rows(A) - schedules > cols(A) under the "
    "constrained flag).  Helper facet: Hypothesis-drawn float arrays; non-trivial = >= 2 blocks / >= 3 samples / "
    "non-square or rank-deficient inputs for the documented rejections."
)
ASSUMPTIONS = [
    "the stacked-vector layout of harness/gen.stacked_reference (row-major HS, outcome-major lists) and the outcome order "
    "of a QMPT schedule (measurement-process outcome major, POVM outcome minor) are quara's documented conventions",
    "T (variables -> stacked vector) is taken numerically from quara's convert_var_to_stacked_vector (C03's subject) and is "
    "cross-checked against to_var()/to_stacked_vector() of the true object",
    "mode='qoperation' means E||stacked(estimate) - stacked(true)||^2: that is the quantity the only callers "
    "(loss_function.mean_squared_error.compare_to_analytical, data_analysis._make_data_for_graphs_mses_analytical) compare "
    "it with (data_analysis.calc_mse_qoperations), and what the StandardPovmt override computes",
    "the Cramer-Rao inequality is asserted only under the constrained flag (only then A v + b is a normalised family)",
]
TECHNIQUE = (
    "property-based testing (Hypothesis) with exhaustive enumeration of multinomial outcomes as exact oracle; "
    "end-to-end joint enumeration / coordinate probing of the real LinearEstimator; metamorphic 1/n scaling and "
    "Cramer-Rao inequality; differential helpers-vs-numpy"
)
LEVEL_TEXT = (
    "Generated-input search with an exact oracle: for every generated configuration (four tomography types, both flags, "
    "1q/qutrit, 2..4-outcome testers, n_j in 1..8) the covariance, MSE (empirical distributions, linear estimate in both "
    "modes), Fisher matrix and Cramer-Rao bound returned by quara are compared with expectations obtained by complete "
    "enumeration of all multinomial outcomes and with the textbook definitions evaluated by an independent numpy forward "
    "model; tiny configurations are additionally enumerated jointly through the real LinearEstimator.  It cannot prove "
    "the formulas for all inputs, but a wrong factor, a missing term or a wrong block layout changes the value by >= 1e-4 "
    "relative, four or more decades above the tolerance."
)
LEVEL_NOTE = (
    "Trusted: numpy LAPACK (svd/pinv/inv), this module's enumeration + Born-rule model, quara's "
    "convert_var_to_stacked_vector (C03-checked) as the definition of the parametrisation; tolerances are algebraic x cond(A)^2."
)

EPS = 2.2e-16
TTYPES = ("qst", "povmt", "qpt", "qmpt")
TRUE_TYPE = {"qst": "state", "povmt": "povm", "qpt": "gate", "qmpt": "mprocess"}
MAX_ENUM = 13000


# ============================================================================= exact multinomial moments
@functools.lru_cache(maxsize=None)
def compositions(n, k):
    """all (c_1..c_k) >= 0 with sum n, as an int array (N,k), and the multinomial coefficients (float, exact ints)."""
    rows = []
    for bars in itertools.combinations(range(n + k - 1), k - 1):
        prev = -1
        row = []
        for b in bars:
            row.append(b - prev - 1)
            prev = b
        row.append(n + k - 2 - prev)
        rows.append(row)
    c = np.array(rows, dtype=np.int64).reshape(-1, k)
    fn = math.factorial(n)
    coef = np.array([fn // math.prod(math.factorial(int(x)) for x in r) for r in c], dtype=np.float64)
    return c, coef


def n_outcomes_enum(n, k):
    return math.comb(n + k - 1, k - 1)


def nmax_for(k):
    n = 8
    while n > 1 and n_outcomes_enum(n, k) > MAX_ENUM:
        n -= 1
    return n


def exact_moments(p, n):
    """(weights, freqs, mean, cov) of the empirical distribution of n multinomial draws from p, by enumeration."""
    p = np.asarray(p, dtype=float)
    c, coef = compositions(int(n), len(p))
    with np.errstate(divide="ignore", invalid="ignore"):
        w = coef * np.prod(np.power(p[None, :], c), axis=1)  # 0**0 == 1
    f = c / float(n)
    mu = w @ f
    dev = f - mu[None, :]
    cov = dev.T @ (w[:, None] * dev)
    # harness self-checks (mathematical identities of the enumeration, never quara's fault)
    if abs(w.sum() - 1.0) > 1e-11 or np.max(np.abs(mu - p)) > 1e-11:
        raise AssertionError(f"enumeration self-check failed: sum w={w.sum()!r} max|mu-p|={np.max(np.abs(mu - p))!r}")
    return w, f, mu, cov


def closed_cov(p, n):
    p = np.asarray(p, dtype=float)
    return (np.diag(p) - np.outer(p, p)) / float(n)


def block_diag(mats):
    size = sum(m.shape[0] for m in mats)
    out = np.zeros((size, size))
    i = 0
    for m in mats:
        k = m.shape[0]
        out[i:i + k, i:i + k] = m
        i += k
    return out


# ============================================================================= configuration model (no quara)
def origin_stacked(typ, d, m=None):
    n = d * d
    e0 = np.zeros(n)
    e0[0] = 1.0
    if typ == "state":
        return e0 / math.sqrt(d)
    if typ == "povm":
        return np.concatenate([e0 * math.sqrt(d) / m for _ in range(m)])
    dep = np.zeros((n, n))
    dep[0, 0] = 1.0
    if typ == "gate":
        return dep.reshape(-1)
    return np.concatenate([dep.reshape(-1) / m for _ in range(m)])


def obj_stacked(obj_case, basis, mix=0.0):
    s = gen.stacked_reference(obj_case, basis)
    if mix:
        d = gen.dim_of(obj_case["shape"])
        s = (1.0 - mix) * s + mix * origin_stacked(obj_case["type"], d, obj_case.get("m"))
    return np.asarray(s, dtype=float)


_SIG = [np.array([[0, 1], [1, 0]], dtype=complex), np.array([[0, -1j], [1j, 0]], dtype=complex),
        np.array([[1, 0], [0, -1]], dtype=complex)]


def anchor_states(d, raw_u, q):
    """d*d linearly independent density matrices (tetrahedron for d=2; |i>, |i>+|j>, |i>+i|j> otherwise),
    depolarised by q and conjugated by the unitary drawn in raw_u: an informationally complete, well-conditioned frame."""
    mats = []
    if d == 2:
        for b in ((1, 1, 1), (1, -1, -1), (-1, 1, -1), (-1, -1, 1)):
            mats.append((np.eye(2) + sum(bi * sg for bi, sg in zip(b, _SIG)) / math.sqrt(3)) / 2)
    else:
        kets = []
        for i in range(d):
            v = np.zeros(d, dtype=complex)
            v[i] = 1
            kets.append(v)
        for i in range(d):
            for j in range(i + 1, d):
                kets.append((kets[i] + kets[j]) / math.sqrt(2))
                kets.append((kets[i] + 1j * kets[j]) / math.sqrt(2))
        mats = [np.outer(v, v.conj()) for v in kets]
    u = rm.unitary_from_raw(raw_u, d)
    if not np.all(np.isfinite(u)) or np.max(np.abs(u.conj().T @ u - np.eye(d))) > 1e-9:
        u = np.eye(d, dtype=complex)
    return [rm.herm(u @ ((1 - q) * m + q * np.eye(d) / d) @ u.conj().T) for m in mats]


def n_anchor_povms(d, m):
    return -(-(d * d - 1) // (m - 1))


def anchor_povms(d, m, raw_u, q):
    """POVMs with m outcomes whose first m-1 effects are anchor states / (m-1); jointly informationally complete."""
    effs = anchor_states(d, raw_u, q)
    effs = effs[1:] if d == 2 else effs[:d - 1] + effs[d:]  # d*d-1 effects; with the identity they still span everything
    out, pos = [], 0
    for _ in range(n_anchor_povms(d, m)):
        es = []
        for _ in range(m - 1):
            es.append(effs[pos % len(effs)] / (m - 1))
            pos += 1
        es.append(np.eye(d) - sum(es))
        out.append(es)
    return out


class Model:
    """pure-numpy description of one tomography configuration."""


def build_model(case):
    md = Model()
    md.ttype = case["ttype"]
    md.shape = case["shape"]
    md.flag = bool(case["flag"])
    d = md.d = gen.dim_of(md.shape)
    n2 = md.n2 = d * d
    basis = md.basis = gen.ref_basis(md.shape)
    tmix = case.get("tmix", 0.0)
    md.state_vecs = [obj_stacked(c, basis, tmix) for c in case.get("states", [])]
    md.povm_vecs = [obj_stacked(c, basis, tmix).reshape(c["m"], n2) for c in case.get("povms", [])]
    anc = case["anchor"]
    if md.ttype != "qst":
        a_states = [np.real(rm.vec(basis, r)) for r in anchor_states(d, anc["raw_u"], anc["q"])]
        a_states = [(1 - tmix) * v + tmix * origin_stacked("state", d) for v in a_states]
        md.state_vecs = a_states + md.state_vecs
    if md.ttype != "povmt":
        m = case["m"]
        a_povms = [np.stack([np.real(rm.vec(basis, e)) for e in es]) for es in anchor_povms(d, m, anc["raw_u"], anc["q"])]
        a_povms = [(1 - tmix) * v + tmix * origin_stacked("povm", d, m).reshape(m, n2) for v in a_povms]
        md.povm_vecs = a_povms + md.povm_vecs
    md.true_type = TRUE_TYPE[md.ttype]
    md.true_m = case["true"].get("m")
    md.s_true = obj_stacked(case["true"], basis, case.get("mix", 0.0))
    ns_, np_ = len(md.state_vecs), len(md.povm_vecs)
    if md.ttype == "qst":
        md.schedules = [(None, k) for k in range(np_)]
    elif md.ttype == "povmt":
        md.schedules = [(i, None) for i in range(ns_)]
    else:
        md.schedules = [(i, k) for i in range(ns_) for k in range(np_)]
    md.J = len(md.schedules)
    size = md.s_true.size
    md.P = []
    for (i, k) in md.schedules:
        if md.ttype == "qst":
            pj = md.povm_vecs[k].copy()
        elif md.ttype == "povmt":
            m = md.true_m
            pj = np.zeros((m, size))
            for x in range(m):
                pj[x, x * n2:(x + 1) * n2] = md.state_vecs[i]
        elif md.ttype == "qpt":
            pj = np.stack([np.outer(e, md.state_vecs[i]).reshape(-1) for e in md.povm_vecs[k]])
        else:
            mm = md.true_m
            es = md.povm_vecs[k]
            pj = np.zeros((mm * len(es), size))
            for xm in range(mm):
                for xp, e in enumerate(es):
                    pj[xm * len(es) + xp, xm * n2 * n2:(xm + 1) * n2 * n2] = np.outer(e, md.state_vecs[i]).reshape(-1)
        md.P.append(pj)
    md.K = md.P[0].shape[0]
    md.Pfull = np.vstack(md.P)
    md.p = [pj @ md.s_true for pj in md.P]
    # independent re-derivation of the probabilities (guards the index layout of P; harness self-check)
    for j, (i, k) in enumerate(md.schedules):
        direct = _direct_probs(md, i, k)
        if np.max(np.abs(direct - md.p[j])) > 1e-12:
            raise AssertionError("forward-model self-check failed")
        if abs(md.p[j].sum() - 1) > 1e-11 or md.p[j].min() < -1e-11:
            raise AssertionError(f"generated configuration is not physical: p={md.p[j]!r}")
    md.pmin = min(float(pj.min()) for pj in md.p)
    md.ns = [int(x) for x in case["ns"]][:md.J]
    if len(md.ns) != md.J:
        raise AssertionError("case has too few sample sizes")
    return md


def _direct_probs(md, i, k):
    n2 = md.n2
    s = md.s_true
    if md.ttype == "qst":
        return np.array([float(e @ s) for e in md.povm_vecs[k]])
    if md.ttype == "povmt":
        return np.array([float(s[x * n2:(x + 1) * n2] @ md.state_vecs[i]) for x in range(md.true_m)])
    if md.ttype == "qpt":
        out = s.reshape(n2, n2) @ md.state_vecs[i]
        return np.array([float(e @ out) for e in md.povm_vecs[k]])
    res = []
    for xm in range(md.true_m):
        out = s[xm * n2 * n2:(xm + 1) * n2 * n2].reshape(n2, n2) @ md.state_vecs[i]
        res.extend(float(e @ out) for e in md.povm_vecs[k])
    return np.array(res)


def clipped(p):
    """the exact sampling distribution: rounding-level negatives removed, renormalised."""
    q = np.where(p < 0, 0.0, p)
    return q / q.sum()


# ============================================================================= quara side
class Q:
    pass


def build_quara(case, md):
    from quara.protocol.qtomography.standard.standard_povmt import StandardPovmt
    from quara.protocol.qtomography.standard.standard_qmpt import StandardQmpt
    from quara.protocol.qtomography.standard.standard_qpt import StandardQpt
    from quara.protocol.qtomography.standard.standard_qst import StandardQst

    q = Q()
    c_sys = q.c_sys = build.c_sys_for(md.shape)
    states = [build.make(c_sys, "state", v) for v in md.state_vecs]
    povms = [build.make(c_sys, "povm", v.reshape(-1), m=v.shape[0]) for v in md.povm_vecs]
    flag = md.flag
    if md.ttype == "qst":
        q.qt = StandardQst(povms, on_para_eq_constraint=flag)
    elif md.ttype == "povmt":
        q.qt = StandardPovmt(states, num_outcomes=md.true_m, on_para_eq_constraint=flag)
    elif md.ttype == "qpt":
        q.qt = StandardQpt(states, povms, on_para_eq_constraint=flag)
    else:
        q.qt = StandardQmpt(states, povms, num_outcomes=md.true_m, on_para_eq_constraint=flag)
    q.true = build.make(c_sys, md.true_type, md.s_true, m=md.true_m, on_para_eq_constraint=flag)
    q.cls = type(q.true)
    q.nv = int(q.qt.num_variables)
    return q


def t_map(q, md):
    """(T, t0): stacked = T var + t0, numerically from quara's convert_var_to_stacked_vector."""
    def f(v):
        out = q.cls.convert_var_to_stacked_vector(q.c_sys, np.array(v, dtype=np.float64), on_para_eq_constraint=md.flag)
        return np.array(out, dtype=float).reshape(-1).copy()

    nv = q.nv
    t0 = f(np.zeros(nv))
    cols = []
    for i in range(nv):
        e = np.zeros(nv)
        e[i] = 1.0
        cols.append(f(e) - t0)
    return np.stack(cols, axis=1), t0


def common(case, ctx):
    """model + quara objects + parametrisation, with the precondition oracles shared by all configuration facets."""
    md = build_model(case)
    q = build_quara(case, md)
    ctx.label(md.ttype, md.shape, f"flag:{md.flag}", f"K:{md.K}", "true:" + str(case["true"].get("kind", "generic")))
    ctx.check(q.qt.num_schedules == md.J, "num_schedules", f"{q.qt.num_schedules} != {md.J}")
    T, t0 = t_map(q, md)
    ctx.check(T.shape == (md.s_true.size, q.nv), "T_shape", f"{T.shape}")
    v_true = np.asarray(q.true.to_var(), dtype=float)
    ctx.close(v_true.shape, (q.nv,), 0, "to_var_size")
    ctx.close(T @ v_true + t0, md.s_true, 1e-12, "T_roundtrip")
    ctx.close(np.asarray(q.true.to_stacked_vector(), dtype=float), md.s_true, 1e-12, "true_stacked")
    md.T, md.t0, md.v_true = T, t0, v_true
    md.A = md.Pfull @ T
    md.b = md.Pfull @ t0
    A = np.asarray(q.qt.calc_matA(), dtype=float)
    b = np.asarray(q.qt.calc_vecB(), dtype=float)
    ctx.close(A, md.A, 1e-12, "forward_model:matA")
    ctx.close(b, md.b, 1e-12, "forward_model:vecB")
    sv = np.linalg.svd(md.A, compute_uv=False)
    md.full_rank = bool(md.A.shape[0] >= md.A.shape[1] and sv[-1] > 1e-9 * sv[0])
    md.cond = float(sv[0] / sv[-1]) if sv[-1] > 0 else float("inf")
    md.iso = bool(np.max(np.abs(T.T @ T - np.eye(q.nv))) < 1e-12)
    md.overcomplete = bool(md.A.shape[0] - md.J > md.A.shape[1])
    ctx.label("T:isometric" if md.iso else "T:implied-element")
    if md.pmin < 1e-6:
        ctx.label("boundary-prob")
    ns = md.ns
    md.unequal = len(set(ns)) > 1
    ctx.label("n:unequal" if md.unequal else "n:equal")
    ctx.nontrivial(md.unequal or (not md.iso) or md.pmin < 1e-6 or md.overcomplete)
    return md, q


def oid(md, base):
    """oracle id; the class covered by the known findings C19-F1/F2 gets its own id so that its residuals do not
    pollute the residual statistics of the classes that hold."""
    return base + (":qmpt_constrained" if (md.ttype == "qmpt" and md.flag) else "")


def lin_tol(md, ref, tnorm2=1.0):
    """algebraic x cond(A)^2, plus the footprint of quara's documented 1e-13 probability truncation."""
    pinv_f2 = float(np.sum(md.Apinv ** 2))
    scale = float(np.max(np.abs(ref)))
    return (1e3 * EPS * md.cond ** 2 + 1e-10) * scale + 1e-11 * pinv_f2 * tnorm2


def prepare_linear(md, ctx):
    if not md.full_rank or md.cond > 1e3:
        ctx.skip("ill-conditioned-A")
        return False
    md.Apinv = np.linalg.pinv(md.A)
    return True


# ============================================================================= facet: analytic vs enumeration
def check_analytic_exact(case, ctx):
    md, q = common(case, ctx)
    qt, true, ns = q.qt, q.true, md.ns
    J, K = md.J, md.K

    pd = np.asarray(qt.calc_prob_dists(true), dtype=float)
    ctx.close(pd, np.stack(md.p), 1e-12, "prob_dists")

    # a total calculation for ANOTHER object that fails on its argument list (one sample size missing), caught by the
    # caller: every formula below is still that of `true`
    if reps.pick(repr(md.s_true.tolist()), 2) == 0:
        other = true.generate_origin_obj()
        short = list(ns[:-1]) if J >= 2 else [None]
        ctx.raises((IndexError, TypeError, ValueError), lambda: qt.calc_covariance_mat_total(other, short),
                   "cov_total:rejects_short_sample_size_list")
        ctx.label("after-failed-total-on-another-object")

    covs = []
    for j in range(J):
        _, _, _, cov = exact_moments(clipped(md.p[j]), ns[j])
        covs.append(cov)
        got = qt.calc_covariance_mat_single(true, j, ns[j])
        ctx.close(got, cov, 1e-11, "cov_single")
    V = block_diag(covs)
    ctx.close(qt.calc_covariance_mat_total(true, ns), V, 1e-11, "cov_total")
    ctx.close(qt.calc_mse_empi_dists_analytical(true, ns), float(np.trace(V)), 1e-11 * J, "mse_empi")

    if not prepare_linear(md, ctx):
        return
    Ap = md.Apinv
    cov_lin = Ap @ V @ Ap.T
    got = qt.calc_covariance_linear_mat_total(true, ns)
    ctx.close(got, cov_lin, lin_tol(md, cov_lin), "cov_linear")
    ref_var = float(np.trace(cov_lin))
    ctx.close(qt.calc_mse_linear_analytical(true, ns, mode="var"), ref_var, lin_tol(md, ref_var), "mse_linear_var")
    tn2 = float(np.linalg.norm(md.T, 2) ** 2)
    ref_obj = float(np.trace(md.T @ cov_lin @ md.T.T))
    ctx.close(qt.calc_mse_linear_analytical(true, ns, mode="qoperation"), ref_obj, lin_tol(md, ref_obj, tn2),
              oid(md, "mse_linear_qoperation"))
    ctx.close(qt.calc_mse_linear_analytical(true, ns), ref_obj, lin_tol(md, ref_obj, tn2),
              oid(md, "mse_linear_qoperation:default_mode"))
    ctx.raises(ValueError, lambda: qt.calc_mse_linear_analytical(true, ns, mode="object"), "mse_linear:rejects_unknown_mode")


# ============================================================================= facet: end to end through LinearEstimator
def _estimate_stacked(q, empi_seq):
    from quara.protocol.qtomography.standard.linear_estimator import LinearEstimator

    res = LinearEstimator().calc_estimate_sequence(q.qt, empi_seq)
    vs = [np.asarray(v, dtype=float) for v in res.estimated_var_sequence]
    ss = [np.asarray(o.to_stacked_vector(), dtype=float) for o in res.estimated_qoperation_sequence]
    return vs, ss


def check_joint(case, ctx):
    md, q = common(case, ctx)
    qt, true, ns = q.qt, q.true, md.ns
    J, K = md.J, md.K
    if not prepare_linear(md, ctx):
        return
    ps = [clipped(p) for p in md.p]
    moments = [exact_moments(ps[j], ns[j]) for j in range(J)]
    tn2 = float(np.linalg.norm(md.T, 2) ** 2)
    got_var = float(qt.calc_mse_linear_analytical(true, ns, mode="var"))
    got_obj = float(qt.calc_mse_linear_analytical(true, ns, mode="qoperation"))

    # ---- (a) coordinate probing of the real estimator: est(f) is affine in f
    base = [(ns[j], ps[j].copy()) for j in range(J)]
    seq = [base]
    for j in range(J):
        for x in range(K):
            fj = ps[j].copy()
            fj[x] += 1.0
            seq.append([(ns[jj], fj if jj == j else ps[jj].copy()) for jj in range(J)])
    alpha = np.asarray(case["alpha"], dtype=float)[: J * K]
    comb = [(ns[j], ps[j] + alpha[j * K:(j + 1) * K]) for j in range(J)]
    seq.append(comb)
    vs, ss = _estimate_stacked(q, seq)
    ctx.check(all(v.shape == (q.nv,) for v in vs) and all(s.shape == md.s_true.shape for s in ss), "estimate_shapes")
    Mv = np.stack([vs[1 + i] - vs[0] for i in range(J * K)], axis=1)
    Ms = np.stack([ss[1 + i] - ss[0] for i in range(J * K)], axis=1)
    aff_tol = 1e3 * EPS * md.cond ** 2 * (1 + float(np.max(np.abs(Ms)))) * J * K + 1e-11
    ctx.close(vs[-1], vs[0] + Mv @ alpha, aff_tol, "estimator_affine:var")
    ctx.close(ss[-1], ss[0] + Ms @ alpha, aff_tol, "estimator_affine:stacked")
    bias_v = float(np.sum((vs[0] - md.v_true) ** 2))
    bias_s = float(np.sum((ss[0] - md.s_true) ** 2))
    ex_var, ex_obj = bias_v, bias_s
    for j in range(J):
        cov = moments[j][3]
        mvj = Mv[:, j * K:(j + 1) * K]
        msj = Ms[:, j * K:(j + 1) * K]
        ex_var += float(np.trace(mvj @ cov @ mvj.T))
        ex_obj += float(np.trace(msj @ cov @ msj.T))
    ctx.close(got_var, ex_var, lin_tol(md, ex_var), "mse_linear_var:probe")
    ctx.close(got_obj, ex_obj, lin_tol(md, ex_obj, tn2), oid(md, "mse_linear_qoperation:probe"))

    # ---- (b) complete joint enumeration (tiny configurations only)
    total = 1
    for j in range(J):
        total *= len(moments[j][0])
    if total > case.get("joint_cap", 1500):
        ctx.label("joint:probe-only")
        return
    ctx.label("joint:enumerated")
    seq, wts = [], []
    for idx in itertools.product(*[range(len(moments[j][0])) for j in range(J)]):
        w = 1.0
        for j, i in enumerate(idx):
            w *= moments[j][0][i]
        if w == 0.0:
            continue
        wts.append(w)
        seq.append([(ns[j], moments[j][1][i].copy()) for j, i in enumerate(idx)])
    wts = np.asarray(wts)
    vs, ss = _estimate_stacked(q, seq)
    e_var = float(sum(w * np.sum((v - md.v_true) ** 2) for w, v in zip(wts, vs)))
    e_obj = float(sum(w * np.sum((s - md.s_true) ** 2) for w, s in zip(wts, ss)))
    ctx.close(got_var, e_var, lin_tol(md, e_var), "mse_linear_var:joint")
    ctx.close(got_obj, e_obj, lin_tol(md, e_obj, tn2), oid(md, "mse_linear_qoperation:joint"))
    # empirical-distribution MSE through the library's own sample statistic on the complete population
    e_empi = float(sum(w * sum(np.sum((f - ps[j]) ** 2) for j, (_, f) in enumerate(e)) for w, e in zip(wts, seq)))
    ctx.close(qt.calc_mse_empi_dists_analytical(true, ns), e_empi, 1e-11 * J, "mse_empi:joint")


# ============================================================================= facet: 1/n scaling, closed form at large n
def check_scaling(case, ctx):
    md, q = common(case, ctx)
    qt, true = q.qt, q.true
    J = md.J
    ns = md.ns
    c = int(case["factor"])
    big = [int(n * c) for n in ns]
    V1 = np.asarray(qt.calc_covariance_mat_total(true, ns), dtype=float)
    V2 = np.asarray(qt.calc_covariance_mat_total(true, big), dtype=float)
    ctx.close(V2 * c, V1, 1e-12, "scaling:cov_total")
    e1 = float(qt.calc_mse_empi_dists_analytical(true, ns))
    e2 = float(qt.calc_mse_empi_dists_analytical(true, big))
    ctx.close(e2 * c, e1, 1e-12 * J, "scaling:mse_empi")
    # closed form (textbook multinomial covariance) at sizes beyond enumeration
    Vc = block_diag([closed_cov(clipped(md.p[j]), big[j]) for j in range(J)])
    vmax = float(np.max(np.abs(Vc)))
    ctx.close(V2, Vc, 1e-11 / c + min(1e-15, 1e-6 * vmax), "closed_form:cov_total")
    ctx.close(e2, float(np.trace(Vc)), (1e-11 / c + min(1e-15, 1e-6 * vmax)) * J, "closed_form:mse_empi")
    if not prepare_linear(md, ctx):
        return
    tn2 = float(np.linalg.norm(md.T, 2) ** 2)
    for mode, Tm in (("var", np.eye(q.nv)), ("qoperation", md.T)):
        m1 = float(qt.calc_mse_linear_analytical(true, ns, mode=mode))
        m2 = float(qt.calc_mse_linear_analytical(true, big, mode=mode))
        ctx.close(m2 * c, m1, 1e-11 * abs(m1) + 1e-13 * float(np.sum(md.Apinv ** 2)) * tn2, f"scaling:mse_linear_{mode}")
        ref = float(np.trace(Tm @ md.Apinv @ Vc @ md.Apinv.T @ Tm.T))
        name = f"mse_linear_{mode}:closed_form"
        ctx.close(m2, ref, lin_tol(md, ref, tn2) / c + 1e-300, oid(md, name) if mode == "qoperation" else name)
    if md.pmin >= 1e-4:
        N = int(case["N"])
        c1 = float(qt.calc_cramer_rao_bound(true, N, ns))
        c2 = float(qt.calc_cramer_rao_bound(true, N, big))
        c3 = float(qt.calc_cramer_rao_bound(true, N * c, big))
        ctx.close(c2 * c, c1, 1e-9 * abs(c1), "scaling:crb")
        ctx.close(c3, c2, 1e-9 * abs(c2), "crb_independent_of_N")
        ctx.label("scaling:crb-checked")


# ============================================================================= facet: Fisher matrix and Cramer-Rao bound
def check_fisher_crb(case, ctx):
    md, q = common(case, ctx)
    qt, true, ns = q.qt, q.true, md.ns
    J, K = md.J, md.K
    if md.pmin < 1e-4:
        ctx.skip("prob-below-1e-4")
        return
    Fs = []
    for j in range(J):
        Aj = md.A[j * K:(j + 1) * K]
        pj = md.p[j]
        F = sum(np.outer(Aj[x], Aj[x]) / pj[x] for x in range(K))
        Fs.append(F)
        tol = 1e-10 * float(np.max(np.abs(F))) + 1e-13
        ctx.close(qt.calc_fisher_matrix(j, md.v_true.copy()), F, tol, "fisher:var_array")
        ctx.close(qt.calc_fisher_matrix(j, true), F, tol, "fisher:qoperation")
    weights = [float(w) for w in case["weights"]][:J]
    Fw = sum(w * F for w, F in zip(weights, Fs))
    ctx.close(qt.calc_fisher_matrix_total(md.v_true.copy(), weights), Fw, 1e-10 * float(np.max(np.abs(Fw))) + 1e-13,
              "fisher_total")
    if not prepare_linear(md, ctx):
        return
    Ftot = sum(n * F for n, F in zip(ns, Fs))
    condF = float(np.linalg.cond(Ftot))
    if not np.isfinite(condF) or condF > 1e9:
        ctx.skip("ill-conditioned-F")
        return
    Finv = np.linalg.inv(Ftot)
    crb_var = float(np.trace(Finv))
    crb_obj = float(np.trace(md.T @ Finv @ md.T.T))
    N = int(case["N"])
    got = float(qt.calc_cramer_rao_bound(true, N, ns))
    got_arr = float(qt.calc_cramer_rao_bound(md.v_true.copy(), N, ns))
    tol = (1e3 * EPS * condF + 1e-9) * abs(crb_obj)
    ctx.close(got, crb_obj, tol, oid(md, "crb_value"))
    ctx.close(got_arr, crb_obj, tol, oid(md, "crb_value:var_array"))
    # Cramer-Rao inequality (constrained flag: normalised family, unbiased linear estimator)
    if md.flag:
        V = block_diag([closed_cov(md.p[j], ns[j]) for j in range(J)])
        ref_var = float(np.trace(md.Apinv @ V @ md.Apinv.T))
        if crb_var > ref_var * (1 + 1e-7):  # theorem about the oracle itself
            raise AssertionError(f"oracle self-check: CRB {crb_var} > linear MSE {ref_var}")
        mse_q = float(qt.calc_mse_linear_analytical(true, ns, mode="qoperation"))
        ctx.leq(got, mse_q, 1e-7 * abs(mse_q), "crb_leq_mse_linear")
        ctx.label("crb-inequality-checked")


# ============================================================================= facet: helpers vs numpy
def _arrs(list_of_lists):
    return [np.asarray(a, dtype=float) for a in list_of_lists]


def check_helpers(case, ctx):
    from quara.utils import matrix_util as mu

    kind = case["kind"]
    ctx.label(kind)
    if kind == "se":
        xs_list = [_arrs(xs) for xs in case["xs_list"]]
        ys_list = [_arrs(ys) for ys in case["ys_list"]]
        ses = []
        for xs, ys in zip(xs_list, ys_list):
            ref = float(sum(np.sum((x - y) ** 2) for x, y in zip(xs, ys)))
            ses.append(ref)
            ctx.close(mu.calc_se(xs, ys), ref, 1e-12 * (1 + ref), "calc_se")
        got = mu.calc_mse_prob_dists(xs_list, ys_list)
        ctx.check(isinstance(got, tuple) and len(got) == 2, "calc_mse_prob_dists:returns_pair")
        mean = float(np.sum(ses) / len(ses))
        std = float(math.sqrt(sum((s - mean) ** 2 for s in ses) / (len(ses) - 1)))
        sc = 1 + max(ses)
        ctx.close(got[0], mean, 1e-12 * sc, "calc_mse_prob_dists:mean")
        ctx.close(got[1], std, 1e-11 * sc, "calc_mse_prob_dists:std_ddof1")
        ctx.nontrivial(len(ses) >= 3 and max(ses) > 0)
        return
    if kind == "cov":
        from quara.data_analysis import data_analysis as da

        dists = [clipped(np.asarray(p, dtype=float)) for p in case["dists"]]
        nums = [int(n) for n in case["nums"]][: len(dists)]
        refs = []
        for p, n in zip(dists, nums):
            ref = closed_cov(p, n)
            if n_outcomes_enum(n, len(p)) <= MAX_ENUM and n <= 8:
                ref = exact_moments(p, n)[3]
                ctx.label("cov:enumerated")
            refs.append(ref)
            ctx.close(mu.calc_covariance_mat(p, n), ref, 1e-12, "calc_covariance_mat")
            ctx.close(da.calc_covariance_matrix_of_prob_dist(p, n), ref, 1e-12, "calc_covariance_matrix_of_prob_dist")
        ctx.close(mu.calc_covariance_mat_total(list(zip(nums, dists))), block_diag(refs), 1e-12, "calc_covariance_mat_total")
        n0 = nums[0]
        same = block_diag([closed_cov(p, n0) for p in dists])
        ctx.close(da.calc_covariance_matrix_of_prob_dists(dists, n0), same, 1e-12, "calc_covariance_matrix_of_prob_dists")
        ctx.nontrivial(len(dists) >= 2)
        return
    if kind == "direct_sum":
        mats = [np.asarray(m, dtype=float) for m in case["mats"]]
        ctx.close(mu.calc_direct_sum(mats), block_diag(mats), 0.0, "calc_direct_sum")
        if len(mats) >= 2:
            # the same direct sum with an integer-valued first block handed over with an integer dtype (an identity, a
            # covariance of a deterministic distribution): the blocks after it keep their fractional parts
            lead = np.eye(mats[0].shape[0], dtype=np.int64)
            got_i = mu.calc_direct_sum([lead] + [m.copy() for m in mats[1:]])
            ctx.close(np.asarray(got_i, dtype=float), block_diag([lead.astype(float)] + mats[1:]), 0.0, "calc_direct_sum:integer_first_block")
        x = np.asarray(case["x"], dtype=float)
        v = block_diag(mats)
        x = x[:, : v.shape[0]]
        ref = x @ v @ x.T
        ctx.close(mu.calc_conjugate(x, v), ref, 1e-12 * (1 + float(np.max(np.abs(ref)))), "calc_conjugate")
        ctx.nontrivial(len(mats) >= 2)
        return
    if kind == "direct_sum_reject":
        bad = case["bad"]
        mats = [np.eye(2), None, np.eye(1)]
        if bad == "ndim1":
            mats[1] = np.ones(3)
        elif bad == "ndim3":
            mats[1] = np.ones((2, 2, 2))
        else:
            r, c = case["rc"]
            mats[1] = np.ones((r, c))
            ctx.label(f"nonsquare:{'col' if c == 1 else 'row' if r == 1 else 'other'}")
        ctx.raises(ValueError, lambda: mu.calc_direct_sum(mats), f"calc_direct_sum:rejects_{'ndim' if bad != 'nonsquare' else 'nonsquare'}")
        ctx.nontrivial(True)
        return
    if kind == "left_inv":
        # entries quantised to multiples of 2^-12 (no denormal-scale inputs: A^T A must not under/overflow)
        a = np.round(np.asarray(case["a"], dtype=float) * 4096.0) / 4096.0
        sv = np.linalg.svd(a, compute_uv=False)
        if sv[0] < 1e-2 or sv[-1] < 1e-3 * sv[0] or a.shape[0] < a.shape[1]:
            ctx.skip("ill-conditioned")
            return
        cond = float(sv[0] / sv[-1])
        li = np.asarray(mu.calc_left_inv(a), dtype=float)
        ctx.check(li.shape == (a.shape[1], a.shape[0]), "calc_left_inv:shape", str(li.shape))
        ctx.close(li @ a, np.eye(a.shape[1]), 1e3 * EPS * cond ** 2 * a.shape[0], "calc_left_inv:identity")
        ctx.close(li, np.linalg.pinv(a), 1e3 * EPS * cond ** 2 * a.shape[0] / sv[-1], "calc_left_inv:is_pinv")
        ctx.nontrivial(a.shape[0] > a.shape[1])
        return
    if kind == "left_inv_reject":
        a = np.asarray(case["a"], dtype=float)  # small integers
        col = int(case["dup"]) % a.shape[1]
        src = (col + 1) % a.shape[1]
        a[:, col] = int(case["mult"]) * a[:, src]  # exact linear dependence
        ctx.raises(ValueError, lambda: mu.calc_left_inv(a), "calc_left_inv:rejects_rank_deficient")
        ctx.nontrivial(True)
        return
    if kind == "fisher":
        p = clipped(np.asarray(case["p"], dtype=float))
        k = len(p)
        g = np.asarray(case["grad"], dtype=float)[:k]
        ref = sum(np.outer(g[x], g[x]) / p[x] for x in range(k))
        tol = 1e-11 * (1 + float(np.max(np.abs(ref))))
        ctx.close(mu.calc_fisher_matrix(p, [row for row in g]), ref, tol, "mu.calc_fisher_matrix")
        ctx.close(mu.calc_fisher_matrix(p, g), ref, tol, "mu.calc_fisher_matrix:array_grad")
        p2 = clipped(np.asarray(case["p2"], dtype=float))
        g2 = np.asarray(case["grad2"], dtype=float)[:k]
        ref2 = sum(np.outer(g2[x], g2[x]) / p2[x] for x in range(k))
        w = [float(x) for x in case["weights"]]
        tot = w[0] * ref + w[1] * ref2
        ctx.label("fisher:K==nv" if k == g.shape[1] else "fisher:K!=nv")
        try:
            got_tot = mu.calc_fisher_matrix_total([p, p2], [g, g2], w)
        except ValueError as e:  # reported under the value oracle so that one known-finding predicate covers both symptoms
            ctx.fail("mu.calc_fisher_matrix_total", f"in-domain input raised ValueError: {e}")
        else:
            ctx.close(got_tot, tot, 1e-11 * (1 + float(np.max(np.abs(tot)))), "mu.calc_fisher_matrix_total")
        # exact zeros and a caller-chosen eps: the documented replacement (entries below eps become eps, the others give up
        # that mass in equal shares) is applied with THAT eps, per schedule, in the total as well
        if "zero" in case:
            eps_arg = case.get("eps")
            e_eff = 1e-8 if eps_arg is None else float(eps_arg)

            def zeroed(q, mask):
                q = np.where(np.asarray(mask[: len(q)], dtype=bool), 0.0, q)
                return q / q.sum()

            def replaced(q):
                small = q < e_eff
                cnt = int(np.count_nonzero(small))
                return np.where(small, e_eff, q - e_eff * cnt / (len(q) - cnt))

            pz, pz2 = zeroed(p, case["zero"]), zeroed(p2, case["zero"][::-1][1:] + [False])
            rz, rz2 = replaced(pz), replaced(pz2)
            fz = sum(np.outer(g[x], g[x]) / rz[x] for x in range(k))
            fz2 = sum(np.outer(g2[x], g2[x]) / rz2[x] for x in range(k))
            kw = {} if eps_arg is None else {"eps": e_eff}
            n_zero = int(np.count_nonzero(pz == 0) + np.count_nonzero(pz2 == 0))
            ctx.label("fisher:zero-probability" if n_zero else "fisher:no-zero",
                      "fisher:eps-default" if eps_arg is None else f"fisher:eps={e_eff:g}")
            ctx.close(mu.calc_fisher_matrix(pz, g, **kw), fz, 1e-10 * (1 + float(np.max(np.abs(fz)))),
                      "mu.calc_fisher_matrix:zero_probability_with_eps")
            totz = w[0] * fz + w[1] * fz2
            ctx.close(mu.calc_fisher_matrix_total([pz, pz2], [g, g2], w, **kw), totz,
                      1e-10 * (1 + float(np.max(np.abs(totz)))), "mu.calc_fisher_matrix_total:zero_probability_with_eps")
        # documented rejections
        bad = p.copy()
        bad[0] -= 0.5
        bad[1] += 0.5
        if bad[0] < -1e-6:
            ctx.raises(ValueError, lambda: mu.calc_fisher_matrix(bad, g), "mu.calc_fisher_matrix:rejects_negative")
        ctx.raises(ValueError, lambda: mu.calc_fisher_matrix(p * 0.9, g), "mu.calc_fisher_matrix:rejects_sum")
        ctx.raises(ValueError, lambda: mu.calc_fisher_matrix(p, g[:-1]), "mu.calc_fisher_matrix:rejects_size")
        ctx.raises(ValueError, lambda: mu.calc_fisher_matrix(p, g, eps=-1e-8), "mu.calc_fisher_matrix:rejects_eps")
        ctx.raises(ValueError, lambda: mu.calc_fisher_matrix_total([p, p2], [g, g2], [w[0], -1.0]),
                   "mu.calc_fisher_matrix_total:rejects_negative_weight")
        ctx.nontrivial(True)
        return
    if kind == "replace":
        p = np.asarray(case["p"], dtype=float)
        eps = float(case["eps"])
        got = np.asarray(mu.replace_prob_dist(p.copy(), eps), dtype=float)
        small = p < eps
        cnt = int(small.sum())
        ref = np.where(small, eps, p - (eps * cnt / max(1, len(p) - cnt)))
        ctx.close(got, ref, 1e-15, "replace_prob_dist:definition")
        ctx.check(bool(np.all(got[small] == eps)), "replace_prob_dist:small_entries_become_eps")
        ctx.check(bool(np.all(got > 0)), "replace_prob_dist:positive", str(got))
        ctx.close(got.sum(), 1.0, cnt * eps + 1e-12, "replace_prob_dist:mass_kept_within_count_eps")
        if eps == 1e-8:
            ctx.close(np.asarray(mu.replace_prob_dist(p.copy())), got, 0.0, "replace_prob_dist:default_eps")
        ctx.nontrivial(cnt >= 1)
        return
    if kind == "general_norm":
        from quara.data_analysis import data_analysis as da

        xs = _arrs(case["xs"])
        y = np.asarray(case["y"], dtype=float)
        which = case["norm"]
        if which == "l2":
            fn = lambda a, b: np.linalg.norm(a - b)  # noqa: E731
            ref = float(np.mean([np.sum((x - y) ** 2) for x in xs]))
        elif which == "l1":
            fn = lambda a, b: np.sum(np.abs(a - b))  # noqa: E731
            ref = float(np.mean([np.sum(np.abs(x - y)) ** 2 for x in xs]))
        else:
            fn = lambda a, b: np.max(np.abs(a - b))  # noqa: E731
            ref = float(np.mean([np.max(np.abs(x - y)) ** 2 for x in xs]))
        ctx.close(da.calc_mse_general_norm(xs, y, fn), ref, 1e-12 * (1 + ref), "calc_mse_general_norm")
        ctx.nontrivial(len(xs) >= 3)
        return
    if kind == "mse_qoperations":
        from quara.data_analysis import data_analysis as da

        objs = case["objs"]
        shape = objs[0]["shape"]
        basis = gen.ref_basis(shape)
        c_sys = build.c_sys_for(shape)
        flag = bool(case["flag"])
        stacked = [obj_stacked(o, basis) for o in objs]
        qs = [build.make(c_sys, o["type"], s, m=o.get("m"), on_para_eq_constraint=flag) for o, s in zip(objs, stacked)]
        xs, x_s = qs[1:], stacked[1:]
        pts = [float(np.sum((s - stacked[0]) ** 2)) for s in x_s]
        mean = float(np.mean(pts))
        std = float(math.sqrt(sum((t - mean) ** 2 for t in pts) / (len(pts) - 1)))
        got = da.calc_mse_qoperations(xs, [qs[0]] * len(xs))
        ctx.check(isinstance(got, tuple) and len(got) == 2, "calc_mse_qoperations:returns_pair")
        ctx.close(got[0], mean, 1e-12 * (1 + mean), "calc_mse_qoperations:mean")
        ctx.close(got[1], std, 1e-11 * (1 + mean), "calc_mse_qoperations:std_ddof1")
        got2 = da.calc_mse_qoperations(xs, [qs[0]] * len(xs), mode="qoperation", with_std=False)
        ctx.close(got2, mean, 1e-12 * (1 + mean), "calc_mse_qoperations:no_std")
        ctx.raises(ValueError, lambda: da.calc_mse_qoperations(xs, [qs[0]] * len(xs), mode="object"),
                   "calc_mse_qoperations:rejects_unknown_mode")
        # paired references (a different reference per estimate): squared distance of each pair, and zero for a list
        # compared with itself
        ys = qs[:-1]
        pts2 = [float(np.sum((a - b) ** 2)) for a, b in zip(x_s, stacked[:-1])]
        mean2 = float(np.mean(pts2))
        std2 = float(math.sqrt(sum((t - mean2) ** 2 for t in pts2) / (len(pts2) - 1)))
        got3 = da.calc_mse_qoperations(xs, ys)
        ctx.close(got3[0], mean2, 1e-12 * (1 + mean2), "calc_mse_qoperations:paired:mean")
        ctx.close(got3[1], std2, 1e-11 * (1 + mean2), "calc_mse_qoperations:paired:std_ddof1")
        got4 = da.calc_mse_qoperations(xs, xs, with_std=False)
        ctx.close(got4, 0.0, 1e-15, "calc_mse_qoperations:list_with_itself_is_zero")
        ctx.label(objs[0]["type"], f"flag:{flag}")
        ctx.nontrivial(len(xs) >= 3)
        return
    raise AssertionError(kind)


# ============================================================================= strategies
def tester_state(shape):
    d = gen.dim_of(shape)

    @st.composite
    def s(draw):
        kind = draw(st.sampled_from(["generic", "generic", "pure"]))
        c = {"type": "state", "shape": shape, "kind": kind, "raw_u": draw(gen.raw(2 * d * d)), "raw_p": draw(gen.raw(d))}
        if kind == "pure":
            c["zero_mask"] = [False] + [True] * (d - 1)
        return c

    return s()


def tester_povm(shape, m):
    d = gen.dim_of(shape)

    @st.composite
    def s(draw):
        kinds = ["naimark", "naimark"]
        if m >= d:
            kinds.append("rank1")
        if m <= d:
            kinds.append("projective")
        kind = draw(st.sampled_from(kinds))
        c = {"type": "povm", "shape": shape, "m": m, "kind": kind}
        if kind == "naimark":
            c["raw"] = draw(gen.raw(2 * d * m * d))
        elif kind == "rank1":
            c["raw"] = draw(gen.raw(2 * m * d))
        else:
            c["raw"] = draw(gen.raw(2 * d * d))
        return c

    return s()


def _fixed_list(draw, strat, n):
    return [draw(strat) for _ in range(n)]


@st.composite
def config_case(draw, tier, ttypes=TTYPES, tiny=False, mixed=None, nmax=8):
    """testers = an informationally complete anchor frame (rotated by a drawn unitary, depolarised by a drawn q: full rank
    and cond(A) <= ~1e3 by construction) + 0..2 freely generated extra testers of every kind."""
    ttype = draw(st.sampled_from(list(ttypes)))
    if tiny:
        shape = "1q"
    elif ttype in ("qst", "povmt"):
        shape = draw(st.sampled_from(["1q", "1q", "1q", "qutrit"] if tier == "quick" else ["1q", "1q", "qutrit"]))
    else:
        shape = "1q"
    d = gen.dim_of(shape)
    flag = draw(st.booleans())
    m = draw(st.integers(3, 4) if (tiny and ttype == "qst") else st.integers(2, 3) if tiny else st.integers(2, 4))
    case = {"ttype": ttype, "shape": shape, "flag": flag, "m": m,
            "anchor": {"raw_u": draw(gen.raw(2 * d * d)), "q": draw(st.sampled_from([0.0, 0.0, 0.1, 0.3, 0.5]))}}
    x_states = 0 if tiny else draw(st.integers(0, 2 if ttype == "povmt" else 1))
    x_povms = 0 if tiny else draw(st.integers(0, 2 if ttype == "qst" else 1))
    n_states = d * d + x_states
    n_povms = n_anchor_povms(d, m) + x_povms
    if ttype == "qst":
        case["povms"] = _fixed_list(draw, tester_povm(shape, m), x_povms)
        case["true"] = draw(gen.state_case((shape,)))
        K, J = m, n_povms
    elif ttype == "povmt":
        case["states"] = _fixed_list(draw, tester_state(shape), x_states)
        case["true"] = draw(gen.povm_case((shape,), (m, m)))
        K, J = m, n_states
    elif ttype == "qpt":
        case["states"] = _fixed_list(draw, tester_state(shape), x_states)
        case["povms"] = _fixed_list(draw, tester_povm(shape, m), x_povms)
        case["true"] = draw(gen.gate_case((shape,)))
        K, J = m, n_states * n_povms
    else:
        mm = draw(st.integers(2, 3))
        case["states"] = _fixed_list(draw, tester_state(shape), x_states)
        case["povms"] = _fixed_list(draw, tester_povm(shape, m), x_povms)
        case["true"] = draw(gen.mprocess_case((shape,), (mm, mm)))
        K, J = m * mm, n_states * n_povms
    top = min(nmax, nmax_for(K))
    if tiny:
        # keep the joint outcome space <= ~1500
        top = 1
        while top < 4 and n_outcomes_enum(top + 1, K) ** J <= 1500:
            top += 1
    if draw(st.integers(0, 2)) == 0:
        case["ns"] = [draw(st.integers(1, top))] * J
    else:
        case["ns"] = [draw(st.integers(1, top)) for _ in range(J)]
    use_mix = draw(st.booleans()) if mixed is None else mixed
    if use_mix:
        case["mix"] = draw(st.floats(0.2, 0.7))
        case["tmix"] = draw(st.floats(0.2, 0.5))
    return case, J, K


@st.composite
def exact_case(draw, tier):
    case, _, _ = draw(config_case(tier))
    return case


@st.composite
def joint_case(draw, tier):
    tiny = draw(st.booleans())
    if tiny:
        case, J, K = draw(config_case(tier, ttypes=("qst", "povmt"), tiny=True))
    else:
        case, J, K = draw(config_case(tier, ttypes=("qpt", "qmpt", "qmpt", "povmt", "qst"), nmax=5))
    case["alpha"] = draw(gen.raw(J * K))
    return case


@st.composite
def scaling_case(draw, tier):
    case, J, K = draw(config_case(tier))
    # (up to 1e15: sample sizes at which variances fall below any absolute clean-up threshold a routine might apply)
    case["factor"] = draw(st.sampled_from([2, 3, 7, 10, 100, 1000, 12345, 10 ** 6, 10 ** 10, 10 ** 13, 10 ** 15]))
    case["N"] = draw(st.integers(1, 1000))
    return case


@st.composite
def fisher_case(draw, tier):
    case, J, K = draw(config_case(tier, mixed=True))
    if draw(st.booleans()):  # large, unequal sample sizes: the closed form has no size limit
        case["ns"] = [draw(st.integers(1, 10 ** 5)) for _ in range(J)]
    case["weights"] = [draw(st.floats(0.0, 10.0)) for _ in range(J)]
    case["N"] = draw(st.integers(1, 10 ** 4))
    return case


def _prob(k):
    return gen.raw(k, 0.0, 1.0).map(lambda v: [float(x) + 1e-3 for x in v]).map(lambda v: [x / sum(v) for x in v])


@st.composite
def helper_case(draw, tier):
    kind = draw(st.sampled_from(["se", "cov", "direct_sum", "direct_sum_reject", "left_inv", "left_inv_reject", "fisher",
                                 "replace", "general_norm", "mse_qoperations"]))
    c = {"kind": kind}
    if kind == "se":
        reps = draw(st.integers(2, 5))
        nvec = draw(st.integers(1, 4))
        size = draw(st.integers(1, 5))
        c["xs_list"] = [[draw(gen.raw(size, -10, 10)) for _ in range(nvec)] for _ in range(reps)]
        c["ys_list"] = [[draw(gen.raw(size, -10, 10)) for _ in range(nvec)] for _ in range(reps)]
    elif kind == "cov":
        k = draw(st.integers(2, 5))
        nb = draw(st.integers(1, 4))
        c["dists"] = [draw(_prob(k)) for _ in range(nb)]
        c["nums"] = [draw(st.one_of(st.integers(1, 8), st.integers(9, 10 ** 6))) for _ in range(nb)]
    elif kind == "direct_sum":
        nb = draw(st.integers(1, 4))
        sizes = [draw(st.integers(1, 4)) for _ in range(nb)]
        c["mats"] = [[draw(gen.raw(s, -10, 10)) for _ in range(s)] for s in sizes]
        rows = draw(st.integers(1, 4))
        c["x"] = [draw(gen.raw(16, -3, 3)) for _ in range(rows)]
    elif kind == "direct_sum_reject":
        c["bad"] = draw(st.sampled_from(["ndim1", "ndim3", "nonsquare", "nonsquare", "nonsquare"]))
        r = draw(st.integers(1, 4))
        cc = draw(st.integers(1, 4).filter(lambda v: v != r))
        c["rc"] = [r, cc]
    elif kind == "left_inv":
        cols = draw(st.integers(1, 5))
        rows = cols + draw(st.integers(0, 5))
        c["a"] = [draw(gen.raw(cols, -2, 2)) for _ in range(rows)]
    elif kind == "left_inv_reject":
        cols = draw(st.integers(2, 5))
        rows = cols + draw(st.integers(0, 4))
        c["a"] = [[float(draw(st.integers(-3, 3))) for _ in range(cols)] for _ in range(rows)]
        c["dup"] = draw(st.integers(0, 4))
        c["mult"] = draw(st.sampled_from([1, -1, 2, 0]))
    elif kind == "fisher":
        k = draw(st.integers(2, 5))
        nv = draw(st.integers(1, 5))
        c["p"] = draw(_prob(k))
        c["p2"] = draw(_prob(k))
        c["grad"] = [draw(gen.raw(nv, -2, 2)) for _ in range(k)]
        c["grad2"] = [draw(gen.raw(nv, -2, 2)) for _ in range(k)]
        c["weights"] = [draw(st.floats(0, 5)), draw(st.floats(0, 5))]
        # outcomes of probability exactly zero (a pure state measured in its eigenbasis) with the caller's own eps
        c["zero"] = [draw(st.booleans()) and draw(st.booleans()) for _ in range(k - 1)] + [False]
        c["eps"] = draw(st.sampled_from([None, None, 1e-8, 1e-6, 1e-4, 1e-10]))
    elif kind == "replace":
        k = draw(st.integers(2, 6))
        eps = draw(st.sampled_from([1e-8, 1e-8, 1e-6, 1e-10]))
        nsmall = draw(st.integers(0, k - 1))
        small = [draw(st.floats(0.0, 0.99)) * eps for _ in range(nsmall)]
        rest = draw(_prob(k - nsmall))
        mass = 1.0 - sum(small)
        c["p"] = small + [x * mass for x in rest]
        c["eps"] = eps
    elif kind == "general_norm":
        size = draw(st.integers(1, 6))
        c["xs"] = [draw(gen.raw(size, -10, 10)) for _ in range(draw(st.integers(1, 5)))]
        c["y"] = draw(gen.raw(size, -10, 10))
        c["norm"] = draw(st.sampled_from(["l2", "l1", "max"]))
    else:
        typ = draw(st.sampled_from(["state", "povm", "gate", "mprocess"]))
        shape = draw(st.sampled_from(["1q", "qutrit"] if typ in ("state", "povm") else ["1q"]))
        k = draw(st.integers(3, 5))
        m = draw(st.integers(2, 3))
        if typ == "state":
            strat = gen.state_case((shape,))
        elif typ == "povm":
            strat = gen.povm_case((shape,), (m, m))
        elif typ == "gate":
            strat = gen.gate_case((shape,))
        else:
            strat = gen.mprocess_case((shape,), (m, m))
        c["objs"] = [draw(strat) for _ in range(k)]
        c["flag"] = draw(st.booleans())
    return c


# ============================================================================= known-finding predicates
def is_qmpt_constrained(case):
    """C19-F1/F2: StandardQmpt under on_para_eq_constraint=True (implied first row of the last HS)."""
    return case.get("ttype") == "qmpt" and bool(case.get("flag"))


def is_fisher_total_nonsquare(case):
    """C19-F3: matrix_util.calc_fisher_matrix_total sizes its accumulator by the number of outcomes, not of variables."""
    return case.get("kind") == "fisher" and len(case["p"]) != len(case["grad"][0])


def is_direct_sum_column_block(case):
    """C19-F3: a k x 1 block (k >= 2) broadcasts silently instead of raising the documented ValueError."""
    return (case.get("kind") == "direct_sum_reject" and case.get("bad") == "nonsquare"
            and case["rc"][1] == 1 and case["rc"][0] >= 2)


# ============================================================================= facet: mse_verdicts (the yardstick as it is applied)
OK_FACTORS = [[0.5, 1.5, 0.8, 1.2], [0.7, 1.3, 1.1, 0.9], [1.4, 0.6, 1.0, 1.0]]
NG_FACTORS = [[30.0, 31.0, 29.0, 30.5], [0.01, 0.012, 0.011, 0.009], [8.0, 8.5, 7.5, 8.2]]


@st.composite
def verdict_mse_case(draw, tier):
    k = draw(st.integers(1, 3))
    return {
        "f": "mse_verdicts",
        "bloch": [draw(st.floats(-0.5, 0.5, allow_nan=False)) for _ in range(3)],
        "flag": draw(st.booleans()),
        "num_data": draw(st.lists(st.sampled_from([100, 1000, 10000, 100000]), min_size=k, max_size=k, unique=True)),
        "agree": [draw(st.booleans()) for _ in range(k)],
        "pattern": [draw(st.integers(0, 2)) for _ in range(k)],
        "n_rep": draw(st.integers(3, 4)),
    }


def check_mse_verdicts(case, ctx):
    """loss_function.mean_squared_error.compare_to_analytical / check_mse_of_estimators (linear estimator): the verdict is
    True exactly when, for EVERY sample size, |sample MSE - analytical MSE| < 3 sample standard deviations.  The linear
    estimates are constructed (no random numbers) with prescribed squared errors = factor x analytical MSE, so the per-size
    verdicts are known with a wide margin: factors averaging 1 (agree) or far from 1 with a small spread (disagree)."""
    from quara.loss_function import mean_squared_error as mse_check
    from quara.objects.povm_typical import generate_povm_from_name
    from quara.objects.state import State
    from quara.protocol.qtomography.standard.linear_estimator import LinearEstimator
    from quara.protocol.qtomography.standard.standard_qst import StandardQst
    from quara.simulation.standard_qtomography_simulation import SimulationResult, StandardQTomographySimulationSetting

    c_sys = build.c_sys_for("1q")
    flag = bool(case["flag"])
    povms = [generate_povm_from_name(nm, c_sys) for nm in ("x", "y", "z")]
    qst = StandardQst(povms, on_para_eq_constraint=flag, schedules="all")
    bloch = np.asarray(case["bloch"], dtype=float)
    true_state = State(c_sys, np.hstack([1.0, bloch]) / math.sqrt(2), on_para_eq_constraint=flag)
    v_true = np.asarray(true_state.to_var(), dtype=float)
    a_mat, b_vec = np.asarray(qst.calc_matA(), dtype=float), np.asarray(qst.calc_vecB(), dtype=float)
    num_data, n_rep = list(case["num_data"]), int(case["n_rep"])
    nv = len(v_true)
    dirs = [np.eye(nv)[-1 - (k % 3)] * (1.0 if k % 2 == 0 else -1.0) for k in range(n_rep)]
    analytical = [float(qst.calc_mse_linear_analytical(true_state, [n] * qst.num_schedules)) for n in num_data]
    factors = [(OK_FACTORS if ag else NG_FACTORS)[pt][:n_rep] for ag, pt in zip(case["agree"], case["pattern"])]
    seqs = []
    for k in range(n_rep):
        seq = []
        for i, n in enumerate(num_data):
            v = v_true + math.sqrt(factors[i][k] * analytical[i]) * dirs[k]
            f = (a_mat @ v + b_vec).reshape(3, 2)
            if not (np.all(f > 0) and np.allclose(f.sum(axis=1), 1)):
                ctx.skip("constructed distributions leave the simplex")
                return
            seq.append([(n, f[j]) for j in range(3)])
        seqs.append(seq)
    est = LinearEstimator()
    results = [est.calc_estimate_sequence(qst, seq, is_computation_time_required=True) for seq in seqs]
    setting = StandardQTomographySimulationSetting(
        name="c19", true_object=true_state, tester_objects=povms, estimator=est, seed_data=None, n_rep=n_rep,
        num_data=num_data, schedules="all", eps_proj_physical=None, eps_truncate_imaginary_part=None)
    sim = SimulationResult(estimation_results=results, empi_dists_sequences=seqs, qtomography=qst, simulation_setting=setting)
    # per-size reference verdicts from the squared errors the estimates really have (margin asserted, not assumed)
    per = []
    for i in range(len(num_data)):
        ses = np.array([float(np.sum((np.asarray(r.estimated_var_sequence[i], dtype=float) - v_true) ** 2)) for r in results])
        if flag is False:
            ses = np.array([float(np.sum((np.asarray(r.estimated_qoperation_sequence[i].to_stacked_vector(), dtype=float)
                                          - np.asarray(true_state.to_stacked_vector(), dtype=float)) ** 2)) for r in results])
        diff, sd = abs(float(ses.mean()) - analytical[i]), float(ses.std(ddof=1))
        if not (diff < 0.3 * 3 * sd or diff > 3 * 3 * sd):
            ctx.skip("per-size verdict within the margin band")
            return
        per.append(diff < 3 * sd)
    want = all(per)
    ctx.label(f"sizes:{len(num_data)}", "verdicts:" + ("all_agree" if want else "all_disagree" if not any(per) else "mixed"), f"flag:{flag}")
    got = mse_check.compare_to_analytical(sim.simulation_setting, sim.estimation_results, sim.qtomography, False)
    ctx.check(bool(got) == want, "compare_to_analytical:verdict_is_all_sizes_agree", f"per-size {per} -> returned {got}")
    got2 = mse_check.check_mse_of_estimators(sim, False)
    ctx.check(bool(got2) == want, "check_mse_of_estimators:verdict_is_all_sizes_agree", f"per-size {per} -> returned {got2}")
    ctx.nontrivial(len(per) >= 2 and any(per) and not all(per))


FACETS = {
    "mse_verdicts": {
        "strategy": verdict_mse_case,
        "check": check_mse_verdicts,
        "budget": {"quick": {"examples": 160, "shards": 4}, "thorough": {"examples": 2000, "shards": 8}},
        "nontrivial": ">= 2 sample sizes with mixed per-size verdicts (some agree, some do not)",
        "min_nontrivial": 10,
    },
    "analytic_exact": {
        "strategy": exact_case,
        "check": check_analytic_exact,
        "budget": {"quick": {"examples": 480, "shards": 8}, "thorough": {"examples": 9000, "shards": 16}},
        "nontrivial": "unequal n_j, or non-isometric variable->object map, or a true probability < 1e-6, or over-complete testers",
        "min_nontrivial": 40,
    },
    "joint": {
        "strategy": joint_case,
        "check": check_joint,
        "budget": {"quick": {"examples": 160, "shards": 8}, "thorough": {"examples": 2400, "shards": 16}},
        "nontrivial": "as analytic_exact (the real LinearEstimator is enumerated jointly or probed coordinate by coordinate)",
        "min_nontrivial": 20,
    },
    "scaling": {
        "strategy": scaling_case,
        "check": check_scaling,
        "budget": {"quick": {"examples": 160, "shards": 4}, "thorough": {"examples": 2400, "shards": 16}},
        "nontrivial": "as analytic_exact; sizes n_j*c up to 8e6",
        "min_nontrivial": 20,
    },
    "fisher_crb": {
        "strategy": fisher_case,
        "check": check_fisher_crb,
        "budget": {"quick": {"examples": 240, "shards": 4}, "thorough": {"examples": 3600, "shards": 16}},
        "nontrivial": "as analytic_exact (probabilities kept >= 1e-4 by depolarising admixture)",
        "min_nontrivial": 30,
    },
    "helpers": {
        "strategy": helper_case,
        "check": check_helpers,
        "budget": {"quick": {"examples": 800, "shards": 4}, "thorough": {"examples": 12000, "shards": 16}},
        "nontrivial": ">= 2 blocks / >= 3 samples / documented-rejection input / >= 1 replaced probability",
        "min_nontrivial": 100,
    },
}
