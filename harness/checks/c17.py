"""C17 - Every catalogued object is physical and self-consistent (enumeration)."""
import hashlib
import itertools
import os

import numpy as np

from harness import refmodel as rm
from harness.checks import c17_ref as R

RULE = (
    "Every facet enumerates a finite catalogue taken from quara's own get_*_names functions (and pinned against independently "
    "generated name lists / counts in the 'catalogues' facet): 749 state names, 112 POVM names, all 1q/2q/3q/qutrit gate names with "
    "every order of two id sets, all effective-Lindbladian names, 13 measurement processes, 7 state ensembles, the legacy named "
    "constructors, the named bases / generate_composite_system, a hand-written gate-on-state truth table, and mutated names "
    "(negative facet).  Every listed object_name form is generated and compared with textbook tables written from the definitions "
    "(harness/checks/c17_ref.py, numpy only) and with refmodel representations.  2-qutrit gates: all 198 single-term names always; "
    "two-term names (39006) are a sample of 400 chosen by sha256(VERIF_SEED|name) in the quick tier and enumerated completely in "
    "the thorough tier at hamiltonian/unitary_mat/gate_mat level.  Non-trivial = the item is not a computational-basis/identity "
    "object (superposition or entangled state, non-diagonal or multi-system gate, non-commuting two-term Hamiltonian, ...), "
    "stated per facet."
)
ASSUMPTIONS = [
    "textbook meaning of the names as stated in the quara docstrings: |x0>=|+>, |y0>=|+i>, a=(|0>+e^{i pi/4}|1>)/sqrt2, W for 'werner'; "
    "x90 = exp(-i pi/4 X) etc.; cx/zx90 ids=[control,target], toffoli ids=[c,c,t], fredkin ids=[c,t,t]; tensor position = rank of the id",
    "unitaries are compared up to a global phase; POVM outcome order is i <-> state name '<axis>i' (order of the Bell POVM is not asserted)",
    "a name outside a catalogue must raise some Exception (the documented one is ValueError; NameError/NotImplementedError/AssertionError are also counted as 'an error')",
]
TECHNIQUE = "exhaustive enumeration of the finite catalogues (seeded sample of the 2-qutrit two-term gates in the quick tier) against independent textbook tables and a numpy reference model; metamorphic id-permutation and name-mutation checks"
LEVEL_TEXT = (
    "Exhaustive over the enumerated catalogues: every catalogued state, POVM, small-system gate (all id orders), effective "
    "Lindbladian, measurement process, ensemble, legacy constructor and named basis is generated in every listed form and "
    "compared with an independent definition; for those catalogues the verdict is complete for the configurations listed. "
    "The 39006 two-term 2-qutrit gate names are sampled (400) in the quick tier and enumerated in the thorough tier."
)
LEVEL_NOTE = (
    "Trusted: numpy LAPACK (eigh), harness/refmodel.py, and the textbook tables in harness/checks/c17_ref.py (self-checked: the "
    "truth table must agree with the table of unitaries before quara is consulted).  The evidence flag 'exhaustive' is set by the "
    "runner for every enumeration facet; for gates_2qutrit_two it is only true in the thorough tier."
)


# ----------------------------------------------------------------------------- shared helpers
_CSYS = {}


def csys(sys_, ids=None):
    """composite system as advertised by generate_composite_system (cached per process: objects are immutable)."""
    from quara.objects.composite_system_typical import generate_composite_system

    key = (sys_, tuple(ids) if ids is not None else None)
    if key not in _CSYS:
        mode, num = R.SYS[sys_]
        _CSYS[key] = generate_composite_system(mode, num, ids_esys=list(ids) if ids is not None else None)
    return _CSYS[key]


def tol_of(sys_, scale=1.0):
    return rm.algebraic_tol(R.dim_of(sys_), scale)


def is_real_array(a):
    return isinstance(a, np.ndarray) and a.dtype.kind == "f"


def as_list_of_arrays(x, n=None):
    ok = isinstance(x, (list, tuple)) and all(isinstance(e, np.ndarray) for e in x)
    return ok and (n is None or len(x) == n)


def try_call(fn):
    """(result, None) or (None, exception) - used where 'can be generated' is itself the oracle."""
    try:
        return fn(), None
    except Exception as e:  # noqa
        return None, e


def physical_state(ctx, sys_, vec, tag):
    t = tol_of(sys_)
    rho = R.unvec_of(sys_, vec)
    ctx.close(np.trace(rho), 1.0, t, f"{tag}:ref_trace_one")
    ctx.leq(-rm.min_eig(rho), 0.0, t, f"{tag}:ref_psd")


def physical_channel(ctx, sys_, hs, tag, unitary=False):
    """TP / CP (and orthogonality for a unitary channel) of a real HS matrix, from the reference model."""
    t = tol_of(sys_)
    n = R.dim_of(sys_) ** 2
    e0 = np.zeros(n)
    e0[0] = 1
    hs = np.asarray(hs)
    ctx.close(hs[0], e0, t, f"{tag}:ref_tp")
    choi = R.choi_of_hs(sys_, hs)
    ctx.leq(-rm.min_eig(choi), 0.0, t * R.dim_of(sys_), f"{tag}:ref_cp")
    if unitary:
        ctx.close(hs @ hs.T, np.eye(n), t * 10, f"{tag}:ref_hs_orthogonal")


# ----------------------------------------------------------------------------- facet: states
def state_items(tier):
    from quara.objects import state_typical as stt

    fns = {"1q": stt.get_state_names_1qubit, "2q": stt.get_state_names_2qubit, "3q": stt.get_state_names_3qubit,
           "qutrit": stt.get_state_names_1qutrit, "2qutrit": stt.get_state_names_2qutrit}
    return [{"sys": s, "name": n} for s, f in fns.items() for n in f()]


def check_state(item, ctx):
    from quara.objects import qoperation_typical as qt
    from quara.objects import state_typical as stt

    sys_, name = item["sys"], item["name"]
    d = R.dim_of(sys_)
    t = tol_of(sys_)
    psi_ref = R.ket(name, sys_)
    rho_ref = R.proj(psi_ref)
    c_sys = csys(sys_)
    gen = stt.generate_state_object_from_state_name_object_name
    ctx.label(sys_, "product" if ("_" in name and "superposition" not in name and not name.startswith("bell")) else "typical")
    ctx.nontrivial(int(np.sum(np.abs(psi_ref) > 1e-12)) >= 2)

    ctx.check(stt.is_valid_state_name(name) is True, "state:is_valid_state_name")
    psi = gen(name, "pure_state_vector")
    ctx.check(isinstance(psi, np.ndarray) and psi.shape == (d,), "state:vector_shape", lambda: repr(getattr(psi, "shape", None)))
    ctx.close(np.linalg.norm(psi), 1.0, t, "state:vector_normalised")
    rho = gen(name, "density_mat")
    ctx.close(rho, np.outer(psi, np.conj(psi)), t, "state:density_is_projector_of_vector")
    ctx.close(rho, rho_ref, t, "state:textbook_density", name)
    vec = gen(name, "density_matrix_vector", c_sys)
    ctx.check(is_real_array(vec), "state:vec_real")
    v_ref = R.vec_of(sys_, rho_ref)
    ctx.close(vec, v_ref.real, t, "state:vec_is_refmodel_vec")
    st = gen(name, "state", c_sys)
    ctx.check(type(st).__name__ == "State", "state:type")
    ctx.close(st.vec, vec, 0.0, "state:object_vec_equals_vector_form")
    ctx.check(bool(st.is_physical()), "state:is_physical")
    physical_state(ctx, sys_, st.vec, "state")
    ctx.close(st.to_density_matrix(), rho_ref, t, "state:to_density_matrix")
    # product names: Kronecker product of quara's own single-system vectors
    parts = name.split("_")
    _, num = R.SYS[sys_]
    if num > 1 and len(parts) == num and "superposition" not in name:
        one = "1q" if R.SYS[sys_][0] == "qubit" else "qutrit"
        k = np.array([1.0 + 0j])
        for p in parts:
            k = np.kron(k, gen(p, "pure_state_vector"))
        ctx.close(psi, k, t, "state:product_is_kron_of_parts")
        del one
    # generic dispatcher
    st2 = qt.generate_qoperation(mode="state", name=name, c_sys=c_sys)
    ctx.close(st2.vec, st.vec, 0.0, "state:dispatcher_same")
    for form, ref in (("pure_state_vector", psi), ("density_mat", rho), ("density_matrix_vector", vec)):
        ctx.close(qt.generate_qoperation_object(mode="state", name=name, object_name=form, c_sys=c_sys), ref, 0.0,
                  f"state:dispatcher_form:{form}")


# ----------------------------------------------------------------------------- facet: povms
def povm_items(tier):
    from quara.objects import povm_typical as pt

    fns = {"1q": pt.get_povm_names_1qubit, "2q": pt.get_povm_names_2qubit, "3q": pt.get_povm_names_3qubit,
           "qutrit": pt.get_povm_names_1qutrit, "2qutrit": pt.get_povm_names_2qutrit}
    return [{"sys": s, "name": n} for s, f in fns.items() for n in f()]


def match_lists(ctx, got, ref, ordered, tol, oracle):
    """ordered: element-wise; unordered: a one-to-one matching must exist."""
    if not ctx.check(as_list_of_arrays(got, len(ref)), oracle + ":length", lambda: f"{type(got)} len {len(got) if hasattr(got, '__len__') else '?'} != {len(ref)}"):
        return False
    if ordered:
        ok = True
        for i, (g, r) in enumerate(zip(got, ref)):
            ok = ctx.close(g, r, tol, oracle, f"element {i}") and ok
        return ok
    free = list(range(len(ref)))
    for i, g in enumerate(got):
        hit = [j for j in free if np.shape(g) == np.shape(ref[j]) and np.max(np.abs(g - ref[j])) <= tol]
        if not ctx.check(len(hit) >= 1, oracle, f"element {i} matches no remaining textbook element"):
            return False
        free.remove(hit[0])
    return True


def check_povm(item, ctx):
    from quara.objects import povm_typical as pt
    from quara.objects import qoperation_typical as qt

    sys_, name = item["sys"], item["name"]
    d = R.dim_of(sys_)
    t = tol_of(sys_)
    ref, ordered = R.povm(name)
    m = len(ref)
    c_sys = csys(sys_)
    gen = pt.generate_povm_object_from_povm_name_object_name
    parts = name.split("_")
    rank1 = all(p in pt.get_povm_names_rank1() for p in parts)
    ctx.label(sys_, "rank1" if rank1 else "not_rank1", f"outcomes:{m}")
    ctx.nontrivial(name not in ("z", "z3", "z2"))

    mats = gen(name, "matrices")
    if not match_lists(ctx, mats, ref, ordered, t, "povm:textbook_matrices"):
        return
    ctx.close(sum(mats), np.eye(d), t * m, "povm:sum_identity")
    for i, e in enumerate(mats):
        ctx.leq(rm.hermiticity_defect(e), 0.0, t, "povm:hermitian", f"element {i}")
        ctx.leq(-rm.min_eig(e), 0.0, t, "povm:psd", f"element {i}")
    # rank-1 catalogue and the pure_state_vectors form
    ranks = [int(np.linalg.matrix_rank(e, tol=1e-9)) for e in mats]
    if len(parts) == 1:
        ctx.check((name in pt.get_povm_names_rank1()) == all(r == 1 for r in ranks), "povm:rank1_list", f"ranks {ranks}")
        ctx.check((name in pt.get_povm_names_not_rank1()) == (not all(r == 1 for r in ranks)), "povm:not_rank1_list", f"ranks {ranks}")
    if rank1:
        vs = gen(name, "pure_state_vectors")
        if ctx.check(as_list_of_arrays(vs, m), "povm:pure_state_vectors_length"):
            for i, v in enumerate(vs):
                ctx.close(np.outer(v, np.conj(v)), mats[i], t, "povm:matrix_is_projector_of_vector", f"element {i}")
    else:
        ctx.raises(ValueError, lambda: gen(name, "pure_state_vectors"), "povm:not_rank1_has_no_vectors")
    vecs = gen(name, "vectors", basis=c_sys.basis())
    if ctx.check(as_list_of_arrays(vecs, m) and all(is_real_array(v) for v in vecs), "povm:vectors_real_list"):
        for i, v in enumerate(vecs):
            ctx.close(v, R.vec_of(sys_, mats[i]).real, t, "povm:vec_is_refmodel_vec", f"element {i}")
    pv = gen(name, "povm", c_sys=c_sys)
    ctx.check(type(pv).__name__ == "Povm", "povm:type")
    ctx.equal(int(pv.num_outcomes), m, "povm:num_outcomes")
    for i in range(m):
        ctx.close(pv.vecs[i], vecs[i], 0.0, "povm:object_vecs_equal_vectors_form", f"element {i}")
    ctx.check(bool(pv.is_physical()), "povm:is_physical")
    pm = pv.matrices()
    if ctx.check(as_list_of_arrays(pm, m), "povm:object_matrices_length"):
        for i in range(m):
            ctx.close(pm[i], mats[i], t, "povm:object_matrices", f"element {i}")
    # identity-sum / positivity from the object's own vectors through the reference model
    es = [R.unvec_of(sys_, v) for v in pv.vecs]
    ctx.close(sum(es), np.eye(d), t * m, "povm:ref_identity_sum")
    ctx.leq(-min(rm.min_eig(e) for e in es), 0.0, t, "povm:ref_psd")
    pv2 = qt.generate_qoperation(mode="povm", name=name, c_sys=c_sys)
    for i in range(m):
        ctx.close(pv2.vecs[i], pv.vecs[i], 0.0, "povm:dispatcher_same", f"element {i}")


# ----------------------------------------------------------------------------- facet: gates (1q, 2q, 3q, qutrit, identity)
IDS_2Q = [[0, 1], [1, 0], [3, 7], [7, 3]]
IDS_3Q = [list(p) for p in itertools.permutations([0, 1, 2])] + [list(p) for p in itertools.permutations([2, 5, 9])]
IDENTITY_SYS = ["1q", "2q", "3q", "qutrit", "2qutrit"]


def small_gate_items(tier=None):
    from quara.objects import gate_typical as gt

    items = [{"sys": s, "name": "identity", "ids": None} for s in IDENTITY_SYS]
    items += [{"sys": "1q", "name": n, "ids": None} for n in gt.get_gate_names_1qubit()]
    items += [{"sys": "2q", "name": n, "ids": ids} for n in gt.get_gate_names_2qubit() for ids in IDS_2Q]
    items += [{"sys": "3q", "name": n, "ids": ids} for n in gt.get_gate_names_3qubit() for ids in IDS_3Q]
    items += [{"sys": "qutrit", "name": n, "ids": None} for n in gt.get_gate_names_1qutrit()]
    return items


def known_cyclic_ids_3q(case):
    """C17-F1: toffoli / fredkin with ids whose order is a 3-cycle of the ascending order."""
    ids = case.get("ids")
    return case.get("name") in ("toffoli", "fredkin") and ids is not None and len(ids) == 3 and R.positions(ids) in ([1, 2, 0], [2, 0, 1])


def gate_forms(name, sys_, ids):
    """the three catalogue forms of a gate through the catalogue dispatcher."""
    from quara.objects import gate_typical as gt

    gen = gt.generate_gate_object_from_gate_name_object_name
    dims = R.dims_of(sys_)
    c_sys = csys(sys_, sorted(ids) if ids else None)
    u = gen(name, "unitary_mat", dims=dims, ids=ids)
    g = gen(name, "gate_mat", dims=dims, ids=ids)
    obj = gen(name, "gate", ids=ids, c_sys=c_sys)
    return u, g, obj, c_sys


def check_unitary_and_hs(ctx, sys_, u, g, tag="gate"):
    d = R.dim_of(sys_)
    t = tol_of(sys_)
    ok = ctx.check(isinstance(u, np.ndarray) and u.shape == (d, d) and u.dtype.kind == "c", f"{tag}:unitary_mat_shape_complex",
                   lambda: f"{getattr(u, 'shape', None)} {getattr(u, 'dtype', None)}")
    ok = ctx.check(is_real_array(g) and g.shape == (d * d, d * d), f"{tag}:gate_mat_shape_real",
                   lambda: f"{getattr(g, 'shape', None)} {getattr(g, 'dtype', None)}") and ok
    if not ok:
        return False
    ctx.close(u @ u.conj().T, np.eye(d), t, f"{tag}:unitary")
    hs_ref = R.hs_of_kraus(sys_, [u])
    ctx.leq(np.max(np.abs(hs_ref.imag)), 0.0, t, f"{tag}:ref_hs_real")
    ctx.close(g, hs_ref.real, t, f"{tag}:gate_mat_is_refmodel_hs_of_unitary")
    physical_channel(ctx, sys_, g, tag, unitary=True)
    return True


def check_gate(item, ctx):
    from quara.objects import qoperation_typical as qt

    sys_, name, ids = item["sys"], item["name"], item["ids"]
    d = R.dim_of(sys_)
    t = tol_of(sys_)
    multi = sys_ in ("2q", "3q") and name != "identity"
    ctx.label(sys_, name if sys_ != "qutrit" else "qutrit_gellmann")
    if ids is not None:
        ctx.label("ids_order:" + "".join(map(str, R.positions(ids))), "ids_contiguous" if sorted(ids) == list(range(len(ids))) else "ids_gapped")
    u, g, obj, c_sys = gate_forms(name, sys_, ids)
    if not check_unitary_and_hs(ctx, sys_, u, g):
        return
    u_ref = R.unitary(name, sys_, ids)
    ctx.nontrivial(name != "identity" and (multi or np.max(np.abs(u_ref - np.diag(np.diag(u_ref)))) > 1e-9 or sys_ == "qutrit"))
    ctx.close(u, R.phase_align(u, u_ref), t, "gate:placement:textbook_unitary" if multi else "gate:textbook_unitary",
              f"{name} ids={ids}")
    if multi:
        # ids permutation = conjugation of the ascending-order gate by the tensor-factor permutation
        from quara.objects import gate_typical as gt

        u_sorted = gt.generate_unitary_mat_from_gate_name(name, R.dims_of(sys_), sorted(ids))
        w = R.perm_op(R.positions(ids), R.dims_of(sys_))
        ctx.close(u, w @ u_sorted @ w.conj().T, t, "gate:placement:ids_conjugation", f"{name} ids={ids}")
        if ids != sorted(ids) and name in ("cz", "swap", "zz90"):
            ctx.close(u, u_sorted, t, "gate:symmetric_gate_ignores_ids_order")
    # generated object
    ctx.check(type(obj).__name__ == "Gate", "gate:type")
    ctx.close(obj.hs, g, t, "gate:object_hs_equals_gate_mat")
    ctx.check(bool(obj.is_physical()), "gate:is_physical")
    ctx.equal(int(obj.dim), d, "gate:object_dim")
    obj2 = qt.generate_qoperation(mode="gate", name=name, c_sys=c_sys, ids=ids)
    ctx.close(obj2.hs, obj.hs, 0.0, "gate:dispatcher_same")
    ctx.close(qt.generate_gate_object(name, "unitary_mat", dims=R.dims_of(sys_), ids=ids), u, 0.0, "gate:dispatcher_form:unitary_mat")
    ctx.close(qt.generate_gate_object(name, "gate_mat", dims=R.dims_of(sys_), ids=ids), g, 0.0, "gate:dispatcher_form:gate_mat")


# ----------------------------------------------------------------------------- facets: 2-qutrit gates
N_SAMPLE_TWO = 400
N_GATE_OBJECTS = {"quick": 24, "thorough": 200}
N_LINDBLADIAN_2QT = {"quick": 40, "thorough": 1500}


def _seed():
    return os.environ.get("VERIF_SEED", "1")


def _hash_order(names, salt):
    s = _seed()
    return sorted(names, key=lambda n: hashlib.sha256(f"{s}|{salt}|{n}".encode()).hexdigest())


def qutrit2_single_items(tier):
    from quara.objects import gate_typical as gt

    names = gt.get_gate_names_2qutrit_single_base_matrix()
    chosen = set(_hash_order(names, "obj1")[: N_GATE_OBJECTS[tier] // 2])
    return [{"sys": "2qutrit", "name": n, "level": "gate" if n in chosen else "mat"} for n in names]


def qutrit2_two_items(tier):
    from quara.objects import gate_typical as gt

    names = gt.get_gate_names_2qutrit_two_base_matrices()
    order = _hash_order(names, "two") if tier == "quick" else None
    if tier == "quick":
        names = order[:N_SAMPLE_TWO]
        chosen = set(names[: N_GATE_OBJECTS[tier] // 2])
    else:
        chosen = set(_hash_order(names[:: 39], "obj2")[: N_GATE_OBJECTS[tier] // 2])
    return [{"sys": "2qutrit", "name": n, "level": "gate" if n in chosen else "mat"} for n in names]


def check_gate_2qutrit(item, ctx):
    from quara.objects import effective_lindbladian_typical as elt
    from quara.objects import gate_typical as gt

    sys_, name = "2qutrit", item["name"]
    t = tol_of(sys_, 4.0)
    h_ref = R.hamiltonian_2qutrit(name)
    two = "_" in name
    commute = R.terms_commute_2qutrit(name)
    ctx.label("two_term" if two else "single_term", "commuting" if commute else "non_commuting", "level:" + item["level"])
    ctx.nontrivial((two and not commute) or (not two))
    h = elt.generate_hamiltonian_mat_from_gate_name(name)
    ctx.close(h, h_ref, t, "gate2qt:hamiltonian_mat_textbook")
    u = gt.generate_unitary_mat_from_gate_name(name)
    g = gt.generate_gate_mat_from_gate_name(name)
    if not check_unitary_and_hs(ctx, sys_, u, g, "gate2qt"):
        return
    ctx.close(u, R.expm_herm(h_ref), t, "gate2qt:unitary_is_exp_minus_i_h")
    # ids are accepted and documented as roles; the Hamiltonian of these names does not depend on them
    ctx.close(gt.generate_gate_mat_from_gate_name(name, ids=[0, 1]), g, 0.0, "gate2qt:ids_ascending_same")
    if item["level"] == "gate":
        c_sys = csys(sys_)
        obj = gt.generate_gate_object_from_gate_name_object_name(name, "gate", c_sys=c_sys)
        ctx.check(type(obj).__name__ == "Gate", "gate2qt:type")
        ctx.close(obj.hs, g, t, "gate2qt:object_hs_equals_gate_mat")
        ctx.check(bool(obj.is_physical()), "gate2qt:is_physical")


# ----------------------------------------------------------------------------- facet: effective Lindbladians
def lindbladian_items(tier):
    from quara.objects import gate_typical as gt

    items = small_gate_items()
    names = gt.get_gate_names_2qutrit()
    items += [{"sys": "2qutrit", "name": n, "ids": None} for n in _hash_order(names[:: 13], "el")[: N_LINDBLADIAN_2QT[tier]]]
    return items


def check_lindbladian(item, ctx):
    from quara.objects import effective_lindbladian_typical as elt
    from quara.objects import gate_typical as gt
    from quara.objects import qoperation_typical as qt

    sys_, name, ids = item["sys"], item["name"], item["ids"]
    d = R.dim_of(sys_)
    dims = R.dims_of(sys_)
    c_sys = csys(sys_, sorted(ids) if ids else None)
    gen = elt.generate_effective_lindbladian_object_from_gate_name_object_name
    ctx.label(sys_, "identity" if name == "identity" else "named")
    ctx.nontrivial(name != "identity")
    h = gen(name, "hamiltonian_mat", dims=dims, ids=ids)
    if not ctx.check(isinstance(h, np.ndarray) and h.shape == (d, d), "el:hamiltonian_mat_shape"):
        return
    scale = float(np.max(np.abs(h))) if h.size else 0.0
    t = tol_of(sys_, scale)
    ctx.leq(rm.hermiticity_defect(h), 0.0, t, "el:hamiltonian_hermitian")
    hv = gen(name, "hamiltonian_vec", dims=dims, ids=ids)
    ctx.check(is_real_array(hv), "el:hamiltonian_vec_real")
    ctx.close(hv, R.vec_of(sys_, h).real, t, "el:hamiltonian_vec_is_refmodel_vec_of_mat")
    u = gt.generate_unitary_mat_from_gate_name(name, dims, ids)
    g = gt.generate_gate_mat_from_gate_name(name, dims, ids)
    u_h = R.expm_herm(h)
    ctx.close(u, R.phase_align(u, u_h), 1e-10 * (1 + scale) * d, "el:exp_minus_i_h_is_unitary_mat_up_to_phase", name)
    lmat = gen(name, "effective_lindbladian_mat", dims=dims, ids=ids)
    if not ctx.check(is_real_array(lmat) and lmat.shape == (d * d, d * d), "el:lindbladian_mat_shape_real"):
        return
    l_ref = R.hs_of_commutator(sys_, h)
    ctx.close(lmat, l_ref.real, t * 4, "el:lindbladian_mat_is_refmodel_commutator_hs")
    # physical generator: trace preserving (first row zero) and purely Hamiltonian (antisymmetric => K = 0 >= 0)
    ctx.close(lmat[0], np.zeros(d * d), t, "el:ref_generator_tp")
    ctx.close(lmat + lmat.T, np.zeros((d * d, d * d)), t * 4, "el:ref_generator_antisymmetric")
    ctx.close(R.expm_antisym(lmat).real, g, 1e-10 * (1 + scale) * d * d, "el:expm_lindbladian_is_gate_mat", name)
    el = gen(name, "effective_lindbladian", ids=ids, c_sys=c_sys)
    ctx.check(type(el).__name__ == "EffectiveLindbladian", "el:type")
    ctx.close(el.hs, lmat, t, "el:object_hs_equals_mat")
    ctx.check(bool(el.is_physical()), "el:is_physical")
    ctx.close(el.to_gate().hs, g, 1e-10 * (1 + scale) * d * d, "el:to_gate_is_gate_mat")
    el2 = qt.generate_effective_lindbladian_object(name, "effective_lindbladian", dims=dims, ids=ids, c_sys=c_sys)
    ctx.close(el2.hs, el.hs, 0.0, "el:dispatcher_same")


FACETS = {
    "states": {
        "kind": "enumeration", "items": state_items, "check": check_state,
        "budget": {"quick": {"examples": 0, "shards": 4}, "thorough": {"examples": 0, "shards": 8}},
        "nontrivial": "textbook vector has at least two non-zero amplitudes (superposition / entangled / product of such)",
        "min_nontrivial": 600,
    },
    "povms": {
        "kind": "enumeration", "items": povm_items, "check": check_povm,
        "budget": {"quick": {"examples": 0, "shards": 4}, "thorough": {"examples": 0, "shards": 8}},
        "nontrivial": "not a pure computational-basis measurement of a single system",
        "min_nontrivial": 100,
    },
    "gates": {
        "kind": "enumeration", "items": small_gate_items, "check": check_gate,
        "budget": {"quick": {"examples": 0, "shards": 3}, "thorough": {"examples": 0, "shards": 4}},
        "nontrivial": "non-identity gate that is multi-system, non-diagonal or a qutrit rotation",
        "min_nontrivial": 60,
    },
    "gates_2qutrit_single": {
        "kind": "enumeration", "items": qutrit2_single_items, "check": check_gate_2qutrit,
        "budget": {"quick": {"examples": 0, "shards": 3}, "thorough": {"examples": 0, "shards": 4}},
        "nontrivial": "every single-term 2-qutrit Hamiltonian name (all 198 are enumerated)",
        "min_nontrivial": 198,
    },
    "gates_2qutrit_two": {
        "kind": "enumeration", "items": qutrit2_two_items, "check": check_gate_2qutrit,
        "budget": {"quick": {"examples": 0, "shards": 5}, "thorough": {"examples": 0, "shards": 16}},
        "nontrivial": "two-term name whose Hamiltonian terms do not commute (exp(-iH) is not a product of the single-term gates)",
        "min_nontrivial": 100,
    },
    "lindbladians": {
        "kind": "enumeration", "items": lindbladian_items, "check": check_lindbladian,
        "budget": {"quick": {"examples": 0, "shards": 3}, "thorough": {"examples": 0, "shards": 8}},
        "nontrivial": "non-identity gate name (non-zero Hamiltonian)",
        "min_nontrivial": 100,
    },
}
