"""C17 - Every catalogued object is physical and self-consistent (enumeration)."""
import hashlib
import itertools
import os

import numpy as np

from harness import refmodel as rm
from harness.checks import c17_ref as R

RULE = (
    "Every facet enumerates a finite catalogue taken from quara's own get_*_names functions (and pinned against independently "
    "generated name lists / counts in the 'catalogues' facet): 749 state names, 112 POVM names, all 1q/2q/3q/qutrit gate names with "
    "every order of two id sets, all effective-Lindbladian names, 13 measurement processes, 7 state ensembles, the legacy named "
    "constructors, the named bases / generate_composite_system, a hand-written gate-on-state truth table, and mutated names "
    "(negative facet).  Every listed object_name form is generated and compared with textbook tables written from the definitions "
    "(harness/checks/c17_ref.py, numpy only) and with refmodel representations.  2-qutrit gates: all 198 single-term names always; "
    "two-term names (39006) are a sample of 400 chosen by sha256(VERIF_SEED|name) in the quick tier and enumerated completely in "
    "the thorough tier at hamiltonian/unitary_mat/gate_mat level.  Non-trivial = the item is not a computational-basis/identity "
    "object (superposition or entangled state, non-diagonal or multi-system gate, non-commuting two-term Hamiltonian, ...), "
    "stated per facet."
)
ASSUMPTIONS = [
    "textbook meaning of the names as stated in the quara docstrings: |x0>=|+>, |y0>=|+i>, a=(|0>+e^{i pi/4}|1>)/sqrt2, W for 'werner'; "
    "x90 = exp(-i pi/4 X) etc.; cx/zx90 ids=[control,target], toffoli ids=[c,c,t], fredkin ids=[c,t,t]; tensor position = rank of the id",
    "unitaries are compared up to a global phase; POVM outcome order is i <-> state name '<axis>i' (order of the Bell POVM is not asserted)",
    "a name outside a catalogue must raise some Exception (the documented one is ValueError; NameError/NotImplementedError/AssertionError are also counted as 'an error')",
]
TECHNIQUE = "exhaustive enumeration of the finite catalogues (seeded sample of the 2-qutrit two-term gates in the quick tier) against independent textbook tables and a numpy reference model; metamorphic id-permutation and name-mutation checks"
LEVEL_TEXT = (
    "Exhaustive over the enumerated catalogues: every catalogued state, POVM, small-system gate (all id orders), effective "
    "Lindbladian, measurement process, ensemble, legacy constructor and named basis is generated in every listed form and "
    "compared with an independent definition; for those catalogues the verdict is complete for the configurations listed. "
    "The 39006 two-term 2-qutrit gate names are sampled (400) in the quick tier and enumerated in the thorough tier."
)
LEVEL_NOTE = (
    "Trusted: numpy LAPACK (eigh), harness/refmodel.py, and the textbook tables in harness/checks/c17_ref.py (self-checked: the "
    "truth table must agree with the table of unitaries before quara is consulted).  The evidence flag 'exhaustive' is set by the "
    "runner for every enumeration facet; for gates_2qutrit_two it is only true in the thorough tier."
)


# ----------------------------------------------------------------------------- shared helpers
_CSYS = {}


def csys(sys_, ids=None):
    """composite system as advertised by generate_composite_system (cached per process: objects are immutable)."""
    from quara.objects.composite_system_typical import generate_composite_system

    key = (sys_, tuple(ids) if ids is not None else None)
    if key not in _CSYS:
        mode, num = R.SYS[sys_]
        _CSYS[key] = generate_composite_system(mode, num, ids_esys=list(ids) if ids is not None else None)
    return _CSYS[key]


def tol_of(sys_, scale=1.0):
    return rm.algebraic_tol(R.dim_of(sys_), scale)


def is_real_array(a):
    return isinstance(a, np.ndarray) and a.dtype.kind == "f"


def as_list_of_arrays(x, n=None):
    ok = isinstance(x, (list, tuple)) and all(isinstance(e, np.ndarray) for e in x)
    return ok and (n is None or len(x) == n)


def try_call(fn):
    """(result, None) or (None, exception) - used where 'can be generated' is itself the oracle."""
    try:
        return fn(), None
    except Exception as e:  # noqa
        return None, e


def physical_state(ctx, sys_, vec, tag):
    t = tol_of(sys_)
    rho = R.unvec_of(sys_, vec)
    ctx.close(np.trace(rho), 1.0, t, f"{tag}:ref_trace_one")
    ctx.leq(-rm.min_eig(rho), 0.0, t, f"{tag}:ref_psd")


def physical_channel(ctx, sys_, hs, tag, unitary=False):
    """TP / CP (and orthogonality for a unitary channel) of a real HS matrix, from the reference model."""
    t = tol_of(sys_)
    n = R.dim_of(sys_) ** 2
    e0 = np.zeros(n)
    e0[0] = 1
    hs = np.asarray(hs)
    ctx.close(hs[0], e0, t, f"{tag}:ref_tp")
    choi = R.choi_of_hs(sys_, hs)
    ctx.leq(-rm.min_eig(choi), 0.0, t * R.dim_of(sys_), f"{tag}:ref_cp")
    if unitary:
        ctx.close(hs @ hs.T, np.eye(n), t * 10, f"{tag}:ref_hs_orthogonal")


# ----------------------------------------------------------------------------- facet: states
def state_items(tier):
    from quara.objects import state_typical as stt

    fns = {"1q": stt.get_state_names_1qubit, "2q": stt.get_state_names_2qubit, "3q": stt.get_state_names_3qubit,
           "qutrit": stt.get_state_names_1qutrit, "2qutrit": stt.get_state_names_2qutrit}
    return [{"sys": s, "name": n} for s, f in fns.items() for n in f()]


def check_state(item, ctx):
    from quara.objects import qoperation_typical as qt
    from quara.objects import state_typical as stt

    sys_, name = item["sys"], item["name"]
    d = R.dim_of(sys_)
    t = tol_of(sys_)
    psi_ref = R.ket(name, sys_)
    rho_ref = R.proj(psi_ref)
    c_sys = csys(sys_)
    gen = stt.generate_state_object_from_state_name_object_name
    ctx.label(sys_, "product" if ("_" in name and "superposition" not in name and not name.startswith("bell")) else "typical")
    ctx.nontrivial(int(np.sum(np.abs(psi_ref) > 1e-12)) >= 2)

    ctx.check(stt.is_valid_state_name(name) is True, "state:is_valid_state_name")
    psi = gen(name, "pure_state_vector")
    ctx.check(isinstance(psi, np.ndarray) and psi.shape == (d,), "state:vector_shape", lambda: repr(getattr(psi, "shape", None)))
    ctx.close(np.linalg.norm(psi), 1.0, t, "state:vector_normalised")
    rho = gen(name, "density_mat")
    ctx.close(rho, np.outer(psi, np.conj(psi)), t, "state:density_is_projector_of_vector")
    ctx.close(rho, rho_ref, t, "state:textbook_density", name)
    vec = gen(name, "density_matrix_vector", c_sys)
    ctx.check(is_real_array(vec), "state:vec_real")
    v_ref = R.vec_of(sys_, rho_ref)
    ctx.close(vec, v_ref.real, t, "state:vec_is_refmodel_vec")
    st = gen(name, "state", c_sys)
    ctx.check(type(st).__name__ == "State", "state:type")
    ctx.close(st.vec, vec, 0.0, "state:object_vec_equals_vector_form")
    ctx.check(bool(st.is_physical()), "state:is_physical")
    physical_state(ctx, sys_, st.vec, "state")
    ctx.close(st.to_density_matrix(), rho_ref, t, "state:to_density_matrix")
    # product names: Kronecker product of quara's own single-system vectors
    parts = name.split("_")
    _, num = R.SYS[sys_]
    if num > 1 and len(parts) == num and "superposition" not in name:
        k = np.array([1.0 + 0j])
        for p in parts:
            k = np.kron(k, gen(p, "pure_state_vector"))
        ctx.close(psi, k, t, "state:product_is_kron_of_parts")
    # generic dispatcher
    st2 = qt.generate_qoperation(mode="state", name=name, c_sys=c_sys)
    ctx.close(st2.vec, st.vec, 0.0, "state:dispatcher_same")
    for form, ref in (("pure_state_vector", psi), ("density_mat", rho), ("density_matrix_vector", vec)):
        ctx.close(qt.generate_qoperation_object(mode="state", name=name, object_name=form, c_sys=c_sys), ref, 0.0,
                  f"state:dispatcher_form:{form}")


# ----------------------------------------------------------------------------- facet: povms
def povm_items(tier):
    from quara.objects import povm_typical as pt

    fns = {"1q": pt.get_povm_names_1qubit, "2q": pt.get_povm_names_2qubit, "3q": pt.get_povm_names_3qubit,
           "qutrit": pt.get_povm_names_1qutrit, "2qutrit": pt.get_povm_names_2qutrit}
    return [{"sys": s, "name": n} for s, f in fns.items() for n in f()]


def match_lists(ctx, got, ref, ordered, tol, oracle):
    """ordered: element-wise; unordered: a one-to-one matching must exist."""
    if not ctx.check(as_list_of_arrays(got, len(ref)), oracle + ":length", lambda: f"{type(got)} len {len(got) if hasattr(got, '__len__') else '?'} != {len(ref)}"):
        return False
    if ordered:
        ok = True
        for i, (g, r) in enumerate(zip(got, ref)):
            ok = ctx.close(g, r, tol, oracle, f"element {i}") and ok
        return ok
    free = list(range(len(ref)))
    for i, g in enumerate(got):
        hit = [j for j in free if np.shape(g) == np.shape(ref[j]) and np.max(np.abs(g - ref[j])) <= tol]
        if not ctx.check(len(hit) >= 1, oracle, f"element {i} matches no remaining textbook element"):
            return False
        free.remove(hit[0])
    return True


def check_povm(item, ctx):
    from quara.objects import povm_typical as pt
    from quara.objects import qoperation_typical as qt

    sys_, name = item["sys"], item["name"]
    d = R.dim_of(sys_)
    t = tol_of(sys_)
    ref, ordered = R.povm(name)
    m = len(ref)
    c_sys = csys(sys_)
    gen = pt.generate_povm_object_from_povm_name_object_name
    parts = name.split("_")
    rank1 = all(p in pt.get_povm_names_rank1() for p in parts)
    ctx.label(sys_, "rank1" if rank1 else "not_rank1", f"outcomes:{m}")
    ctx.nontrivial(name not in ("z", "z3", "z2"))

    mats = gen(name, "matrices")
    if not match_lists(ctx, mats, ref, ordered, t, "povm:textbook_matrices"):
        return
    ctx.close(sum(mats), np.eye(d), t * m, "povm:sum_identity")
    for i, e in enumerate(mats):
        ctx.leq(rm.hermiticity_defect(e), 0.0, t, "povm:hermitian", f"element {i}")
        ctx.leq(-rm.min_eig(e), 0.0, t, "povm:psd", f"element {i}")
    # rank-1 catalogue and the pure_state_vectors form
    ranks = [int(np.linalg.matrix_rank(e, tol=1e-9)) for e in mats]
    if len(parts) == 1:
        ctx.check((name in pt.get_povm_names_rank1()) == all(r == 1 for r in ranks), "povm:rank1_list", f"ranks {ranks}")
        ctx.check((name in pt.get_povm_names_not_rank1()) == (not all(r == 1 for r in ranks)), "povm:not_rank1_list", f"ranks {ranks}")
    if rank1:
        vs = gen(name, "pure_state_vectors")
        if ctx.check(as_list_of_arrays(vs, m), "povm:pure_state_vectors_length"):
            for i, v in enumerate(vs):
                ctx.close(np.outer(v, np.conj(v)), mats[i], t, "povm:matrix_is_projector_of_vector", f"element {i}")
    else:
        ctx.raises(ValueError, lambda: gen(name, "pure_state_vectors"), "povm:not_rank1_has_no_vectors")
    vecs = gen(name, "vectors", basis=c_sys.basis())
    if ctx.check(as_list_of_arrays(vecs, m) and all(is_real_array(v) for v in vecs), "povm:vectors_real_list"):
        for i, v in enumerate(vecs):
            ctx.close(v, R.vec_of(sys_, mats[i]).real, t, "povm:vec_is_refmodel_vec", f"element {i}")
    pv = gen(name, "povm", c_sys=c_sys)
    ctx.check(type(pv).__name__ == "Povm", "povm:type")
    ctx.equal(int(pv.num_outcomes), m, "povm:num_outcomes")
    for i in range(m):
        ctx.close(pv.vecs[i], vecs[i], 0.0, "povm:object_vecs_equal_vectors_form", f"element {i}")
    ctx.check(bool(pv.is_physical()), "povm:is_physical")
    pm = pv.matrices()
    if ctx.check(as_list_of_arrays(pm, m), "povm:object_matrices_length"):
        for i in range(m):
            ctx.close(pm[i], mats[i], t, "povm:object_matrices", f"element {i}")
    # identity-sum / positivity from the object's own vectors through the reference model
    es = [R.unvec_of(sys_, v) for v in pv.vecs]
    ctx.close(sum(es), np.eye(d), t * m, "povm:ref_identity_sum")
    ctx.leq(-min(rm.min_eig(e) for e in es), 0.0, t, "povm:ref_psd")
    pv2 = qt.generate_qoperation(mode="povm", name=name, c_sys=c_sys)
    for i in range(m):
        ctx.close(pv2.vecs[i], pv.vecs[i], 0.0, "povm:dispatcher_same", f"element {i}")


# ----------------------------------------------------------------------------- facet: gates (1q, 2q, 3q, qutrit, identity)
IDS_2Q = [[0, 1], [1, 0], [3, 7], [7, 3]]
IDS_3Q = [list(p) for p in itertools.permutations([0, 1, 2])] + [list(p) for p in itertools.permutations([2, 5, 9])]
IDENTITY_SYS = ["1q", "2q", "3q", "qutrit", "2qutrit"]


def small_gate_items(tier=None):
    from quara.objects import gate_typical as gt

    items = [{"sys": s, "name": "identity", "ids": None} for s in IDENTITY_SYS]
    items += [{"sys": "1q", "name": n, "ids": None} for n in gt.get_gate_names_1qubit()]
    items += [{"sys": "2q", "name": n, "ids": ids} for n in gt.get_gate_names_2qubit() for ids in IDS_2Q]
    items += [{"sys": "3q", "name": n, "ids": ids} for n in gt.get_gate_names_3qubit() for ids in IDS_3Q]
    items += [{"sys": "qutrit", "name": n, "ids": None} for n in gt.get_gate_names_1qutrit()]
    return items


def known_cyclic_ids_3q(case):
    """C17-F1: toffoli / fredkin with ids whose order is a 3-cycle of the ascending order."""
    ids = case.get("ids")
    return case.get("name") in ("toffoli", "fredkin") and ids is not None and len(ids) == 3 and R.positions(ids) in ([1, 2, 0], [2, 0, 1])


def gate_forms(name, sys_, ids):
    """the three catalogue forms of a gate through the catalogue dispatcher."""
    from quara.objects import gate_typical as gt

    from harness import reps

    gen = gt.generate_gate_object_from_gate_name_object_name
    dims = R.dims_of(sys_)
    c_sys = csys(sys_, sorted(ids) if ids else None)
    # the ids as list or tuple (itertools.permutations hands out tuples), decided per (name, ids, form)
    u = gen(name, "unitary_mat", dims=dims, ids=reps.seq(ids, name + "u") if ids is not None else None)
    g = gen(name, "gate_mat", dims=dims, ids=reps.seq(ids, name + "g") if ids is not None else None)
    obj = gen(name, "gate", ids=reps.seq(ids, name + "o") if ids is not None else None, c_sys=c_sys)
    return u, g, obj, c_sys


def check_unitary_and_hs(ctx, sys_, u, g, tag="gate"):
    d = R.dim_of(sys_)
    t = tol_of(sys_)
    ok = ctx.check(isinstance(u, np.ndarray) and u.shape == (d, d) and u.dtype.kind == "c", f"{tag}:unitary_mat_shape_complex",
                   lambda: f"{getattr(u, 'shape', None)} {getattr(u, 'dtype', None)}")
    ok = ctx.check(is_real_array(g) and g.shape == (d * d, d * d), f"{tag}:gate_mat_shape_real",
                   lambda: f"{getattr(g, 'shape', None)} {getattr(g, 'dtype', None)}") and ok
    if not ok:
        return False
    ctx.close(u @ u.conj().T, np.eye(d), t, f"{tag}:unitary")
    hs_ref = R.hs_of_kraus(sys_, [u])
    ctx.leq(np.max(np.abs(hs_ref.imag)), 0.0, t, f"{tag}:ref_hs_real")
    ctx.close(g, hs_ref.real, t, f"{tag}:gate_mat_is_refmodel_hs_of_unitary")
    physical_channel(ctx, sys_, g, tag, unitary=True)
    return True


def check_gate(item, ctx):
    from quara.objects import qoperation_typical as qt

    sys_, name, ids = item["sys"], item["name"], item["ids"]
    d = R.dim_of(sys_)
    t = tol_of(sys_)
    multi = sys_ in ("2q", "3q") and name != "identity"
    ctx.label(sys_, name if sys_ != "qutrit" else "qutrit_gellmann")
    if ids is not None:
        ctx.label("ids_order:" + "".join(map(str, R.positions(ids))), "ids_contiguous" if sorted(ids) == list(range(len(ids))) else "ids_gapped")
    u, g, obj, c_sys = gate_forms(name, sys_, ids)
    if ids is not None and sys_ == "2q":
        # the same ids as list and as tuple name the same gate (both forms, both containers, compared bit for bit)
        from quara.objects import gate_typical as _gt

        _gen = _gt.generate_gate_object_from_gate_name_object_name
        for form in ("unitary_mat", "gate_mat"):
            a_l = _gen(name, form, dims=R.dims_of(sys_), ids=list(ids))
            a_t = _gen(name, form, dims=R.dims_of(sys_), ids=tuple(ids))
            ctx.equal(np.asarray(a_t), np.asarray(a_l), "gate:ids_tuple_same_as_list", f"{name} {form} ids={ids}")
    if not check_unitary_and_hs(ctx, sys_, u, g):
        return
    u_ref = R.unitary(name, sys_, ids)
    ctx.nontrivial(name != "identity" and (multi or np.max(np.abs(u_ref - np.diag(np.diag(u_ref)))) > 1e-9 or sys_ == "qutrit"))
    ctx.close(u, R.phase_align(u, u_ref), t, "gate:placement:textbook_unitary" if multi else "gate:textbook_unitary",
              f"{name} ids={ids}")
    if multi:
        # ids permutation = conjugation of the ascending-order gate by the tensor-factor permutation
        from quara.objects import gate_typical as gt

        u_sorted = gt.generate_unitary_mat_from_gate_name(name, R.dims_of(sys_), sorted(ids))
        w = R.perm_op(R.positions(ids), R.dims_of(sys_))
        ctx.close(u, w @ u_sorted @ w.conj().T, t, "gate:placement:ids_conjugation", f"{name} ids={ids}")
        if ids != sorted(ids) and name in ("cz", "swap", "zz90"):
            ctx.close(u, u_sorted, t, "gate:symmetric_gate_ignores_ids_order")
    # generated object
    ctx.check(type(obj).__name__ == "Gate", "gate:type")
    ctx.close(obj.hs, g, t, "gate:object_hs_equals_gate_mat")
    ctx.check(bool(obj.is_physical()), "gate:is_physical")
    ctx.equal(int(obj.dim), d, "gate:object_dim")
    obj2 = qt.generate_qoperation(mode="gate", name=name, c_sys=c_sys, ids=ids)
    ctx.close(obj2.hs, obj.hs, 0.0, "gate:dispatcher_same")
    ctx.close(qt.generate_gate_object(name, "unitary_mat", dims=R.dims_of(sys_), ids=ids), u, 0.0, "gate:dispatcher_form:unitary_mat")
    ctx.close(qt.generate_gate_object(name, "gate_mat", dims=R.dims_of(sys_), ids=ids), g, 0.0, "gate:dispatcher_form:gate_mat")


# ----------------------------------------------------------------------------- facets: 2-qutrit gates
N_SAMPLE_TWO = 400
N_GATE_OBJECTS = {"quick": 24, "thorough": 200}
N_LINDBLADIAN_2QT = {"quick": 40, "thorough": 1500}


def _seed():
    return os.environ.get("VERIF_SEED", "1")


def _hash_order(names, salt):
    s = _seed()
    return sorted(names, key=lambda n: hashlib.sha256(f"{s}|{salt}|{n}".encode()).hexdigest())


def qutrit2_single_items(tier):
    from quara.objects import gate_typical as gt

    names = gt.get_gate_names_2qutrit_single_base_matrix()
    chosen = set(_hash_order(names, "obj1")[: N_GATE_OBJECTS[tier] // 2])
    return [{"sys": "2qutrit", "name": n, "level": "gate" if n in chosen else "mat"} for n in names]


def qutrit2_two_items(tier):
    from quara.objects import gate_typical as gt

    names = gt.get_gate_names_2qutrit_two_base_matrices()
    order = _hash_order(names, "two") if tier == "quick" else None
    if tier == "quick":
        names = order[:N_SAMPLE_TWO]
        chosen = set(names[: N_GATE_OBJECTS[tier] // 2])
    else:
        chosen = set(_hash_order(names[:: 39], "obj2")[: N_GATE_OBJECTS[tier] // 2])
    return [{"sys": "2qutrit", "name": n, "level": "gate" if n in chosen else "mat"} for n in names]


def check_gate_2qutrit(item, ctx):
    from quara.objects import effective_lindbladian_typical as elt
    from quara.objects import gate_typical as gt

    sys_, name = "2qutrit", item["name"]
    t = tol_of(sys_, 4.0)
    h_ref = R.hamiltonian_2qutrit(name)
    two = "_" in name
    commute = R.terms_commute_2qutrit(name)
    ctx.label("two_term" if two else "single_term", "commuting" if commute else "non_commuting", "level:" + item["level"])
    ctx.nontrivial((two and not commute) or (not two))
    h = elt.generate_hamiltonian_mat_from_gate_name(name)
    ctx.close(h, h_ref, t, "gate2qt:hamiltonian_mat_textbook")
    u = gt.generate_unitary_mat_from_gate_name(name)
    g = gt.generate_gate_mat_from_gate_name(name)
    if not check_unitary_and_hs(ctx, sys_, u, g, "gate2qt"):
        return
    ctx.close(u, R.expm_herm(h_ref), t, "gate2qt:unitary_is_exp_minus_i_h")
    # ids are accepted and documented as roles; the Hamiltonian of these names does not depend on them
    if item["level"] == "gate":
        # ids are accepted and documented as roles; the Hamiltonian of these names does not depend on them
        ctx.close(gt.generate_gate_mat_from_gate_name(name, ids=[0, 1]), g, 0.0, "gate2qt:ids_ascending_same")
        c_sys = csys(sys_)
        obj = gt.generate_gate_object_from_gate_name_object_name(name, "gate", c_sys=c_sys)
        ctx.check(type(obj).__name__ == "Gate", "gate2qt:type")
        ctx.close(obj.hs, g, t, "gate2qt:object_hs_equals_gate_mat")
        ctx.check(bool(obj.is_physical()), "gate2qt:is_physical")


# ----------------------------------------------------------------------------- facet: effective Lindbladians
def lindbladian_items(tier):
    from quara.objects import gate_typical as gt

    items = []
    for it in small_gate_items():
        it = dict(it)
        # the generated object costs seconds on 8- and 9-dimensional systems (calc_k_mat): gapped ids add nothing there
        gapped = it["ids"] is not None and sorted(it["ids"]) != list(range(len(it["ids"])))
        it["level"] = "mat" if (it["sys"] == "3q" and gapped and tier == "quick") else "object"
        items.append(it)
    names = gt.get_gate_names_2qutrit()
    chosen = _hash_order(names[:: 13], "el")[: N_LINDBLADIAN_2QT[tier]]
    n_obj = 8 if tier == "quick" else 100
    items += [{"sys": "2qutrit", "name": n, "ids": None, "level": "object" if i < n_obj else "mat"} for i, n in enumerate(chosen)]
    return items


def check_lindbladian(item, ctx):
    from quara.objects import effective_lindbladian_typical as elt
    from quara.objects import gate_typical as gt
    from quara.objects import qoperation_typical as qt

    sys_, name, ids = item["sys"], item["name"], item["ids"]
    d = R.dim_of(sys_)
    dims = R.dims_of(sys_)
    c_sys = csys(sys_, sorted(ids) if ids else None)
    gen = elt.generate_effective_lindbladian_object_from_gate_name_object_name
    ctx.label(sys_, "identity" if name == "identity" else "named")
    ctx.nontrivial(name != "identity")
    h = gen(name, "hamiltonian_mat", dims=dims, ids=ids)
    if not ctx.check(isinstance(h, np.ndarray) and h.shape == (d, d), "el:hamiltonian_mat_shape"):
        return
    scale = float(np.max(np.abs(h))) if h.size else 0.0
    t = tol_of(sys_, scale)
    ctx.leq(rm.hermiticity_defect(h), 0.0, t, "el:hamiltonian_hermitian")
    hv = gen(name, "hamiltonian_vec", dims=dims, ids=ids)
    ctx.check(is_real_array(hv), "el:hamiltonian_vec_real")
    ctx.close(hv, R.vec_of(sys_, h).real, t, "el:hamiltonian_vec_is_refmodel_vec_of_mat")
    u = gt.generate_unitary_mat_from_gate_name(name, dims, ids)
    g = gt.generate_gate_mat_from_gate_name(name, dims, ids)
    u_h = R.expm_herm(h)
    ctx.close(u, R.phase_align(u, u_h), 1e-10 * (1 + scale) * d, "el:exp_minus_i_h_is_unitary_mat_up_to_phase", name)
    lmat = gen(name, "effective_lindbladian_mat", dims=dims, ids=ids)
    if not ctx.check(is_real_array(lmat) and lmat.shape == (d * d, d * d), "el:lindbladian_mat_shape_real"):
        return
    l_ref = R.hs_of_commutator(sys_, h)
    ctx.close(lmat, l_ref.real, t * 4, "el:lindbladian_mat_is_refmodel_commutator_hs")
    # physical generator: trace preserving (first row zero) and purely Hamiltonian (antisymmetric => K = 0 >= 0)
    ctx.close(lmat[0], np.zeros(d * d), t, "el:ref_generator_tp")
    ctx.close(lmat + lmat.T, np.zeros((d * d, d * d)), t * 4, "el:ref_generator_antisymmetric")
    ctx.close(R.expm_antisym(lmat).real, g, 1e-10 * (1 + scale) * d * d, "el:expm_lindbladian_is_gate_mat", name)
    ctx.label("level:" + item.get("level", "object"))
    if item.get("level", "object") != "object":
        return
    # built without the constructor check and judged once (is_cp costs seconds on 8/9-dimensional systems)
    el = gen(name, "effective_lindbladian", ids=ids, c_sys=c_sys, is_physicality_required=False)
    ctx.check(type(el).__name__ == "EffectiveLindbladian", "el:type")
    ctx.close(el.hs, lmat, t, "el:object_hs_equals_mat")
    ctx.check(bool(el.is_physical()), "el:is_physical")
    ctx.close(el.to_gate().hs, g, 1e-10 * (1 + scale) * d * d, "el:to_gate_is_gate_mat")
    el2 = qt.generate_effective_lindbladian_object(name, "effective_lindbladian", dims=dims, ids=ids, c_sys=c_sys,
                                                   is_physicality_required=False)
    ctx.close(el2.hs, el.hs, 0.0, "el:dispatcher_same")
    if d <= 4:
        ctx.check(bool(gen(name, "effective_lindbladian", ids=ids, c_sys=c_sys).is_physicality_required), "el:constructible_with_physicality_required")


# ----------------------------------------------------------------------------- facet: measurement processes
def mprocess_items(tier):
    from quara.objects import mprocess_typical as mt

    return [{"name": n, "sys": R.MPROCESS_SYS[n.split("-")[0]]} for n in mt.get_mprocess_names_type1() + mt.get_mprocess_names_type2()]


def check_mprocess(item, ctx):
    from quara.objects import mprocess_typical as mt
    from quara.objects import povm_typical as pt
    from quara.objects import qoperation_typical as qt

    name, sys_ = item["name"], item["sys"]
    base, typ = name.split("-")
    d = R.dim_of(sys_)
    t = tol_of(sys_)
    c_sys = csys(sys_)
    gen = mt.generate_mprocess_object_from_mprocess_name_object_name
    ref = R.mprocess_kraus(name)
    m = len(ref)
    ctx.label(sys_, typ, f"outcomes:{m}", "multi_kraus" if any(len(k) > 1 for k in ref) else "single_kraus")
    ctx.nontrivial(True)

    ks = gen(name, "set_kraus_matrices")
    ok = ctx.check(isinstance(ks, list) and len(ks) == m and all(as_list_of_arrays(k, len(r)) for k, r in zip(ks, ref)),
                   "mprocess:kraus_nesting", lambda: repr([len(k) for k in ks]) if isinstance(ks, list) else repr(type(ks)))
    if not ok:
        return
    for x in range(m):
        for j in range(len(ref[x])):
            ctx.close(ks[x][j], ref[x][j], t, "mprocess:textbook_kraus", f"outcome {x} kraus {j}")
    vref = R.mprocess_vectors(name)
    if vref is not None:
        vs = gen(name, "set_pure_state_vectors")
        if ctx.check(isinstance(vs, list) and len(vs) == m and all(as_list_of_arrays(v, len(r)) for v, r in zip(vs, vref)),
                     "mprocess:vectors_nesting"):
            for x in range(m):
                for j in range(len(vref[x])):
                    ctx.close(np.outer(vs[x][j], np.conj(vs[x][j])), ks[x][j], t, "mprocess:kraus_is_projector_of_vector", f"{x},{j}")
    else:
        ctx.raises(ValueError, lambda: gen(name, "set_pure_state_vectors"), "mprocess:no_vectors_for_kraus_defined_names")
    hss = gen(name, "hss", c_sys)
    if not ctx.check(as_list_of_arrays(hss, m) and all(is_real_array(h) for h in hss), "mprocess:hss_real_list"):
        return
    for x in range(m):
        ctx.close(hss[x], R.hs_of_kraus(sys_, ks[x]).real, t, "mprocess:hs_is_refmodel_hs_of_kraus", f"outcome {x}")
    mp = gen(name, "mprocess", c_sys)
    ctx.check(type(mp).__name__ == "MProcess", "mprocess:type")
    ctx.equal(int(mp.num_outcomes), m, "mprocess:num_outcomes")
    for x in range(m):
        ctx.close(mp.hss[x], hss[x], 0.0, "mprocess:object_hss_equal_hss_form", f"outcome {x}")
    ctx.check(bool(mp.is_physical()), "mprocess:is_physical")
    # reference physicality: the sum is trace preserving, every outcome map completely positive
    n = d * d
    e0 = np.zeros(n)
    e0[0] = 1
    ctx.close(sum(mp.hss)[0], e0, t, "mprocess:ref_sum_tp")
    for x in range(m):
        ctx.leq(-rm.min_eig(R.choi_of_hs(sys_, mp.hss[x])), 0.0, t * d, "mprocess:ref_cp", f"outcome {x}")
    # induced POVM
    pv = mp.to_povm()
    pm = pv.matrices()
    e_ref = [sum(k.conj().T @ k for k in ref[x]) for x in range(m)]
    if ctx.check(as_list_of_arrays(pm, m), "mprocess:to_povm_length"):
        for x in range(m):
            ctx.close(pm[x], e_ref[x], t, "mprocess:to_povm_is_sum_kdagger_k", f"outcome {x}")
        if base in ("xxparity", "zzparity"):
            named = getattr(pt, f"get_povm_{base}_povm_matrices")()
        else:
            named = pt.generate_povm_matrices_from_name(base)
        if ctx.check(as_list_of_arrays(named, m), "mprocess:named_povm_length"):
            for x in range(m):
                ctx.close(pm[x], named[x], t, "mprocess:to_povm_is_povm_of_same_name", f"outcome {x}")
    mp2 = qt.generate_qoperation(mode="mprocess", name=name, c_sys=c_sys)
    for x in range(m):
        ctx.close(mp2.hss[x], mp.hss[x], 0.0, "mprocess:dispatcher_same", f"outcome {x}")


# ----------------------------------------------------------------------------- facet: state ensembles
def ensemble_items(tier):
    from quara.objects import state_ensemble_typical as se

    return [{"name": n} for n in se.get_state_ensemble_names()]


def known_ensemble_without_constructor(case):
    """C17-F2: catalogued ensemble names for which no get_state_ensemble_<name>_elements exists."""
    return case.get("name") in ("x1", "y0", "y1", "a")


def check_ensemble(item, ctx):
    from quara.objects import qoperation_typical as qt
    from quara.objects import state_ensemble_typical as se

    name = item["name"]
    c_sys = csys("1q")
    ctx.label("ensemble")
    ctx.nontrivial(True)
    ens, err = try_call(lambda: se.generate_state_ensemble_object_from_state_ensemble_name_object_name(name, "state_ensemble", c_sys))
    if not ctx.check(err is None, "ensemble:can_be_generated", lambda: f"{name}: {type(err).__name__}: {err}"):
        ctx.label("not_generatable")
        return
    ctx.check(type(ens).__name__ == "StateEnsemble", "ensemble:type")
    ps = np.asarray(ens.prob_dist.ps, dtype=float)
    ctx.equal(len(ens.states), int(ps.size), "ensemble:lengths")
    ctx.check(bool(np.all(ps >= 0)), "ensemble:probabilities_nonnegative")
    ctx.close(ps.sum(), 1.0, 1e-12, "ensemble:probabilities_sum_one")
    for i, s in enumerate(ens.states):
        ctx.check(bool(s.is_physical()), "ensemble:state_is_physical", f"state {i}")
        physical_state(ctx, "1q", s.vec, "ensemble")
    ens2 = qt.generate_qoperation_object(mode="state_ensemble", name=name, object_name="state_ensemble", c_sys=c_sys)
    ctx.close(np.asarray(ens2.prob_dist.ps, dtype=float), ps, 0.0, "ensemble:dispatcher_same_probabilities")
    for a, b in zip(ens2.states, ens.states):
        ctx.close(a.vec, b.vec, 0.0, "ensemble:dispatcher_same_states")


# ----------------------------------------------------------------------------- facet: legacy named constructors, testers
LEGACY_GATES_1Q = {"get_i": "identity", "get_x": "x", "get_y": "y", "get_z": "z", "get_h": "hadamard", "get_root_x": "x90",
                   "get_root_y": "y90", "get_s": "phase", "get_sdg": "phase_daggered", "get_t": "piover8"}
LEGACY_STATES_1Q = {"get_x0_1q": "x0", "get_x1_1q": "x1", "get_y0_1q": "y0", "get_y1_1q": "y1", "get_z0_1q": "z0", "get_z1_1q": "z1"}
LEGACY_STATE_TYPICAL_1Q = {"get_state_" + k + "_1q": k for k in ("x0", "x1", "y0", "y1", "z0", "z1", "a")}


def legacy_items(tier):
    items = []
    for bk in ("normal", "hermitian"):
        items += [{"kind": "gate1q", "fn": f, "basis": bk} for f in LEGACY_GATES_1Q]
        items += [{"kind": "gate2q", "fn": f, "basis": bk} for f in ("get_cnot:0", "get_cnot:1", "get_cz", "get_swap", "get_i")]
        items += [{"kind": "state1q", "module": "state", "fn": f, "basis": bk} for f in LEGACY_STATES_1Q]
        items += [{"kind": "state1q", "module": "state_typical", "fn": f, "basis": bk} for f in LEGACY_STATE_TYPICAL_1Q]
        items += [{"kind": "state2q", "module": m, "fn": f, "basis": bk} for m, f in (("state", "get_bell_2q"), ("state_typical", "get_state_bell_2q"))]
        items += [{"kind": "povm1q", "fn": f"get_{a}_povm", "basis": bk} for a in "xyz"]
        items += [{"kind": "povm2q", "fn": f"get_{a}{b}_povm", "basis": bk} for a in "xyz" for b in "xyz"]
    items += [{"kind": "tester", "what": w, "sys": s} for w in ("states", "povms") for s in ("1q", "2q", "qutrit", "2qutrit")]
    return items


def _legacy_csys(n, kind):
    from harness import build

    return build.c_sys_for("1q" if n == 1 else "2q", kind=kind)


def _q_basis(c_sys):
    from harness import build

    b = build.quara_basis_matrices(c_sys)
    if not rm.is_orthonormal(b):
        raise AssertionError("legacy facet expects an orthonormal basis")
    return b


def check_legacy(item, ctx):
    kind = item["kind"]
    if kind == "tester":
        return _check_tester(item, ctx)
    import quara.objects.gate as qgate
    import quara.objects.povm as qpovm
    import quara.objects.state as qstate
    from quara.objects import gate_typical as gt
    from quara.objects import povm_typical as pt
    from quara.objects import state_typical as stt

    bk = item["basis"]
    n = 2 if kind.endswith("2q") else 1
    sys_ = "2q" if n == 2 else "1q"
    c_sys = _legacy_csys(n, bk)
    qb = _q_basis(c_sys)
    t = tol_of(sys_)
    ctx.label(kind, "basis:" + bk)
    ctx.nontrivial(item["fn"] != "get_i")
    if kind.startswith("gate"):
        fn = item["fn"]
        if fn.startswith("get_cnot"):
            k = int(fn.split(":")[1])
            g = qgate.get_cnot(c_sys, c_sys.elemental_systems[k])
            name, ids = "cx", [k, 1 - k]
        else:
            g = getattr(qgate, fn)(c_sys)
            name = LEGACY_GATES_1Q.get(fn) if n == 1 else {"get_cz": "cz", "get_swap": "swap", "get_i": "identity"}[fn]
            ids = [0, 1] if n == 2 else None
        ctx.check(type(g).__name__ == "Gate", "legacy:gate_type")
        u_ref = R.unitary(name, sys_, ids)
        ctx.close(g.hs, rm.hs_from_kraus(qb, [u_ref]).real, t, "legacy:gate_textbook_hs", f"{fn} -> {name}")
        ctx.check(bool(g.is_physical()), "legacy:gate_is_physical")
        if bk == "normal":  # the catalogue gate matrices are defined on the normalised Pauli basis only
            cat = gt.generate_gate_from_gate_name(name, c_sys, ids)
            ctx.close(g.hs, cat.hs, t, "legacy:gate_equals_catalogue_gate", f"{fn} vs {name}")
        return
    if kind.startswith("state"):
        mod = qstate if item["module"] == "state" else stt
        s = getattr(mod, item["fn"])(c_sys)
        name = "bell_phi_plus" if n == 2 else (LEGACY_STATES_1Q.get(item["fn"]) or LEGACY_STATE_TYPICAL_1Q[item["fn"]])
        ctx.check(type(s).__name__ == "State", "legacy:state_type")
        rho_ref = R.proj(R.ket(name, sys_))
        ctx.close(s.vec, rm.vec(qb, rho_ref).real, t, "legacy:state_textbook_vec", f"{item['fn']} -> {name}")
        ctx.check(bool(s.is_physical()), "legacy:state_is_physical")
        cat = stt.generate_state_from_name(c_sys, name)
        ctx.close(s.vec, cat.vec, t, "legacy:state_equals_catalogue_state", f"{item['fn']} vs {name}")
        return
    # povms
    p = getattr(qpovm, item["fn"])(c_sys)
    axes = item["fn"][4:-5]
    name = "_".join(axes)
    ref, _ = R.povm(name)
    ctx.check(type(p).__name__ == "Povm", "legacy:povm_type")
    if ctx.check(len(p.vecs) == len(ref), "legacy:povm_num_outcomes"):
        for i, e in enumerate(ref):
            ctx.close(p.vecs[i], rm.vec(qb, e).real, t, "legacy:povm_textbook_vecs", f"{item['fn']} element {i}")
        ctx.check(bool(p.is_physical()), "legacy:povm_is_physical")
        cat = pt.generate_povm_from_name(name, c_sys)
        for i in range(len(ref)):
            ctx.close(p.vecs[i], cat.vecs[i], t, "legacy:povm_equals_catalogue_povm", f"{item['fn']} element {i}")


def _check_tester(item, ctx):
    from quara.objects import tester_typical as tt

    sys_, what = item["sys"], item["what"]
    mode, num = R.SYS[sys_]
    one = "1q" if mode == "qubit" else "qutrit"
    c_sys = csys(sys_)
    t = tol_of(sys_)
    ctx.label("tester", what, sys_)
    ctx.nontrivial(num > 1)
    if what == "states":
        names = ["x0", "y0", "z0", "z1"] if mode == "qubit" else ["01z0", "12z0", "02z1", "01x0", "01y0", "12x0", "12y0", "02x0", "02y0"]
        got = tt.generate_tester_states(c_sys, names)
        combos = list(itertools.product(names, repeat=num))
        if ctx.check(isinstance(got, list) and len(got) == len(combos), "tester:states_count"):
            for s, combo in zip(got, combos):
                rho = R.proj(R._kron_all([R.ket(nm, one) for nm in combo]))
                ctx.close(s.vec, R.vec_of(sys_, rho).real, t, "tester:state_is_product_of_named_states", "_".join(combo))
                ctx.check(bool(s.is_physical()), "tester:state_is_physical")
    else:
        names = ["x", "y", "z"] if mode == "qubit" else ["01x3", "01y3", "z3", "12x3", "12y3", "02x3", "02y3"]
        got = tt.generate_tester_povms(c_sys, names)
        combos = list(itertools.product(names, repeat=num))
        if ctx.check(isinstance(got, list) and len(got) == len(combos), "tester:povms_count"):
            for p, combo in zip(got, combos):
                ref, _ = R.povm("_".join(combo))
                if ctx.check(len(p.vecs) == len(ref), "tester:povm_num_outcomes"):
                    for i, e in enumerate(ref):
                        ctx.close(p.vecs[i], R.vec_of(sys_, e).real, t, "tester:povm_is_product_of_named_povms", "_".join(combo))
                ctx.check(bool(p.is_physical()), "tester:povm_is_physical")


# ----------------------------------------------------------------------------- facet: named bases and generate_composite_system
def bases_items(tier):
    items = []
    for dim in (2, 3, 4):
        for mode in ("row_major", "column_major"):
            items.append({"fn": "get_comp_basis", "kw": {"dim": dim, "mode": mode}})
        items.append({"fn": "get_hermitian_basis", "kw": {"dim": dim}})
        items.append({"fn": "get_normalized_hermitian_basis", "kw": {"dim": dim}})
    for n in (1, 2, 3):
        items.append({"fn": "get_pauli_basis", "kw": {"n_qubit": n}})
        items.append({"fn": "get_normalized_pauli_basis", "kw": {"n_qubit": n}})
    items.append({"fn": "get_gell_mann_basis", "kw": {}})
    items.append({"fn": "get_normalized_gell_mann_basis", "kw": {}})
    for n, dim in ((1, 2), (1, 3), (1, 4), (1, 5), (2, 2), (2, 3), (2, 4)):
        items.append({"fn": "get_generalized_gell_mann_basis", "kw": {"n_qubit": n, "dim": dim}})
        items.append({"fn": "get_normalized_generalized_gell_mann_basis", "kw": {"n_qubit": n, "dim": dim}})
    for mode, nums in (("qubit", (1, 2, 3, 4)), ("qutrit", (1, 2, 3))):
        for num in nums:
            for ids in (None, "reversed", "gapped"):
                for sparse in (False, True):
                    items.append({"fn": "generate_composite_system", "mode": mode, "num": num, "ids": ids, "is_sparse": sparse})
    return items


def _arrays(basis):
    return [np.asarray(b.toarray() if hasattr(b, "toarray") else b, dtype=complex) for b in basis]


def _ref_named_basis(fn, kw):
    """(reference matrices or None, advertised facts) of a named basis, from the definitions."""
    if fn == "get_comp_basis":
        return rm.comp_basis(kw["dim"], kw["mode"]), dict(orth=True, normal=True, herm=False, id0=False)
    if fn == "get_pauli_basis":
        return rm.kron_bases([rm.pauli_1q(False)] * kw["n_qubit"]), dict(orth=True, normal=False, herm=True, id0=True, norm2=2.0 ** kw["n_qubit"])
    if fn == "get_normalized_pauli_basis":
        return rm.kron_bases([rm.pauli_1q(True)] * kw["n_qubit"]), dict(orth=True, normal=True, herm=True, id0=True)
    if fn == "get_hermitian_basis":
        return rm.hermitian_eij_basis(kw["dim"], False), dict(orth=True, normal=False, herm=True, id0=False)
    if fn == "get_normalized_hermitian_basis":
        return rm.hermitian_eij_basis(kw["dim"], True), dict(orth=True, normal=True, herm=True, id0=False)
    if fn == "get_gell_mann_basis":
        return rm.gell_mann(False), dict(orth=True, normal=False, herm=True, id0=True, norm2=2.0)
    if fn == "get_normalized_gell_mann_basis":
        return rm.gell_mann(True), dict(orth=True, normal=True, herm=True, id0=True)
    n, dim = kw["n_qubit"], kw["dim"]
    normalized = fn == "get_normalized_generalized_gell_mann_basis"
    ref = None
    if dim == 2:
        ref = rm.kron_bases([rm.pauli_1q(normalized)] * n)
    elif dim == 3:  # the 2-qutrit gate catalogue relies on this basis being the Gell-Mann product basis of the composite system
        ref = rm.kron_bases([rm.gell_mann(normalized)] * n)
    facts = dict(orth=True, normal=normalized, herm=True, id0=True)
    if not normalized:
        facts["norm2"] = 2.0 ** n
    return ref, facts


def check_bases(item, ctx):
    from quara.objects import matrix_basis as mb

    fn = item["fn"]
    if fn == "generate_composite_system":
        return _check_composite_system(item, ctx)
    kw = item["kw"]
    basis = getattr(mb, fn)(**kw)
    arrs = _arrays(basis)
    d = arrs[0].shape[0]
    ref, facts = _ref_named_basis(fn, kw)
    t = rm.algebraic_tol(d)
    ctx.label(fn, f"dim:{d}")
    ctx.nontrivial(d > 2 or fn != "get_comp_basis")
    ctx.equal(len(arrs), d * d, "basis:size")
    ctx.equal(int(basis.dim), d, "basis:dim")
    if ref is not None and ctx.check(len(ref) == len(arrs), "basis:reference_size"):
        for a, (x, y) in enumerate(zip(arrs, ref)):
            ctx.close(x, y, t, "basis:elements_equal_definition", f"{fn}{kw} element {a}")
    m = np.array([x.reshape(-1) for x in arrs])
    gram = m.conj() @ m.T
    off = gram - np.diag(np.diag(gram))
    ctx.close(off, np.zeros_like(off), t, "basis:orthogonal_as_advertised")
    diag = np.real(np.diag(gram))
    if facts["normal"]:
        ctx.close(diag, np.ones(d * d), t, "basis:normalised_as_advertised")
    elif "norm2" in facts:
        ctx.close(diag, facts["norm2"] * np.ones(d * d), t * facts["norm2"], "basis:stated_norm")
    herm = max(rm.hermiticity_defect(x) for x in arrs) <= t
    ctx.check(herm == facts["herm"], "basis:hermitian_as_advertised")
    id0 = bool(np.max(np.abs(arrs[0] - arrs[0][0, 0] * np.eye(d))) <= t and abs(arrs[0][0, 0]) > t)
    ctx.check(id0 == facts["id0"], "basis:identity_first_as_advertised")
    if facts["id0"]:
        ctx.close(np.array([np.trace(x) for x in arrs[1:]]), np.zeros(d * d - 1), t, "basis:traceless_rest")
        if facts["normal"]:
            ctx.close(arrs[0], np.eye(d) / np.sqrt(d), t, "basis:first_is_normalised_identity")
    # quara's own verdicts agree with the facts
    ctx.check(bool(basis.is_orthogonal()) is True, "basis:verdict_is_orthogonal")
    ctx.check(bool(basis.is_normal()) == bool(np.max(np.abs(diag - 1)) <= t), "basis:verdict_is_normal")
    ctx.check(bool(basis.is_hermitian()) == facts["herm"], "basis:verdict_is_hermitian")
    ctx.check(bool(basis.is_0thpropI()) == facts["id0"], "basis:verdict_is_0thpropI")
    # (MatrixBasis.is_trace_less compares the float trace with 0 exactly and answers False for the dim-4 generalised
    #  Gell-Mann basis, whose last diagonal element has trace 1 ulp; no caller uses it and the property is about the basis,
    #  which is traceless to rounding (oracle basis:traceless_rest) - recorded in notes/c17.md, not asserted.)


def _check_composite_system(item, ctx):
    from quara.objects.composite_system_typical import generate_composite_system

    mode, num, sparse = item["mode"], item["num"], item["is_sparse"]
    ids = {None: None, "reversed": list(range(num))[::-1], "gapped": [3 * k + 2 for k in range(num)][::-1]}[item["ids"]]
    dloc = 2 if mode == "qubit" else 3
    d = dloc ** num
    ctx.label("generate_composite_system", mode, f"num:{num}", f"ids:{item['ids']}", f"sparse:{sparse}")
    ctx.nontrivial(num > 1)
    c_sys = generate_composite_system(mode, num, ids_esys=ids, is_sparse=sparse)
    ctx.equal(int(c_sys.dim), d, "csys:dim")
    ctx.equal(int(c_sys.num_e_sys), num, "csys:num_e_sys")
    ctx.equal([e.name for e in c_sys.elemental_systems], sorted(ids) if ids is not None else list(range(num)), "csys:names_ascending")
    ctx.equal([int(c_sys.dim_e_sys(i)) for i in range(num)], [dloc] * num, "csys:local_dims")
    ctx.check(c_sys.is_orthonormal_hermitian_0thprop_identity is True, "csys:advertised_flag")
    if d <= 16:
        arrs = _arrays(c_sys.basis())
        ref = rm.kron_bases([rm.pauli_1q(True) if dloc == 2 else rm.gell_mann(True)] * num)
        t = rm.algebraic_tol(d)
        if ctx.check(len(arrs) == len(ref), "csys:basis_size"):
            for a, (x, y) in enumerate(zip(arrs, ref)):
                ctx.close(x, y, t, "csys:basis_is_product_of_normalised_local_bases", f"element {a}")
        comp = _arrays(c_sys.comp_basis())
        refc = rm.comp_basis(d)
        if ctx.check(len(comp) == len(refc), "csys:comp_basis_size"):
            for a, (x, y) in enumerate(zip(comp, refc)):
                ctx.close(x, y, 0.0, "csys:comp_basis_row_major", f"element {a}")
    loc = type(c_sys.elemental_systems[0].basis).__name__
    small = (mode == "qubit" and num <= 3) or (mode == "qutrit" and num <= 2)
    ctx.equal(loc, "SparseMatrixBasis" if (sparse or not small) else "MatrixBasis", "csys:local_basis_class")


# ----------------------------------------------------------------------------- facet: truth table
def truth_items(tier):
    return [{"sys": s, "name": g, "ids": ids, "in": a, "out": b} for s, g, ids, a, b in R.TRUTH]


def check_truth(item, ctx):
    from quara.objects import gate_typical as gt
    from quara.objects import state_typical as stt
    from quara.objects.operators import compose_qoperations

    sys_, name, ids, a, b = item["sys"], item["name"], item["ids"], item["in"], item["out"]
    t = tol_of(sys_)
    rho_in, rho_out = R.proj(R.ket(a, sys_)), R.proj(R.ket(b, sys_))
    u_ref = R.unitary(name, sys_, ids)
    if not np.allclose(u_ref @ rho_in @ u_ref.conj().T, rho_out, atol=1e-12):
        raise AssertionError(f"truth table entry is inconsistent with the table of unitaries: {item}")
    multi = sys_ in ("2q", "3q") and name != "identity"
    ctx.label(sys_, name, "moved" if a != b else "fixed_point")
    ctx.nontrivial(a != b)
    c_sys = csys(sys_)
    g = gt.generate_gate_from_gate_name(name, c_sys, ids)
    s_in = stt.generate_state_from_name(c_sys, a)
    s_out = stt.generate_state_from_name(c_sys, b)
    res = compose_qoperations(g, s_in)
    ctx.check(type(res).__name__ == "State", "truth:result_type")
    oracle = "truth:placement:output_state" if multi else "truth:output_state"
    ctx.close(res.vec, R.vec_of(sys_, rho_out).real, t, oracle, f"{name}{ids or ''} . {a} should be {b}")
    ctx.close(res.vec, s_out.vec, t, oracle, f"{name}{ids or ''} . {a} should be the catalogue state {b}")
    ctx.check(bool(res.is_physical()), "truth:result_is_physical")


# ----------------------------------------------------------------------------- facet: catalogues (names and counts)
def catalogue_items(tier):
    return [{"catalogue": c} for c in ("state", "povm", "gate", "gate_2qutrit", "mprocess", "ensemble", "object_names")]


def _same_names(ctx, got, exp, oracle):
    ctx.check(isinstance(got, list) and len(got) == len(set(got)), oracle + ":no_duplicates")
    miss, extra = sorted(set(exp) - set(got))[:5], sorted(set(got) - set(exp))[:5]
    ctx.check(not miss and not extra, oracle + ":names", f"missing {miss} unexpected {extra}")
    ctx.equal(len(got), len(exp), oracle + ":count")


def check_catalogue(item, ctx):
    from quara.objects import gate_typical as gt
    from quara.objects import mprocess_typical as mt
    from quara.objects import povm_typical as pt
    from quara.objects import qoperation_typical as qt
    from quara.objects import state_ensemble_typical as se
    from quara.objects import state_typical as stt

    c = item["catalogue"]
    ctx.label(c)
    ctx.nontrivial(True)
    if c == "state":
        exp = R.expected_state_names()
        for k, f in (("1q", stt.get_state_names_1qubit), ("2q", stt.get_state_names_2qubit), ("3q", stt.get_state_names_3qubit),
                     ("qutrit", stt.get_state_names_1qutrit), ("2qutrit", stt.get_state_names_2qutrit)):
            _same_names(ctx, f(), exp[k], f"catalogue:state:{k}")
        _same_names(ctx, stt.get_state_names(), sum(exp.values(), []), "catalogue:state:all")
        ctx.equal(len(stt.get_state_names()), 749, "catalogue:state:749")
    elif c == "povm":
        exp = R.expected_povm_names()
        for k, f in (("1q", pt.get_povm_names_1qubit), ("2q", pt.get_povm_names_2qubit), ("3q", pt.get_povm_names_3qubit),
                     ("qutrit", pt.get_povm_names_1qutrit), ("2qutrit", pt.get_povm_names_2qutrit)):
            _same_names(ctx, f(), exp[k], f"catalogue:povm:{k}")
        _same_names(ctx, pt.get_povm_names(), sum(exp.values(), []), "catalogue:povm:all")
        ctx.equal(len(pt.get_povm_names()), 112, "catalogue:povm:112")
    elif c == "gate":
        exp = R.expected_gate_names()
        for k, f in (("1q", gt.get_gate_names_1qubit), ("2q", gt.get_gate_names_2qubit), ("3q", gt.get_gate_names_3qubit),
                     ("qutrit", gt.get_gate_names_1qutrit)):
            _same_names(ctx, f(), exp[k], f"catalogue:gate:{k}")
        _same_names(ctx, gt.get_gate_names_2qubit_asymmetric(), ["cx", "zx90"], "catalogue:gate:2q_asymmetric")
        _same_names(ctx, gt.get_gate_names_3qubit_asymmetric(), ["toffoli", "fredkin"], "catalogue:gate:3q_asymmetric")
    elif c == "gate_2qutrit":
        exp = R.expected_gate_names()
        _same_names(ctx, gt.get_gate_names_2qutrit_single_base_matrix(), exp["2qutrit_single"], "catalogue:gate:2qutrit_single")
        _same_names(ctx, gt.get_gate_names_2qutrit_two_base_matrices(), exp["2qutrit_two"], "catalogue:gate:2qutrit_two")
        ctx.equal(len(gt.get_gate_names_2qutrit()), 39204, "catalogue:gate:39204")
        allg = ["identity"] + exp["1q"] + exp["2q"] + exp["3q"] + exp["qutrit"] + exp["2qutrit_single"] + exp["2qutrit_two"]
        _same_names(ctx, gt.get_gate_names(), allg, "catalogue:gate:all")
    elif c == "mprocess":
        _same_names(ctx, mt.get_mprocess_names_type1(), R.EXPECTED_MPROCESS_TYPE1, "catalogue:mprocess:type1")
        _same_names(ctx, mt.get_mprocess_names_type2(), R.EXPECTED_MPROCESS_TYPE2, "catalogue:mprocess:type2")
    elif c == "ensemble":
        # no docstring fixes this list: only require well-formed 1-qubit state names (see C17-F2 for the unimplemented ones)
        got = se.get_state_ensemble_names()
        ctx.check(isinstance(got, list) and len(got) == len(set(got)) and len(got) >= 3, "catalogue:ensemble:no_duplicates")
        ctx.check(set(got) <= set(R.expected_state_names()["1q"]), "catalogue:ensemble:subset_of_1q_state_names", repr(got))
    else:
        _same_names(ctx, pt.get_povm_object_names(), ["pure_state_vectors", "matrices", "vectors", "povm"], "catalogue:object_names:povm")
        _same_names(ctx, qt.get_gate_object_names(), ["unitary_mat", "gate_mat", "gate"], "catalogue:object_names:gate")
        _same_names(ctx, mt.get_mprocess_object_names(), ["set_pure_state_vectors", "set_kraus_matrices", "hss", "mprocess"], "catalogue:object_names:mprocess")
        _same_names(ctx, qt.get_effective_lindbladian_object_names(),
                    ["hamiltonian_vec", "hamiltonian_mat", "effective_lindbladian_mat", "effective_lindbladian"], "catalogue:object_names:lindbladian")


# ----------------------------------------------------------------------------- facet: generic dispatcher (qoperation_typical) forms
def dispatch_items(tier):
    items = [{"mode": "povm", "name": n, "sys": s, "form": f}
             for s, n in (("1q", "x"), ("2q", "bell"), ("2q", "x_y"), ("qutrit", "z2"), ("qutrit", "01x3"))
             for f in ("matrices", "vectors", "povm", "pure_state_vectors")]
    items += [{"mode": "mprocess", "name": n, "sys": s, "form": f}
              for s, n in (("1q", "x-type1"), ("2q", "bell-type1"), ("qutrit", "z2-type2"))
              for f in ("set_kraus_matrices", "hss", "mprocess")]
    return items


def known_dispatcher_povm_vectors(case):
    """C17-F3: qoperation_typical.generate_povm_object cannot pass the basis the 'vectors' form needs."""
    return case.get("mode") == "povm" and case.get("form") == "vectors"


def _flat(x):
    if isinstance(x, np.ndarray):
        return [x]
    if isinstance(x, (list, tuple)):
        return [a for e in x for a in _flat(e)]
    if hasattr(x, "vecs"):
        return list(x.vecs)
    if hasattr(x, "hss"):
        return list(x.hss)
    raise AssertionError(f"unexpected form {type(x)}")


def check_dispatch(item, ctx):
    """generate_qoperation_object(mode, name, object_name, c_sys=...) yields the same thing as the catalogue dispatcher."""
    from quara.objects import mprocess_typical as mt
    from quara.objects import povm_typical as pt
    from quara.objects import qoperation_typical as qt

    mode, name, sys_, form = item["mode"], item["name"], item["sys"], item["form"]
    c_sys = csys(sys_)
    ctx.label(mode, form)
    ctx.nontrivial(True)
    if mode == "povm":
        if form == "pure_state_vectors" and name == "z2":
            ctx.raises(ValueError, lambda: qt.generate_qoperation_object(mode="povm", name=name, object_name=form, c_sys=c_sys), "dispatch:not_rank1")
            return
        direct = pt.generate_povm_object_from_povm_name_object_name(name, form, c_sys=c_sys, basis=c_sys.basis())
    else:
        direct = mt.generate_mprocess_object_from_mprocess_name_object_name(name, form, c_sys)
    got, err = try_call(lambda: qt.generate_qoperation_object(mode=mode, name=name, object_name=form, c_sys=c_sys))
    if not ctx.check(err is None, "dispatch:listed_form_can_be_generated", lambda: f"{mode} {name} {form}: {type(err).__name__}: {err}"):
        return
    a, b = _flat(got), _flat(direct)
    if ctx.check(len(a) == len(b), "dispatch:same_length"):
        for x, y in zip(a, b):
            ctx.close(x, y, 0.0, "dispatch:same_as_catalogue_dispatcher", f"{mode} {name} {form}")


# ----------------------------------------------------------------------------- facet: negative (names outside the catalogues)
MUTATIONS = ("upper", "capital", "sep", "suffix_word", "suffix_char", "prefix_char", "space", "doubled_sep", "empty")


def mutate(name, kind):
    if kind == "upper":
        return name.upper()
    if kind == "capital":
        return name[:1].upper() + name[1:]
    if kind == "sep":
        if "_" in name:
            return name.replace("_", "-")
        if "-" in name:
            return name.replace("-", "_")
        return name + "-"
    if kind == "suffix_word":
        return name + "_q"
    if kind == "suffix_char":
        return name + "q"
    if kind == "prefix_char":
        return "q" + name
    if kind == "space":
        return name + " "
    if kind == "doubled_sep":
        return name.replace("_", "__") if "_" in name else name + "_"
    if kind == "empty":
        return ""
    raise ValueError(kind)


def _negative_bases():
    """(catalogue, system, valid name, ids) seeds of the mutations."""
    seeds = []
    st = R.expected_state_names()
    for s in ("1q", "qutrit"):
        seeds += [("state", s, n, None) for n in st[s]]
    seeds += [("state", "2q", n, None) for n in st["2q"][:4] + st["2q"][4::7]]
    seeds += [("state", "3q", n, None) for n in st["3q"][:2] + st["3q"][2::41]]
    seeds += [("state", "2qutrit", n, None) for n in st["2qutrit"][:1] + st["2qutrit"][1::37]]
    pv = R.expected_povm_names()
    seeds += [("povm", s, n, None) for s in ("1q", "2q", "qutrit") for n in pv[s]]
    seeds += [("povm", "3q", n, None) for n in pv["3q"][::5]] + [("povm", "2qutrit", n, None) for n in pv["2qutrit"][::7]]
    g = R.expected_gate_names()
    for cat in ("gate", "lindbladian"):
        seeds += [(cat, "1q", "identity", None)]
        seeds += [(cat, "1q", n, None) for n in g["1q"]] + [(cat, "2q", n, [0, 1]) for n in g["2q"]]
        seeds += [(cat, "3q", n, [0, 1, 2]) for n in g["3q"]] + [(cat, "qutrit", n, None) for n in g["qutrit"][::2]]
        seeds += [(cat, "2qutrit", n, None) for n in g["2qutrit_single"][::33] + g["2qutrit_two"][::6001]]
    seeds += [("mprocess", R.MPROCESS_SYS[n.split("-")[0]], n, None) for n in R.EXPECTED_MPROCESS_TYPE1 + R.EXPECTED_MPROCESS_TYPE2]
    seeds += [("ensemble", "1q", n, None) for n in ("z0", "z1", "x0")]
    return seeds


_FORMS = {
    "state": ["pure_state_vector", "density_mat", "density_matrix_vector", "state"],
    "povm": ["pure_state_vectors", "matrices", "vectors", "povm"],
    "gate": ["unitary_mat", "gate_mat", "gate"],
    "lindbladian": ["hamiltonian_vec", "hamiltonian_mat", "effective_lindbladian_mat", "effective_lindbladian"],
    "mprocess": ["set_pure_state_vectors", "set_kraus_matrices", "hss", "mprocess"],
    "ensemble": ["state_ensemble"],
}
BAD_FORMS = ["", "State", "object", "unitary", "gate_matrix", "vector", "povms", "hs"]


def negative_items(tier):
    items = []
    for cat, s, n, ids in _negative_bases():
        for k in MUTATIONS:
            items.append({"catalogue": cat, "sys": s, "valid": n, "ids": ids, "mutation": k})
    for cat in _FORMS:
        s, n, ids = next((s, n, ids) for c, s, n, ids in _negative_bases() if c == cat and n != "identity")
        for bf in BAD_FORMS:
            if bf not in _FORMS[cat]:
                items.append({"catalogue": cat, "sys": s, "valid": n, "ids": ids, "mutation": "object_name", "form": bf})
    return items


_VALID = {}


def _valid_names(cat):
    if cat not in _VALID:
        from quara.objects import gate_typical as gt
        from quara.objects import mprocess_typical as mt
        from quara.objects import povm_typical as pt
        from quara.objects import state_ensemble_typical as se
        from quara.objects import state_typical as stt

        _VALID[cat] = set({
            "state": stt.get_state_names, "povm": pt.get_povm_names, "gate": gt.get_gate_names, "lindbladian": gt.get_gate_names,
            "mprocess": lambda: mt.get_mprocess_names_type1() + mt.get_mprocess_names_type2(),
            "ensemble": se.get_state_ensemble_names,
        }[cat]())
    return _VALID[cat]


def _dispatch_catalogue(cat, name, form, sys_, ids):
    from quara.objects import effective_lindbladian_typical as elt
    from quara.objects import gate_typical as gt
    from quara.objects import mprocess_typical as mt
    from quara.objects import povm_typical as pt
    from quara.objects import state_ensemble_typical as se
    from quara.objects import state_typical as stt

    c_sys = csys(sys_)
    dims = R.dims_of(sys_)
    if cat == "state":
        return stt.generate_state_object_from_state_name_object_name(name, form, c_sys)
    if cat == "povm":
        return pt.generate_povm_object_from_povm_name_object_name(name, form, c_sys=c_sys, basis=c_sys.basis())
    if cat == "gate":
        return gt.generate_gate_object_from_gate_name_object_name(name, form, dims=dims, ids=ids, c_sys=c_sys)
    if cat == "lindbladian":
        return elt.generate_effective_lindbladian_object_from_gate_name_object_name(name, form, dims=dims, ids=ids, c_sys=c_sys)
    if cat == "mprocess":
        return mt.generate_mprocess_object_from_mprocess_name_object_name(name, form, c_sys)
    return se.generate_state_ensemble_object_from_state_ensemble_name_object_name(name, form, c_sys)


def check_negative(item, ctx):
    cat, sys_, valid, ids, kind = item["catalogue"], item["sys"], item["valid"], item["ids"], item["mutation"]
    ctx.label(cat, "mutation:" + kind)
    if kind == "object_name":
        bf = item["form"]
        res, err = try_call(lambda: _dispatch_catalogue(cat, valid, bf, sys_, ids))
        ctx.nontrivial(True)
        ctx.check(isinstance(err, ValueError), "negative:unknown_object_name_raises_value_error",
                  lambda: f"{cat} {valid!r} object_name={bf!r}: " + (f"returned {type(res).__name__}" if err is None else f"{type(err).__name__}: {err}"))
        return
    bad = mutate(valid, kind)
    if bad in _valid_names(cat):
        ctx.label("mutant_is_valid")
        return
    ctx.nontrivial(True)
    if cat == "state":
        from quara.objects import state_typical as stt

        ctx.check(stt.is_valid_state_name(bad) is False, "negative:is_valid_state_name_false", repr(bad))
    for form in _FORMS[cat]:
        res, err = try_call(lambda: _dispatch_catalogue(cat, bad, form, sys_, ids))
        ctx.label("raises:" + (type(err).__name__ if err is not None else "nothing"))
        ctx.check(err is not None, "negative:unknown_name_raises",
                  lambda: f"{cat} name {bad!r} (from {valid!r}) form {form}: returned {type(res).__name__} instead of raising")


# ----------------------------------------------------------------------------- facet: regeneration (the catalogue cannot be edited through what it returns)
_RAW_FORMS = {
    "state": ["pure_state_vector", "density_mat", "density_matrix_vector"],
    "povm": ["pure_state_vectors", "matrices", "vectors"],
    "gate": ["unitary_mat", "gate_mat"],
    "lindbladian": ["hamiltonian_vec", "hamiltonian_mat", "effective_lindbladian_mat"],
    "mprocess": ["set_pure_state_vectors", "set_kraus_matrices", "hss"],
}


def regeneration_items(tier):
    items = []
    for cat, s, n, ids in _negative_bases():
        for form in _RAW_FORMS.get(cat, []):
            items.append({"catalogue": cat, "sys": s, "name": n, "ids": ids, "form": form})
    return items


def _arrays_of(x):
    if isinstance(x, np.ndarray):
        return [x]
    if isinstance(x, (list, tuple)):
        return [a for e in x for a in _arrays_of(e)]
    return []


def check_regeneration(item, ctx):
    """a caller that edits the arrays / lists a generator returned must not change what the catalogue generates next:
    for the same name, and for the product names built from it."""
    cat, sys_, name, ids, form = item["catalogue"], item["sys"], item["name"], item["ids"], item["form"]
    ctx.label(cat, form)
    first, err = try_call(lambda: _dispatch_catalogue(cat, name, form, sys_, ids))
    if err is not None:
        ctx.label("form_not_available")  # e.g. pure-state vectors of a POVM that is not rank one: decided by the main facets
        return
    snap = [np.array(a, copy=True) for a in _arrays_of(first)]
    n_edit = 0
    for a in _arrays_of(first):
        if a.flags.writeable and a.size:
            a *= 0.5
            a.flat[0] += 7.0
            n_edit += 1
    if isinstance(first, list) and len(first) > 1:
        first.pop()
        n_edit += 1
    ctx.nontrivial(n_edit > 0)
    again, err = try_call(lambda: _dispatch_catalogue(cat, name, form, sys_, ids))
    if not ctx.check(err is None, "regeneration:still_generates", lambda: f"{cat} {name!r} {form}: {type(err).__name__}: {err}"):
        return
    got = _arrays_of(again)
    ok = len(got) == len(snap) and all(g.shape == w.shape and np.array_equal(g, w) for g, w in zip(got, snap))
    ctx.check(ok, "regeneration:unchanged_after_caller_edit",
              lambda: f"{cat} {name!r} form {form}: the second generation differs from the first after the caller edited the first result")
    # a product name containing this single-system name
    if cat in ("state", "povm") and "_" not in name and sys_ in ("1q", "qutrit"):
        other = {"state": {"1q": "z0", "qutrit": "01z0"}, "povm": {"1q": "z", "qutrit": "z3"}}[cat][sys_]
        prod_sys = "2q" if sys_ == "1q" else "2qutrit"
        pname = other + "_" + name
        twin_first, e1 = try_call(lambda: _dispatch_catalogue(cat, name, form, sys_, ids))
        if e1 is None:
            for a in _arrays_of(twin_first):
                if a.flags.writeable and a.size:
                    a *= 0.25
            prod, e2 = try_call(lambda: _dispatch_catalogue(cat, pname, form, prod_sys, None))
            if e2 is None:
                o_first, _ = try_call(lambda: _dispatch_catalogue(cat, other, form, sys_, None))
                if o_first is not None and cat == "state":
                    want = [np.kron(_arrays_of(o_first)[0].reshape(-1) if form != "density_mat" else _arrays_of(o_first)[0],
                                    snap[0].reshape(-1) if form != "density_mat" else snap[0])] if form != "density_matrix_vector" else None
                    if want is not None:
                        g = _arrays_of(prod)[0]
                        ctx.close(np.asarray(g).reshape(-1), np.asarray(want[0]).reshape(-1), 1e-12, "regeneration:product_unchanged_after_caller_edit",
                                  f"{pname} form {form}")
                elif o_first is not None and cat == "povm" and form in ("pure_state_vectors", "matrices"):
                    oa = _arrays_of(o_first)
                    want = [np.kron(x, y) for x in oa for y in snap]
                    g = _arrays_of(prod)
                    ok = len(g) == len(want) and all(np.allclose(a, b, rtol=0, atol=1e-12) for a, b in zip(g, want))
                    ctx.check(ok, "regeneration:product_unchanged_after_caller_edit", f"{pname} form {form}")


# ----------------------------------------------------------------------------- facet: recombined (invalid names made of valid items)
def _recombined_vocab(cat):
    names = R.expected_state_names() if cat == "state" else R.expected_povm_names()
    toks = list(names["1q"]) + [n for n in names["qutrit"] if "_" not in n] + (["bell"] if cat == "povm" else [])
    valid = set()
    for v in names.values():
        valid.update(v)
    return toks, valid


def known_povm_name_not_validated(case):
    """C17-F4: POVM names that are '_'-joined valid single POVM items are generated without a catalogue look-up."""
    if case.get("catalogue") != "povm" or "name" not in case:
        return False
    toks, valid = _recombined_vocab("povm")
    return case["name"] not in valid and all(t in toks for t in case["name"].split("_"))


def recombined_items(tier):
    """'_'-joined sequences of single-system item names (qubit and qutrit items pooled): all pairs, triples and
    quadruples (hash-strided in the quick tier); sequences that are catalogue names are skipped and counted."""
    items = []
    for cat in ("state", "povm"):
        toks, _ = _recombined_vocab(cat)
        for k, stride in ((2, 1), (3, 1 if tier == "thorough" else 5), (4, 29 if tier == "thorough" else 499)):
            for j, t in enumerate(itertools.product(toks, repeat=k)):
                if j % stride == 0:
                    items.append({"catalogue": cat, "name": "_".join(t), "k": k})
    return items


def check_recombined(item, ctx):
    cat, name = item["catalogue"], item["name"]
    toks, valid = _recombined_vocab(cat)
    ctx.label(cat, f"items:{item['k']}")
    if name in valid:
        ctx.label("recombination_is_valid")
        return
    kinds = {("qutrit" if t[:2] in ("01", "12", "02") or t in ("z3", "z2") else "qubit") for t in name.split("_") if t != "bell"}
    ctx.label("kinds:" + ("mixed" if len(kinds) == 2 else (kinds.pop() if kinds else "bell")))
    ctx.nontrivial(True)
    if cat == "state":
        from quara.objects import state_typical as stt

        ctx.check(stt.is_valid_state_name(name) is False, "recombined:is_valid_state_name_false", repr(name))
        ctx.check(name not in stt.get_state_names(), "recombined:not_listed", repr(name))
        forms = ["pure_state_vector", "density_mat"]
        call = lambda f: stt.generate_state_object_from_state_name_object_name(name, f)
    else:
        from quara.objects import povm_typical as pt

        ctx.check(name not in pt.get_povm_names(), "recombined:not_listed", repr(name))
        forms = ["pure_state_vectors", "matrices"]
        call = lambda f: pt.generate_povm_object_from_povm_name_object_name(name, f)
    for form in forms:
        res, err = try_call(lambda: call(form))
        ctx.label("raises:" + (type(err).__name__ if err is not None else "nothing"))
        ctx.check(err is not None, "recombined:unknown_name_raises",
                  lambda: f"{cat} name {name!r} form {form}: returned {type(res).__name__} instead of raising")


FACETS = {
    "states": {
        "kind": "enumeration", "items": state_items, "check": check_state,
        "budget": {"quick": {"examples": 0, "shards": 4}, "thorough": {"examples": 0, "shards": 8}},
        "nontrivial": "textbook vector has at least two non-zero amplitudes (superposition / entangled / product of such)",
        "min_nontrivial": 600,
    },
    "povms": {
        "kind": "enumeration", "items": povm_items, "check": check_povm,
        "budget": {"quick": {"examples": 0, "shards": 4}, "thorough": {"examples": 0, "shards": 8}},
        "nontrivial": "not a pure computational-basis measurement of a single system",
        "min_nontrivial": 100,
    },
    "gates": {
        "kind": "enumeration", "group_key": (lambda it: (it.get("sys"), it.get("name"))), "items": small_gate_items, "check": check_gate,
        "budget": {"quick": {"examples": 0, "shards": 6}, "thorough": {"examples": 0, "shards": 6}},
        "nontrivial": "non-identity gate that is multi-system, non-diagonal or a qutrit rotation",
        "min_nontrivial": 60,
    },
    "gates_2qutrit_single": {
        "kind": "enumeration", "items": qutrit2_single_items, "check": check_gate_2qutrit,
        "budget": {"quick": {"examples": 0, "shards": 4}, "thorough": {"examples": 0, "shards": 4}},
        "nontrivial": "every single-term 2-qutrit Hamiltonian name (all 198 are enumerated)",
        "min_nontrivial": 198,
    },
    "gates_2qutrit_two": {
        "kind": "enumeration", "items": qutrit2_two_items, "check": check_gate_2qutrit,
        "exhaustive": lambda tier: tier == "thorough",  # quick tier: seeded sample of 400 of the 39006 two-term names
        "budget": {"quick": {"examples": 0, "shards": 6}, "thorough": {"examples": 0, "shards": 32}},
        "nontrivial": "two-term name whose Hamiltonian terms do not commute (exp(-iH) is not a product of the single-term gates)",
        "min_nontrivial": 100,
    },
    "lindbladians": {
        "kind": "enumeration", "group_key": (lambda it: (it.get("sys"), it.get("name"))), "items": lindbladian_items, "check": check_lindbladian,
        "exhaustive": False,  # small gates completely, 2-qutrit names sampled in both tiers
        "budget": {"quick": {"examples": 0, "shards": 6}, "thorough": {"examples": 0, "shards": 16}},
        "nontrivial": "non-identity gate name (non-zero Hamiltonian)",
        "min_nontrivial": 100,
    },
    "mprocesses": {
        "kind": "enumeration", "items": mprocess_items, "check": check_mprocess,
        "budget": {"quick": {"examples": 0, "shards": 1}, "thorough": {"examples": 0, "shards": 1}},
        "nontrivial": "every catalogued measurement process (13)",
        "min_nontrivial": 13,
    },
    "ensembles": {
        "kind": "enumeration", "items": ensemble_items, "check": check_ensemble,
        "budget": {"quick": {"examples": 0, "shards": 1}, "thorough": {"examples": 0, "shards": 1}},
        "nontrivial": "every catalogued state-ensemble name (7 today, 3 of them implemented)",
        "min_nontrivial": 3,
    },
    "legacy": {
        "kind": "enumeration", "items": legacy_items, "check": check_legacy,
        "budget": {"quick": {"examples": 0, "shards": 2}, "thorough": {"examples": 0, "shards": 2}},
        "nontrivial": "named constructor other than the identity; multi-system tester lists",
        "min_nontrivial": 70,
    },
    "bases": {
        "kind": "enumeration", "items": bases_items, "check": check_bases,
        "budget": {"quick": {"examples": 0, "shards": 2}, "thorough": {"examples": 0, "shards": 2}},
        "nontrivial": "dimension above 2, or a composite system of more than one elemental system",
        "min_nontrivial": 50,
    },
    "truth_table": {
        "kind": "enumeration", "group_key": (lambda it: (it.get("sys"), it.get("name"))), "items": truth_items, "check": check_truth,
        "budget": {"quick": {"examples": 0, "shards": 3}, "thorough": {"examples": 0, "shards": 3}},
        "nontrivial": "the gate moves the input state to a different named state",
        "min_nontrivial": 70,
    },
    "catalogues": {
        "kind": "enumeration", "items": catalogue_items, "check": check_catalogue,
        "budget": {"quick": {"examples": 0, "shards": 1}, "thorough": {"examples": 0, "shards": 1}},
        "nontrivial": "every catalogue listing function",
        "min_nontrivial": 7,
    },
    "dispatch": {
        "kind": "enumeration", "items": dispatch_items, "check": check_dispatch,
        "budget": {"quick": {"examples": 0, "shards": 1}, "thorough": {"examples": 0, "shards": 1}},
        "nontrivial": "every (mode, name, listed object_name) triple sent through qoperation_typical.generate_qoperation_object",
        "min_nontrivial": 25,
    },
    "regeneration": {
        "kind": "enumeration", "items": regeneration_items, "check": check_regeneration,
        "budget": {"quick": {"examples": 0, "shards": 4}, "thorough": {"examples": 0, "shards": 8}},
        "nontrivial": "the first result held at least one writable array or a list that the caller edited before generating the same name again",
        "min_nontrivial": 100,
    },
    "recombined": {
        "kind": "enumeration", "items": recombined_items, "check": check_recombined,
        "budget": {"quick": {"examples": 0, "shards": 4}, "thorough": {"examples": 0, "shards": 8}},
        "nontrivial": "the '_'-joined sequence of valid single-system items is not a catalogue name (qubit/qutrit mixtures, three or four qutrit items, four qubit items)",
        "min_nontrivial": 1000,
    },
    "negative": {
        "kind": "enumeration", "items": negative_items, "check": check_negative,
        "budget": {"quick": {"examples": 0, "shards": 3}, "thorough": {"examples": 0, "shards": 4}},
        "nontrivial": "the mutated name is outside the catalogue (mutants that are themselves valid names are skipped and counted)",
        "min_nontrivial": 1000,
    },
}
