"""C10 - Constrained estimators return physical, consistent estimates."""
import math

import numpy as np
from hypothesis import strategies as st

from harness import reps, build, gen, tomo
from harness import refmodel as rm

RULE = (
    "Configurations: tomography type (QST/POVMT/QPT/QMPT) x parametrisation flag x projection order x shape (1q; qutrit QST/POVMT; "
    "more in thorough) with informationally complete tester sets built by construction (IC pure-state / projective families "
    "conjugated by a Hypothesis-drawn unitary).  Data: exact Born-rule distributions of a constructed physical true object "
    "(interior / boundary / pure), few-shot counts (n=1..50, zeros frequent, sampled by inverse cdf from Hypothesis-drawn "
    "integers) and arbitrary simplex points unrelated to any object.  Oracles: physicality of every estimate judged by "
    "refmodel defects (not quara's verdicts); the projected linear estimate equals the certified nearest physical point "
    "(independent Dykstra reference) of the linear estimate; exact data => the true object; every backtracking iterate feasible.  "
    "Non-trivial = data are few-shot / far (not exactly model-consistent) or the true object is on the boundary."
)
ASSUMPTIONS = [
    "physicality tolerance: C*sqrt(eps_proj_physical)*(1+||x||) (same calibrated constant as C05)",
    "exact-recovery tolerance for backtracking: 1e-4*(1+||x||) (loss-difference stopping at eps=1e-14 gives ~1e-7 interior, slower on the boundary); "
    "runs that reach max_iteration_optimization are inconclusive",
]
TECHNIQUE = "property-based testing (Hypothesis): generated tomography configurations and data (exact / few-shot / arbitrary) vs refmodel physicality defects, certified nearest-point reference and exact-recovery oracle"
LEVEL_TEXT = (
    "Generated-input search over configurations and, above all, over data: few-shot empirical distributions with empty outcomes, "
    "exact data of boundary objects and data far outside the model's range, for the projected linear estimator and the three "
    "projected-gradient algorithms with both loss families and the constraint options.  Physicality is judged by an independent "
    "model; the projected-linear estimate is compared with a certified nearest-point reference.  Sampling, bounded by iteration caps."
)
LEVEL_NOTE = (
    "Trusted: numpy LAPACK, harness/refmodel.py (defects, Dykstra reference + certificate), harness/tomo.py tester construction.  "
    "Runs hitting an iteration cap are counted inconclusive, never violations."
)

from harness.checks.c05 import tol_eps  # same calibrated algorithmic tolerance


def _nsched_nout(kind, d, m, case=None):
    n_s, n_p = (d * d, 1 + d * (d - 1)) if case is None else tomo.n_testers(case)
    if kind == "qst":
        return n_p, d
    if kind == "povmt":
        return n_s, m
    if kind == "qpt":
        return n_s * n_p, d
    return n_s * n_p, m * d


@st.composite
def est_case(draw, tier, kinds=None, shapes_for=None):
    if kinds is None:
        kinds = ("qst", "qst", "povmt", "povmt", "qpt", "qmpt")
    kind = draw(st.sampled_from(list(kinds)))
    if shapes_for is not None:
        shapes = shapes_for(kind)
    elif tier == "quick":
        shapes = ("1q", "1q", "qutrit") if kind in ("qst", "povmt") else ("1q",)
    else:
        shapes = ("1q", "qutrit") if kind in ("qst", "povmt", "qpt") else ("1q",)
    case = draw(tomo.tomo_case((kind,), shapes, (2, 3)))
    d = gen.dim_of(case["shape"])
    ns, no = _nsched_nout(kind, d, case["true"].get("m"), case)
    case["datadesc"] = draw(tomo.data_for(ns, no))
    case["order"] = draw(st.sampled_from(["eq_ineq", "ineq_eq"]))
    return case


def _phys_check(ctx, t, z, basis, d, m, tol, tag):
    ctx.leq(rm.eq_defect_stacked(t, z, d, m), 0.0, tol, f"{tag}:eq_feasible")
    ctx.leq(rm.ineq_defect_stacked(t, z, basis, d, m), 0.0, tol, f"{tag}:ineq_feasible")


def _is_boundary(case, info):
    t = tomo.true_type(case["tomo"])
    x = tomo.stacked_true(case, info)
    from harness.checks.c01 import defects

    return defects(t, info["basis"], x, info["m"])[4]


# ----------------------------------------------------------------------------- projected linear
def check_projected_linear(case, ctx):
    from quara.protocol.qtomography.standard.linear_estimator import LinearEstimator
    from quara.protocol.qtomography.standard.projected_linear_estimator import ProjectedLinearEstimator

    qt, c_sys, info = tomo.build_tomo(case)
    t = tomo.true_type(case["tomo"])
    d, m, basis = info["d"], info["m"], info["basis"]
    exact = tomo.exact_dists(case, info)
    empi = tomo.make_empi(case["datadesc"], exact)
    ctx.label(case["tomo"], case["shape"], f"flag:{case['flag']}", case["order"], "data:" + case["datadesc"]["data"])
    ple = ProjectedLinearEstimator(mode_proj_order=case["order"])
    if reps.pick(repr(case["raw_u"]), 2) == 0:
        # the estimator object served another tomography of the same shape first (other tester bases, built and dropped in a
        # helper): the estimate below belongs to the tomography given in ITS call
        def _serve_sibling():
            case2 = dict(case)
            case2["raw_u"] = [float(x) for x in case["raw_u"]][::-1]
            qt2, _, info2 = tomo.build_tomo(case2)
            ple.calc_estimate(qt2, [(100, np.asarray(p_, dtype=float)) for p_ in tomo.exact_dists(case2, info2)])

        _serve_sibling()
        ctx.label("estimator-object:served-sibling-tomography-first")
    est = ple.calc_estimate(qt, empi)
    q = est.estimated_qoperation
    ctx.check(type(q).__name__.lower() == t, "estimate_type", type(q).__name__)
    z = tomo.estimate_stacked(q)
    lin = LinearEstimator().calc_estimate(qt, empi).estimated_qoperation
    x_lin = tomo.estimate_stacked(lin)
    scale = float(np.linalg.norm(x_lin))
    eps = q.eps_proj_physical
    ctx.check(abs(eps - 1e-14) < 1e-20, "default_eps_proj_physical", str(eps))
    tol = tol_eps(eps, scale)
    _phys_check(ctx, t, z, basis, d, m, tol, "projected_linear")
    zref, cert = rm.dykstra_reference(t, x_lin, basis, d, m)
    if cert["err_bound"] <= 0.5 * tol:
        ctx.close(z, zref, tol + cert["err_bound"], "projected_linear_is_nearest_physical_to_linear_estimate")
    else:
        ctx.label("reference-not-certified")
    boundary = _is_boundary(case, info)
    if case["datadesc"]["data"] == "exact":
        ctx.close(z, tomo.stacked_true(case, info), tol + 1e-9, "projected_linear_exact_recovery")
    # a linear estimate that is already physical (strictly: equality defect at rounding level, no negative eigenvalue) is
    # returned as it is - the alternating projection has nothing to do - so here the accuracy is rounding, not sqrt(eps)
    if rm.eq_defect_stacked(t, x_lin, d, m) <= 1e-14 * (1 + scale) and rm.ineq_defect_stacked(t, x_lin, basis, d, m) == 0.0:
        ctx.label("linear-estimate-physical")
        ctx.close(z, x_lin, 1e-12 * (1 + scale), "projection_leaves_physical_linear_estimate_unchanged")
    # var form agrees with the object
    ctx.close(np.asarray(est.estimated_var), np.asarray(q.to_var()), 0.0, "estimated_var_matches_object")
    ctx.nontrivial(case["datadesc"]["data"] != "exact" or boundary)
    if boundary:
        ctx.label("true-boundary")


# ----------------------------------------------------------------------------- loss minimisation
ALGOS = ("backtracking", "momentum", "fista")
LOSSES = ("se", "se_fast", "re", "re_fast")


def make_loss(name, num_var):
    from quara.loss_function.standard_qtomography_based_weighted_probability_based_squared_error import (
        StandardQTomographyBasedWeightedProbabilityBasedSquaredError as SEF,
        StandardQTomographyBasedWeightedProbabilityBasedSquaredErrorOption as SEFO,
    )
    from quara.loss_function.standard_qtomography_based_weighted_relative_entropy import (
        StandardQTomographyBasedWeightedRelativeEntropy as REF,
        StandardQTomographyBasedWeightedRelativeEntropyOption as REFO,
    )
    from quara.loss_function.weighted_probability_based_squared_error import (
        WeightedProbabilityBasedSquaredError as SE,
        WeightedProbabilityBasedSquaredErrorOption as SEO,
    )
    from quara.loss_function.weighted_relative_entropy import (
        WeightedRelativeEntropy as RE,
        WeightedRelativeEntropyOption as REO,
    )

    if name == "se":
        return SE(num_var), SEO("identity")
    if name == "se_fast":
        return SEF(num_var), SEFO("identity")
    if name == "re":
        return RE(num_var), REO("identity")
    return REF(num_var), REFO("identity")


def make_algo(name, **opt):
    from quara.minimization_algorithm.projected_fast_iterative_shrinkage_thresholding_algorithm import (
        ProjectedFastIterativeShrinkageThresholdingAlgorithm as F,
        ProjectedFastIterativeShrinkageThresholdingAlgorithmOption as FO,
    )
    from quara.minimization_algorithm.projected_gradient_descent_backtracking import (
        ProjectedGradientDescentBacktracking as B,
        ProjectedGradientDescentBacktrackingOption as BO,
    )
    from quara.minimization_algorithm.projected_gradient_descent_with_momentum import (
        ProjectedGradientDescentWithMomentum as M,
        ProjectedGradientDescentWithMomentumOption as MO,
    )

    if name == "backtracking":
        return B(), BO(**opt)
    if name == "momentum":
        return M(), MO(**opt)
    return F(), FO(**opt)


@st.composite
def lossmin_case(draw, tier):
    if tier == "quick":
        kinds = ("qst", "qst", "qst", "povmt", "povmt", "qpt")
    else:
        kinds = ("qst", "qst", "povmt", "povmt", "qpt", "qmpt")
    c = draw(est_case(tier, kinds=kinds, shapes_for=lambda k: ("1q",) if tier == "quick" or k not in ("qst",) else ("1q", "qutrit")))
    c["algo"] = draw(st.sampled_from(ALGOS))
    c["loss"] = draw(st.sampled_from(LOSSES))
    c["stop_mode"] = draw(st.sampled_from([
        "single_difference_loss", "sum_absolute_difference_loss",
        "sum_absolute_difference_variable", "sum_absolute_difference_projected_gradient"]))
    c["num_history"] = draw(st.integers(1, 3))
    if c["stop_mode"] in ("sum_absolute_difference_variable", "sum_absolute_difference_projected_gradient"):
        # the default eps (1e-14) is a loss-difference scale; a step-norm criterion needs a step-norm threshold
        # above the accuracy of the inner projection (sqrt(1e-14))
        c["algo_eps"] = draw(st.sampled_from([1e-5, 1e-6]))
    c["constraints"] = draw(st.sampled_from([[True, True], [True, True], [True, False], [False, True]]))
    c["max_iter"] = 150 if tier == "quick" else 1000
    # bound the total work of a pathological run (outer iterations x Dykstra sweeps per projection); runs that hit
    # either cap are inconclusive
    c["max_iter_proj"] = 500 if tier == "quick" else 3000
    c["prior_use"] = draw(st.sampled_from(PRIOR_USES))
    return c


def run_lossmin(case, qt, empi, detailed=True):
    from quara.protocol.qtomography.standard.loss_minimization_estimator import LossMinimizationEstimator

    loss, loss_opt = make_loss(case["loss"], qt.num_variables)
    ws = float(case.get("wscale", 1.0))
    if ws != 1.0:
        # the same loss times a common factor (custom weights ws * identity): same minimiser, other magnitudes - what
        # shot-count weights or inverse-covariance weights of large samples give
        if case["loss"].startswith("se"):
            loss_opt = type(loss_opt)("custom", weights=[ws * np.eye(len(e[1])) for e in empi])
        else:
            loss_opt = type(loss_opt)("custom", weights=[ws for _ in empi])
    algo, algo_opt = make_algo(
        case["algo"],
        on_algo_eq_constraint=case["constraints"][0],
        on_algo_ineq_constraint=case["constraints"][1],
        mode_stopping_criterion_gradient_descent=case["stop_mode"],
        num_history_stopping_criterion_gradient_descent=case["num_history"],
        mode_proj_order=case["order"],
        max_iteration_optimization=case["max_iter"],
        # bound the inner Dykstra projection as well (library default 100000 sweeps per projection): a run that hits
        # this cap prints the library's warning and is counted inconclusive by the callers (proj_cap_hit)
        max_iteration_proj_physical=case.get("max_iter_proj", 3000),
        **({"eps": case["algo_eps"]} if case.get("algo_eps") else {}),
    )
    if case.get("raw_u") and case.get("tomo") and reps.pick(("sib", repr(case["raw_u"])), 3) == 0:
        # another estimation ran earlier in the process: NEW loss / algorithm / estimator objects of the same classes on a
        # sibling tomography (other tester bases, same sizes), a handful of iterations; nothing of it may reach this run
        def _sibling_run():
            import contextlib
            import io

            case2 = dict(case)
            case2["raw_u"] = [float(x) for x in case["raw_u"]][::-1]
            qt2, _, info2 = tomo.build_tomo(case2)
            loss2, loss_opt2 = make_loss(case["loss"], qt2.num_variables)
            algo2, algo_opt2 = make_algo(case["algo"], on_algo_eq_constraint=True, on_algo_ineq_constraint=True,
                                         mode_proj_order=case["order"], max_iteration_optimization=5,
                                         max_iteration_proj_physical=200)
            data2 = [(100, np.asarray(p_, dtype=float)) for p_ in tomo.exact_dists(case2, info2)]
            try:
                with contextlib.redirect_stdout(io.StringIO()):
                    LossMinimizationEstimator().calc_estimate(qt2, data2, loss2, loss_opt2, algo2, algo_opt2)
            except ValueError:
                pass

        _sibling_run()
    prior = case.get("prior_use")
    if prior:
        # the same loss and algorithm objects have served another configuration of the same tomography before
        # (other constraint flags / projection order, a handful of iterations); what they did then must not matter now
        _, prior_opt = make_algo(
            case["algo"],
            on_algo_eq_constraint=prior["constraints"][0],
            on_algo_ineq_constraint=prior["constraints"][1],
            mode_proj_order=prior["order"],
            max_iteration_optimization=5,
            max_iteration_proj_physical=200,
        )
        import contextlib
        import io

        try:
            with contextlib.redirect_stdout(io.StringIO()):  # its iteration-cap warnings are not those of the run under test
                LossMinimizationEstimator().calc_estimate(qt, empi, loss, loss_opt, algo, prior_opt)
        except ValueError:
            pass
    empi_in = empi
    if case["loss"] in ("se_fast", "re_fast"):
        # the tomography-based losses flatten the data themselves: (n, 1) columns are the same data to them as flat arrays
        # (observed on the unchanged library; the generic losses reject columns, so they always get flat arrays)
        if reps._on() and reps.pick(("empi", [np.asarray(q, dtype=float).tobytes() for _, q in empi]), 3) == 0:
            empi_in = [(n, np.asarray(q, dtype=float).reshape(-1, 1)) for n, q in empi]
    res = LossMinimizationEstimator().calc_estimate(
        qt, empi_in, loss, loss_opt, algo, algo_opt,
        is_computation_time_required=detailed, is_detailed_results_required=detailed,
    )
    return res, loss


PRIOR_USES = [None, None, {"constraints": [True, False], "order": "eq_ineq"}, {"constraints": [False, True], "order": "ineq_eq"},
              {"constraints": [True, True], "order": "ineq_eq"}]


def line_search_stalled(det, mild=False):
    """signature of known finding C11-F2 / C10-F2: the run stopped although the projected-gradient step it last proposed,
    y = P(x - grad/mu) - x, is far from zero (the step is not a descent direction, the backtracking factor collapsed and the
    loss difference fell below the threshold).  A run that converged - to whatever point - ends with y ~ 0."""
    ys = getattr(det, "y", None)
    if not ys:
        return False
    y = np.asarray(ys[-1], dtype=float)
    x = np.asarray(det.x[-1], dtype=float)
    ny, nx = float(np.linalg.norm(y)), float(np.linalg.norm(x))
    if ny > 1e-3 * (1.0 + nx):
        return True
    if not mild:
        return False
    # the milder form of the same stall (C11 optimality facet, thorough tier, seed 3; noisy data): the backtracking factor of
    # the last step has collapsed (1e-5 ... 1e-12) while the proposed step is still 1e-3 long - a converged run takes its
    # last steps with a factor near 1.  Only C11's optimality oracles use this form; C10's exact-recovery oracles keep the
    # strict one (a wrong projection also ends in a collapsed line search, and must stay reported there: seed C10-f).
    al = getattr(det, "alpha", None)
    return bool(al) and float(al[-1]) < 1e-2 and ny > 1e-4 * (1.0 + nx)


def proj_cap_hit(ctx, configured=None):
    """True when the library printed its 'projection iterations exceeds the limit N' warning during this case; when the
    configured limit is given, every printed N must be that limit (otherwise the option did not reach the projection)."""
    import re

    cap = getattr(ctx, "captured_stdout", None)
    if cap is None:
        return False
    limits = [int(v) for v in re.findall(r"projection iterations exceeds the limit (\d+)", cap.getvalue())]
    if configured is not None and limits:
        ctx.check(all(v == configured for v in limits), "projection_limit_is_the_configured_one",
                  f"warning names limits {sorted(set(limits))}, option max_iteration_proj_physical={configured}")
    return bool(limits)


def check_lossmin(case, ctx):
    qt, c_sys, info = tomo.build_tomo(case)
    t = tomo.true_type(case["tomo"])
    d, m, basis = info["d"], info["m"], info["basis"]
    exact = tomo.exact_dists(case, info)
    empi = tomo.make_empi(case["datadesc"], exact)
    if case["loss"] in ("re", "re_fast") and case["datadesc"]["data"] != "exact":
        # relative entropy is defined for data q; zero entries of q are fine (0 log 0 = 0)
        pass
    ctx.label(case["tomo"], case["shape"], f"flag:{case['flag']}", case["algo"], case["loss"],
              "data:" + case["datadesc"]["data"], f"constraints:{case['constraints']}", case["stop_mode"])
    res, loss = run_lossmin(case, qt, empi)
    det = res.detailed_results[0]
    capped = det.k >= case["max_iter"]
    q = res.estimated_qoperation
    z = tomo.estimate_stacked(q)
    ctx.check(np.all(np.isfinite(z)), "estimate_finite")
    if proj_cap_hit(ctx, case.get("max_iter_proj", 3000)):
        ctx.skip("projection-iteration-cap")
        return
    scale = float(np.linalg.norm(z))
    tol = tol_eps(1e-14, scale)
    eq_on, ineq_on = case["constraints"]
    flag = case["flag"]
    if eq_on or flag:
        ctx.leq(rm.eq_defect_stacked(t, z, d, m), 0.0, tol, f"lossmin:{case['algo']}:eq_feasible")
    # Positivity is promised when both constraint options are on, or when only the inequality projection runs in the
    # unconstrained parametrisation.  (In the constrained parametrisation with the equality option off, the variable form
    # re-imposes the implied equality part after the eigenvalue clipping; nothing promises positivity there.)
    ineq_promised = ineq_on and (eq_on or not flag)
    if ineq_promised:
        ctx.leq(rm.ineq_defect_stacked(t, z, basis, d, m), 0.0, tol, f"lossmin:{case['algo']}:ineq_feasible")
    # iterate history: every recorded x is feasible for the enforced constraints (backtracking: convex combinations;
    # momentum / FISTA: projections)
    xs = det.x
    for xv in xs[1:]:
        zz = np.asarray(q.convert_var_to_stacked_vector(c_sys, np.asarray(xv), on_para_eq_constraint=flag), dtype=float)
        sc = tol_eps(1e-14, float(np.linalg.norm(zz)))
        if eq_on or flag:
            ctx.leq(rm.eq_defect_stacked(t, zz, d, m), 0.0, sc, f"iterate:{case['algo']}:eq_feasible")
        if ineq_promised:
            ctx.leq(rm.ineq_defect_stacked(t, zz, basis, d, m), 0.0, sc, f"iterate:{case['algo']}:ineq_feasible")
    ctx.close(np.asarray(xs[-1]), np.asarray(res.estimated_var), 0.0, "last_iterate_is_estimate")
    ctx.check(len(det.fx) == len(xs) and len(det.error_values) == det.k, "history_lengths",
              f"{len(det.fx)} {len(xs)} {len(det.error_values)} {det.k}")
    if capped:
        ctx.skip("max-iteration")
    ctx.nontrivial(case["datadesc"]["data"] != "exact" or _is_boundary(case, info))


# ----------------------------------------------------------------------------- option -> projection wiring
@st.composite
def wiring_case(draw, tier):
    kinds = ("qst", "povmt", "qpt") if tier == "quick" else ("qst", "povmt", "qpt", "qmpt")
    # (a qutrit now and then: building the tomography and one projection are cheap, and sizes beyond one qubit are where a
    # dimension-dependent constant of a projection would be wrong)
    shape_pool = ("1q", "1q", "1q", "qutrit") if tier == "quick" else ("1q", "1q", "qutrit", "2q")
    c = draw(tomo.tomo_case(kinds, shape_pool, (2, 3)))
    t = tomo.true_type(c["tomo"])
    c["algo"] = draw(st.sampled_from(ALGOS))
    c["constraints"] = draw(st.sampled_from([[True, True], [True, True], [True, False], [False, True], [False, False]]))
    c["order"] = draw(st.sampled_from(["eq_ineq", "ineq_eq"]))
    c["k_proj"] = draw(st.sampled_from([1, 2, 3, 7, 40]))       # max_iteration_proj_physical
    c["m_opt"] = draw(st.sampled_from([1, 5, 11, 1000]))         # max_iteration_optimization (must not leak into the projection)
    d2 = gen.dim_of(c["shape"]) ** 2
    n = {"state": d2, "povm": d2 * c["true"].get("m", 2), "gate": d2 * d2, "mprocess": d2 * d2 * c["true"].get("m", 2)}[t]
    c["point"] = draw(gen.raw(n))
    c["point_scale"] = draw(st.sampled_from([0.3, 1.0, 3.0]))
    return c


def check_wiring(case, ctx):
    """the projection an algorithm object derives from (tomography, option) is the projection the option describes:
    differential against the direct call on the estimation template with the option's own iteration limit."""
    qt, c_sys, info = tomo.build_tomo(case)
    flag = case["flag"]
    algo, opt = make_algo(case["algo"], on_algo_eq_constraint=case["constraints"][0],
                          on_algo_ineq_constraint=case["constraints"][1], mode_proj_order=case["order"],
                          max_iteration_optimization=case["m_opt"], max_iteration_proj_physical=case["k_proj"])
    algo.set_from_option(opt)
    algo.set_constraint_from_standard_qt_and_option(qt, opt)
    tmpl = qt.generate_empty_estimation_obj_with_setting_info()
    x = np.asarray(case["point"], dtype=float) * case["point_scale"]
    var = np.asarray(tmpl.convert_stacked_vector_to_var(c_sys, x, on_para_eq_constraint=flag), dtype=float)
    got = np.asarray(algo.func_proj(var.copy()), dtype=float)
    eq_on, ineq_on = case["constraints"]
    ctx.label(case["tomo"], case["algo"], f"flag:{flag}", f"constraints:{case['constraints']}", f"k_proj:{case['k_proj']}", f"m_opt:{case['m_opt']}")
    if eq_on and ineq_on:
        want = tmpl.calc_proj_physical_with_var(var.copy(), on_para_eq_constraint=flag, max_iteration=case["k_proj"])
    elif eq_on:
        want = tmpl.calc_proj_eq_constraint_with_var(c_sys, var.copy(), on_para_eq_constraint=flag)
    elif ineq_on:
        want = tmpl.calc_proj_ineq_constraint_with_var(c_sys, var.copy(), on_para_eq_constraint=flag)
    else:
        want = var
    ctx.close(got, np.asarray(want, dtype=float), 0.0, "algorithm_projection_is_the_configured_projection",
              f"constraints={case['constraints']} max_iteration_proj_physical={case['k_proj']} max_iteration_optimization={case['m_opt']}")
    ctx.label(case["shape"])
    if eq_on and not ineq_on:
        # the equality projection alone is exact in one step: what the algorithm projects onto satisfies the constraint
        # (independent of the library: the refmodel's defect of the stacked form)
        t_ = tomo.true_type(case["tomo"])
        z = np.asarray(tmpl.convert_var_to_stacked_vector(c_sys, got.copy(), on_para_eq_constraint=flag), dtype=float)
        dfc = rm.eq_defect_stacked(t_, z, info["d"], info["m"])
        ctx.check(dfc <= 1e-12 * (1.0 + float(np.max(np.abs(z)))), "algorithm_eq_projection_satisfies_the_constraint",
                  f"{t_} on {case['shape']} flag={flag}: equality defect {dfc:.3e}")
    ctx.nontrivial(case["k_proj"] != case["m_opt"] and (eq_on and ineq_on))


def kf_relative_entropy_loss(case):
    """C10-F1: only the relative-entropy losses have unbounded gradients (q/p with p clipped at 1e-8)."""
    return case.get("loss") in ("re", "re_fast")


def kf_constrained_param_nonisometric(case):
    """C10-F2 (= C11-F2 seen through exact recovery): constrained parametrisation of POVM / measurement-process unknowns;
    the variable -> stacked map is not an isometry, so the projected-gradient line search can collapse far from the optimum."""
    return bool(case.get("flag")) and case.get("tomo") in ("povmt", "qmpt")


# ----------------------------------------------------------------------------- exact recovery (backtracking)
@st.composite
def recovery_case(draw, tier):
    kinds = ("qst", "qst", "povmt", "qpt", "qmpt") if tier == "quick" else ("qst", "povmt", "qpt", "qmpt")
    c = draw(tomo.tomo_case(kinds, ("1q",), (2, 3)))
    c["datadesc"] = {"data": "exact", "n": 1000}
    c["order"] = draw(st.sampled_from(["eq_ineq", "ineq_eq"]))
    c["algo"] = "backtracking"
    c["loss"] = draw(st.sampled_from(LOSSES))
    c["stop_mode"] = "single_difference_loss"
    c["num_history"] = 1
    c["constraints"] = [True, True]
    c["max_iter"] = 2000 if tier == "quick" else 5000
    # (large factors make every step project a far point: restricted to state tomography, whose projection converges fast)
    c["prior_use"] = draw(st.sampled_from(PRIOR_USES))
    c["wscale"] = draw(st.sampled_from([1.0, 1e2, 1e3, 1e4, 1e6])) if c["tomo"] == "qst" else 1.0
    if c["wscale"] != 1.0:
        c["algo_eps"] = 1e-14 * c["wscale"]  # the loss-difference threshold scales with the loss: same stopping point
    return c


def check_recovery(case, ctx):
    qt, c_sys, info = tomo.build_tomo(case)
    exact = tomo.exact_dists(case, info)
    empi = tomo.make_empi(case["datadesc"], exact)
    res, loss = run_lossmin(case, qt, empi)
    det = res.detailed_results[0]
    z = tomo.estimate_stacked(res.estimated_qoperation)
    x = tomo.stacked_true(case, info)
    boundary = _is_boundary(case, info)
    ctx.label(case["tomo"], f"flag:{case['flag']}", case["loss"], "boundary" if boundary else "interior", f"wscale:{case.get('wscale', 1.0):g}")
    if det.k >= case["max_iter"] or proj_cap_hit(ctx):
        ctx.skip("max-iteration")
        return
    # stopping on a loss decrease < 1e-14: squared-error loss ~ sigma_min(A)^2 |dx|^2 ; relative entropy is flatter
    # near the boundary.  The bound below is an accuracy claim 'to stopping accuracy', calibrated on the unchanged tree.
    # (a failure whose run shows the stall signature is named "stalled:..." - the only form the known finding covers)
    stalled = line_search_stalled(det)
    prefix = ""
    if stalled:
        ctx.label("line-search-stalled")
        prefix = "stalled:"
        if case["loss"].startswith("re"):
            # second known way to stall (C10-F3): an iterate sits where the model probability of an observed outcome is
            # below the loss's clipping threshold - there the clipped value and the unclipped gradient q/p disagree
            p_model = np.asarray(qt.calc_matA() @ np.asarray(det.x[-1], dtype=float) + qt.calc_vecB(), dtype=float)
            q_data = np.concatenate([np.asarray(e[1], dtype=float) for e in empi])
            if p_model.shape == q_data.shape and bool(np.any((q_data > 0) & (p_model < 1e-6))):
                ctx.label("stalled-in-clipping-region")
                prefix = "stalled_clipped:"
    ctx.close(z, x, 2e-4 * (1 + float(np.linalg.norm(x))), prefix + "backtracking_exact_recovery")
    ctx.nontrivial(True)


FACETS = {
    "projection_wiring": {
        "strategy": wiring_case,
        "check": check_wiring,
        "budget": {"quick": {"examples": 400, "shards": 4}, "thorough": {"examples": 8000, "shards": 16}},
        "nontrivial": "both constraint options on and max_iteration_proj_physical != max_iteration_optimization",
        "min_nontrivial": 40,
    },
    "projected_linear": {
        "strategy": est_case,
        "check": check_projected_linear,
        "budget": {"quick": {"examples": 320, "shards": 16}, "thorough": {"examples": 8000, "shards": 16}},
        "nontrivial": "few-shot or arbitrary data, or true object on the boundary",
        "min_nontrivial": 30,
    },
    "lossmin_physical": {
        "strategy": lossmin_case,
        "check": check_lossmin,
        "budget": {"quick": {"examples": 160, "shards": 16}, "thorough": {"examples": 960, "shards": 16}},
        "nontrivial": "few-shot or arbitrary data, or true object on the boundary",
        "min_nontrivial": 20,
    },
    "exact_recovery_backtracking": {
        "strategy": recovery_case,
        "check": check_recovery,
        "budget": {"quick": {"examples": 64, "shards": 16}, "thorough": {"examples": 800, "shards": 16}},
        "nontrivial": "every conclusive case (exact data of a constructed physical object through the full estimator)",
        "min_nontrivial": 10,
    },
}
