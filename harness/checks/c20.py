"""C20 - Experiments and tomographies accept exactly the well-formed schedules."""
import itertools

import numpy as np
from hypothesis import strategies as st

from harness import build, gen
from harness import refmodel as rm

RULE = (
    "experiment_language / tomography_language: exhaustive enumeration.  Every schedule of length 0..4 (0..5 thorough) over a "
    "24-symbol item alphabet ((kind,index) with kind in state/povm/gate/mprocess and index in -1..2, plus 8 malformed items: "
    "3-tuple, list instead of tuple, int kind, unknown kind, upper-case kind, float / str / None index) is passed as the only "
    "schedule to Experiment(...) for each of the 81 list-size configurations (0..2 objects per kind, lists mix real objects and "
    "None placeholders), resp. to each of the four Standard* tomography classes (2 states, 2 povms); one enumeration item = "
    "(configuration or class, first symbol) and covers all continuations.  The verdict (accepted / item error / order error) is "
    "compared with schedule_ok / tomo_shape_ok, an independent statement of the rules written from the property text.  An item is "
    "non-trivial when it contains at least one schedule that must be accepted.  setters / tomography_shapes / executable: "
    "Hypothesis-generated cases: schedules valid by construction against drawn list sizes, then mutated (replace / insert / delete "
    "/ swap with items of an extended alphabet incl. 1-tuples, empty tuples, None, str, nested tuples, huge indices); several "
    "schedules per experiment; sequences of setter calls tracked by a size model; tomography custom lists (shape-conforming "
    "subsets with duplicates, other classes' shapes, trailing items, wrong fixed index), 'all' and other strings; executable "
    "circuits state -> (gate|mprocess)* -> povm on 1q/qutrit objects constructed physical from Ginibre draws, compared with the "
    "Born joint distribution of a numpy reference model.  bool / numpy-integer indices and falsy wrong-typed list members are not "
    "generated (the property does not fix their reading)."
)
ASSUMPTIONS = [
    "well-formedness as stated by the property: >= 2 items, each exactly a 2-tuple (str kind in the four kinds, int index with "
    "0 <= index < len(list of that kind)), first item the only state, at most one povm, last item povm or mprocess",
    "rejection class: item error when only item rules are broken, order error when only order rules are broken, either when both "
    "are or when a malformed item leaves the kind sequence undetermined; a list of schedules is accepted iff every member is",
    "joint outcome order of a circuit with measurement processes is row-major in time order (earlier outcome = major index); "
    "quara truncates probabilities below eps_zero=1e-8 and renormalises, which the Born comparison tolerates (stated tolerance)",
    "tomography classes may reject with ValueError or with the experiment's schedule errors; only acceptance is fixed exactly",
]
TECHNIQUE = (
    "exhaustive enumeration of the bounded schedule language (24-symbol alphabet, length <= 4/5, 81 configurations, 4 tomography "
    "classes) against an independent rule statement; Hypothesis-generated setter histories, tomography schedule lists and "
    "executable circuits against a size model and a numpy Born reference"
)
LEVEL_TEXT = (
    "Bounded-exhaustive for the acceptance language: every schedule up to the length bound over the alphabet, for every list-size "
    "configuration and every tomography class, is decided against the independent rules, so within the bound there is no "
    "accepted-but-malformed or rejected-but-valid schedule other than the recorded known findings.  Setter histories, "
    "multi-schedule lists, longer schedules, exotic items and executability are generated-input search (cannot prove absence)."
)
LEVEL_NOTE = (
    "Trusted: schedule_ok / tomo_shape_ok in this module (written from the property statement, no quara import), harness/refmodel.py "
    "for the Born distribution, numpy.  Beyond length 5 / outside the alphabet only the generated facets look."
)

KINDS = ("state", "povm", "gate", "mprocess")
ATTR = {"state": "states", "povm": "povms", "gate": "gates", "mprocess": "mprocesses"}

# ----------------------------------------------------------------------------- item encoding (JSON <-> python)
# a JSON item code is [kind:str, index:int] (decoded to the tuple (kind, index)) or ["#", name] (a malformed item)
MALFORMED = {
    "arity3": lambda: ("povm", 0, 0),
    "list": lambda: ["state", 0],
    "int_kind": lambda: (0, 0),
    "float_idx": lambda: ("gate", 0.0),
    "str_idx": lambda: ("state", "0"),
    "none_idx": lambda: ("povm", None),
    # extended (generated facets only)
    "arity1": lambda: ("state",),
    "arity0": lambda: (),
    "none": lambda: None,
    "str": lambda: "state",
    "int": lambda: 0,
    "none_kind": lambda: (None, 0),
    "nested": lambda: (("state", 0),),
    "pair_of_pairs": lambda: (("state", 0), ("povm", 0)),
    "bytes_kind": lambda: (b"state", 0),
    "float_idx_mp": lambda: ("mprocess", 1.0),
    "tuple_kind": lambda: (("povm",), 0),
    "dict": lambda: {"state": 0},
}

ALPHABET = [[k, i] for k in KINDS for i in (-1, 0, 1, 2)] + [
    ["#", "arity3"],
    ["#", "list"],
    ["#", "int_kind"],
    ["foo", 0],
    ["State", 0],
    ["#", "float_idx"],
    ["#", "str_idx"],
    ["#", "none_idx"],
]
assert len(ALPHABET) == 24

EXT_POOL = (
    [[k, i] for k in KINDS for i in (-1, 0, 1, 2, 3)]
    + [[k, i] for k in ("foo", "State", "POVM", "", "states", "gates", " state", "Mprocess") for i in (0, 1)]
    + [["state", 10 ** 6], ["povm", -(10 ** 6)], ["gate", 2 ** 70], ["mprocess", -2]]
    + [["#", n] for n in MALFORMED]
)


def decode_item(code):
    if code[0] == "#":
        return MALFORMED[code[1]]()
    return (code[0], code[1])


def decode_schedule(codes):
    return [decode_item(c) for c in codes]


# ----------------------------------------------------------------------------- independent statement of the rules
def schedule_ok(schedule, sizes):
    """'accept' | 'item' | 'order' | 'either' for ONE schedule (a python list of arbitrary items) against list sizes.

    item rules : every item is exactly a 2-tuple (str kind among the four kinds, int index, 0 <= index < sizes[kind]).
    order rules: >= 2 items, first item is the only state, at most one povm, last item is a povm or an mprocess.
    'either' = both families broken, or a malformed item leaves the kind sequence undetermined.
    """
    bad = False
    undetermined = False
    kinds = []
    for it in schedule:
        if type(it) is tuple and len(it) == 2 and type(it[0]) is str:
            k, i = it
            kinds.append(k)
            if not (k in sizes and type(i) is int and 0 <= i < sizes[k]):
                bad = True
        else:
            bad = True
            undetermined = True
    if undetermined:
        return "either"
    order_ok = (
        len(kinds) >= 2
        and kinds[0] == "state"
        and kinds.count("state") == 1
        and kinds.count("povm") <= 1
        and kinds[-1] in ("povm", "mprocess")
    )
    if not bad:
        return "accept" if order_ok else "order"
    return "item" if order_ok else "either"


def schedules_ok(schedules, sizes):
    """verdict for a list of schedules: 'accept' or the set of admissible rejection classes."""
    allowed = set()
    for s in schedules:
        v = schedule_ok(s, sizes)
        if v == "either":
            allowed.update(("item", "order"))
        elif v != "accept":
            allowed.add(v)
    return "accept" if not allowed else allowed


def _pair(item, kind, lo, hi):
    return type(item) is tuple and len(item) == 2 and item[0] == kind and type(item[1]) is int and lo <= item[1] < hi


def tomo_shape_ok(cls, schedule, n_states, n_povms):
    """the schedule shape each Standard* class is documented to take (error messages / 'all' expansion)."""
    if cls == "qst":
        return len(schedule) == 2 and _pair(schedule[0], "state", 0, 1) and _pair(schedule[1], "povm", 0, n_povms)
    if cls == "povmt":
        return len(schedule) == 2 and _pair(schedule[0], "state", 0, n_states) and _pair(schedule[1], "povm", 0, 1)
    mid = "gate" if cls == "qpt" else "mprocess"
    return (
        len(schedule) == 3
        and _pair(schedule[0], "state", 0, n_states)
        and _pair(schedule[1], mid, 0, 1)
        and _pair(schedule[2], "povm", 0, n_povms)
    )


def tomo_sizes(cls, n_states, n_povms):
    """list sizes of the Experiment each tomography class builds (target object = one None placeholder)."""
    if cls == "qst":
        return {"state": 1, "povm": n_povms, "gate": 0, "mprocess": 0}
    if cls == "povmt":
        return {"state": n_states, "povm": 1, "gate": 0, "mprocess": 0}
    if cls == "qpt":
        return {"state": n_states, "povm": n_povms, "gate": 1, "mprocess": 0}
    return {"state": n_states, "povm": n_povms, "gate": 0, "mprocess": 1}


def tomo_all(cls, n_states, n_povms):
    if cls == "qst":
        return [[("state", 0), ("povm", j)] for j in range(n_povms)]
    if cls == "povmt":
        return [[("state", i), ("povm", 0)] for i in range(n_states)]
    mid = "gate" if cls == "qpt" else "mprocess"
    return [[("state", i), (mid, 0), ("povm", j)] for i in range(n_states) for j in range(n_povms)]


# ----------------------------------------------------------------------------- fixed 1-qubit objects
_CACHE = {}


def _fixed():
    """1q objects built from refmodel matrices (one composite system per process)."""
    if "fixed" in _CACHE:
        return _CACHE["fixed"]
    basis = gen.ref_basis("1q")
    c_sys = build.c_sys_for("1q")
    s2 = 1 / np.sqrt(2)
    kets = {
        "z0": np.array([1, 0], complex), "z1": np.array([0, 1], complex),
        "x0": np.array([s2, s2], complex), "x1": np.array([s2, -s2], complex),
        "y0": np.array([s2, 1j * s2], complex), "y1": np.array([s2, -1j * s2], complex),
    }
    proj = {k: np.outer(v, v.conj()) for k, v in kets.items()}

    def state(name):
        return build.make(c_sys, "state", np.real(rm.vec(basis, proj[name])))

    def povm(a, b):
        x = np.concatenate([np.real(rm.vec(basis, proj[a])), np.real(rm.vec(basis, proj[b]))])
        return build.make(c_sys, "povm", x, m=2)

    xg = np.array([[0, 1], [1, 0]], complex)
    gate = build.make(c_sys, "gate", np.real(rm.hs_from_kraus(basis, [xg])).reshape(-1))
    mp = build.make(
        c_sys, "mprocess",
        np.concatenate([np.real(rm.hs_from_kraus(basis, [proj[n]])).reshape(-1) for n in ("z0", "z1")]), m=2,
    )
    out = {
        "c_sys": c_sys,
        "states": [state("z0"), state("x0"), state("y0")],
        "povms": [povm("z0", "z1"), povm("x0", "x1"), povm("y0", "y1")],
        "obj": {"state": state("z0"), "povm": povm("z0", "z1"), "gate": gate, "mprocess": mp},
    }
    _CACHE["fixed"] = out
    return out


def config_sizes(cfg):
    """cfg in 0..80 -> sizes per kind (base-3 digits)."""
    sizes = {}
    c = cfg
    for k in KINDS:
        sizes[k] = c % 3
        c //= 3
    return sizes


def config_lists(cfg):
    """lists of the configuration: real objects and None placeholders alternate with the configuration parity."""
    fx = _fixed()
    sizes = config_sizes(cfg)
    lists = {}
    for pos, k in enumerate(KINDS):
        pat = [fx["obj"][k], None] if (cfg + pos) % 2 == 0 else [None, fx["obj"][k]]
        lists[k] = pat[: sizes[k]]
    return sizes, lists


# ----------------------------------------------------------------------------- running quara
def _errors():
    from quara.qcircuit.experiment import QuaraScheduleItemError, QuaraScheduleOrderError

    return QuaraScheduleItemError, QuaraScheduleOrderError


def _verdict_of(fn):
    """run fn; ('accept', result) | ('item'|'order'|'other:<Type>', exception)."""
    item_err, order_err = _errors()
    try:
        return "accept", fn()
    except item_err as e:
        return "item", e
    except order_err as e:
        return "order", e
    except Exception as e:  # classified by the caller; never swallowed silently
        return "other:" + type(e).__name__, e


def _compare(ctx, expected, got, what, sub_case=None):
    """expected: 'accept' | 'item' | 'order' | 'either' | set; got: verdict string.  Returns True when consistent."""
    if expected == "either":
        expected = {"item", "order"}
    elif isinstance(expected, str) and expected != "accept":
        expected = {expected}
    if expected == "accept":
        ok = got == "accept"
    else:
        ok = got in expected
    if ok:
        return True
    if got.startswith("other:"):
        oracle = "no_other_exception:" + got[6:]
    elif expected == "accept" or got == "accept":
        oracle = "accept_iff_wellformed"
    else:
        oracle = "rejection_class"
    old = ctx.case
    if sub_case is not None:
        ctx.case = sub_case  # known-finding predicates look at the single schedule, not at the whole chunk
    try:
        ctx.check(False, oracle, f"{what}: expected {expected}, quara: {got}")
    finally:
        ctx.case = old
    return False


# ============================================================================= facet: experiment_language
def language_items(tier):
    maxlen = 4 if tier == "quick" else 5
    items = []
    for cfg in range(81):
        items.append({"cfg": cfg, "first": -1, "maxlen": maxlen})
        for s in range(len(ALPHABET)):
            items.append({"cfg": cfg, "first": s, "maxlen": maxlen})
    return items


def _continuations(first, maxlen):
    """all symbol-index tuples starting with `first` of length 1..maxlen (first == -1: the empty schedule only)."""
    if first < 0:
        yield ()
        return
    n = len(ALPHABET)
    for extra in range(0, maxlen):
        for sfx in itertools.product(range(n), repeat=extra):
            yield (first,) + sfx


SETTER_MAXLEN = 3


def check_language(case, ctx):
    """Experiment(schedules=[s]) for every schedule s of the chunk (or the single schedule case['schedule'])."""
    from quara.qcircuit.experiment import Experiment

    sizes, lists = config_lists(case["cfg"])
    symbols = [decode_item(c) for c in ALPHABET]
    counts = {"accept": 0, "item": 0, "order": 0, "either": 0}
    ctx.label("sizes:" + "".join(str(sizes[k]) for k in KINDS))

    item_err, order_err = _errors()
    ls, lp, lg, lm = lists["state"], lists["povm"], lists["gate"], lists["mprocess"]
    base = Experiment(schedules=[], states=ls, povms=lp, gates=lg, mprocesses=lm)

    def one(schedule, codes):
        exp = schedule_ok(schedule, sizes)
        try:
            Experiment(schedules=[schedule], states=ls, povms=lp, gates=lg, mprocesses=lm)
            got = "accept"
        except item_err:
            got = "item"
        except order_err:
            got = "order"
        except Exception as e:  # reported below through the no_other_exception oracle
            got = "other:" + type(e).__name__
        counts[exp] += 1
        if not (got == exp or (exp == "either" and (got == "item" or got == "order"))):
            codes = [ALPHABET[c] if isinstance(c, int) else c for c in codes]
            _compare(ctx, exp, got, f"cfg={case['cfg']} sizes={sizes} schedule={schedule!r}",
                     {"cfg": case["cfg"], "schedule": codes})
        if len(schedule) > SETTER_MAXLEN:
            return
        # the same language through the `schedules` setter of an existing experiment (exhaustive up to length 3)
        before = base.schedules
        new = [schedule]
        try:
            base.schedules = new
            got2 = "accept"
        except item_err:
            got2 = "item"
        except order_err:
            got2 = "order"
        except Exception as e:
            got2 = "other:" + type(e).__name__
        if not (got2 == exp or (exp == "either" and (got2 == "item" or got2 == "order"))):
            codes = [ALPHABET[c] if isinstance(c, int) else c for c in codes]
            _compare(ctx, exp, got2, f"schedules setter cfg={case['cfg']} sizes={sizes} schedule={schedule!r}",
                     {"cfg": case["cfg"], "schedule": codes})
        if not (base.schedules is (new if got2 == "accept" else before)):
            ctx.check(False, "schedules_setter_state", f"after {got2}: schedules={base.schedules!r} for {schedule!r}")

    if "schedule" in case:
        one(decode_schedule(case["schedule"]), case["schedule"])
        n = 1
    else:
        n = 0
        for idx in _continuations(case["first"], case["maxlen"]):
            one([symbols[i] for i in idx], idx)
            n += 1
        if case["first"] < 0:
            # the empty list of schedules is vacuously well-formed
            got, _ = _verdict_of(lambda: Experiment(schedules=[], states=ls, povms=lp, gates=lg, mprocesses=lm))
            _compare(ctx, "accept", got, f"cfg={case['cfg']} empty schedule list")
    ctx.n_oracles += n
    for k, v in counts.items():
        if v:
            ctx.label(*(["expect:" + k] * v))
    ctx.nontrivial(counts["accept"] > 0)


# ============================================================================= facet: tomography_language
TOMO = ("qst", "povmt", "qpt", "qmpt")
ENUM_NS, ENUM_NP = 2, 2


def make_tomo(cls, states, povms, schedules, on_para=False):
    from quara.protocol.qtomography.standard.standard_povmt import StandardPovmt
    from quara.protocol.qtomography.standard.standard_qmpt import StandardQmpt
    from quara.protocol.qtomography.standard.standard_qpt import StandardQpt
    from quara.protocol.qtomography.standard.standard_qst import StandardQst

    if cls == "qst":
        return StandardQst(povms, on_para_eq_constraint=on_para, schedules=schedules)
    if cls == "povmt":
        return StandardPovmt(states, num_outcomes=2, on_para_eq_constraint=on_para, schedules=schedules)
    if cls == "qpt":
        return StandardQpt(states, povms, on_para_eq_constraint=on_para, schedules=schedules)
    if cls == "qmpt":
        return StandardQmpt(states, povms, num_outcomes=2, on_para_eq_constraint=on_para, schedules=schedules)
    raise ValueError(cls)


def _tomo_verdict(fn):
    """'accept' | 'reject' (ValueError or a schedule error: documented) | 'other:<Type>'."""
    got, res = _verdict_of(fn)
    if got in ("item", "order"):
        return "reject", res
    if got.startswith("other:") and isinstance(res, ValueError):
        return "reject", res
    return got, res


def tomo_language_items(tier):
    maxlen = 4 if tier == "quick" else 5
    items = []
    for cls in TOMO:
        items.append({"cls": cls, "first": -1, "maxlen": maxlen})
        for s in range(len(ALPHABET)):
            items.append({"cls": cls, "first": s, "maxlen": maxlen})
    return items


def _tomo_compare(ctx, shape_ok, got, what, sub_case):
    if (got == "accept") == shape_ok and not got.startswith("other:"):
        return True
    if got.startswith("other:"):
        oracle = "tomo_rejection_class:" + got[6:] if not shape_ok else "tomo_accept_iff_shape"
    else:
        oracle = "tomo_accept_iff_shape"
    old = ctx.case
    ctx.case = sub_case
    try:
        ctx.check(False, oracle, f"{what}: of the class's shape={shape_ok}, quara: {got}")
    finally:
        ctx.case = old
    return False


def check_tomo_language(case, ctx):
    fx = _fixed()
    cls = case["cls"]
    states, povms = fx["states"][:ENUM_NS], fx["povms"][:ENUM_NP]
    sizes = tomo_sizes(cls, ENUM_NS, ENUM_NP)
    symbols = [decode_item(c) for c in ALPHABET]
    counts = {"shape": 0, "wellformed_other_shape": 0, "malformed": 0}
    ctx.label("class:" + cls)

    def one(schedule, codes):
        ok = tomo_shape_ok(cls, schedule, ENUM_NS, ENUM_NP)
        wf = schedule_ok(schedule, sizes) == "accept"
        assert wf or not ok, "shape-conforming schedules are well-formed"
        counts["shape" if ok else ("wellformed_other_shape" if wf else "malformed")] += 1
        got, res = _tomo_verdict(lambda: make_tomo(cls, states, povms, [schedule]))
        good = _tomo_compare(ctx, ok, got, f"{cls} schedule={schedule!r}", {"cls": cls, "schedule": codes})
        if good and ok:
            ctx.check(res.experiment.schedules == [schedule] and res.num_schedules == 1, "tomo_keeps_schedules",
                      f"{cls} {schedule!r} -> {res.experiment.schedules!r}")

    n = 0
    if "schedule" in case:
        one(decode_schedule(case["schedule"]), case["schedule"])
        n = 1
    else:
        for idx in _continuations(case["first"], case["maxlen"]):
            one([symbols[i] for i in idx], [ALPHABET[i] for i in idx])
            n += 1
    ctx.n_oracles += n
    for k, v in counts.items():
        if v:
            ctx.label(*(["schedule:" + k] * v))
    ctx.nontrivial(counts["shape"] > 0 or counts["wellformed_other_shape"] > 0)


# ----------------------------------------------------------------------------- known-finding predicates
def _as_tuples(codes):
    return decode_schedule(codes)


def _is_qmpt_trailing(schedule, n_states, n_povms):
    """[state i, mprocess 0, povm j] followed by one or more ('mprocess', 0)."""
    return (
        len(schedule) > 3
        and tomo_shape_ok("qmpt", schedule[:3], n_states, n_povms)
        and all(_pair(it, "mprocess", 0, 1) for it in schedule[3:])
    )


def _is_qmpt_short(schedule, n_states):
    return len(schedule) == 2 and _pair(schedule[0], "state", 0, n_states) and _pair(schedule[1], "mprocess", 0, 1)


def known_qmpt_trailing_mprocess(case):
    """C20-F1: StandardQmpt accepts [state, mprocess 0, povm, mprocess 0, ...] (only the first three items are looked at)."""
    if case.get("cls") != "qmpt":
        return False
    if "schedule" in case:
        return _is_qmpt_trailing(_as_tuples(case["schedule"]), ENUM_NS, ENUM_NP)
    if case.get("mode") == "custom":
        ns, np_ = case["n_states"], case["n_povms"]
        scheds = [_as_tuples(s) for s in case["schedules"]]
        off = [s for s in scheds if not tomo_shape_ok("qmpt", s, ns, np_)]
        return bool(off) and all(_is_qmpt_trailing(s, ns, np_) for s in off)
    return False


def known_qmpt_short_indexerror(case):
    """C20-F2: StandardQmpt rejects [state i, mprocess 0] with a bare IndexError (schedule[2] is read unguarded)."""
    if case.get("cls") != "qmpt":
        return False
    if "schedule" in case:
        return _is_qmpt_short(_as_tuples(case["schedule"]), ENUM_NS)
    if case.get("mode") == "custom":
        return any(_is_qmpt_short(_as_tuples(s), case["n_states"]) for s in case["schedules"])
    return False


# ============================================================================= schedule strategies
def chance(draw, percent):
    """True with roughly the given probability.  Hypothesis over-represents the ends of an integer range (and small
    floats), so the 'hit' window sits in the middle of the range."""
    return 30 <= draw(st.integers(0, 99)) < 30 + percent


def pick(draw, lo, hi):
    """integer in [lo, hi], close to uniform (Hypothesis favours the ends of small ranges; shrinks towards lo)."""
    return lo + (draw(st.integers(0, 9999)) // 7) % (hi - lo + 1)


@st.composite
def valid_schedule_codes(draw, sizes, max_mid=3, end_povm_only=False):
    """codes of a schedule that is well-formed against sizes (needs a state and a povm/mprocess)."""
    s = [["state", draw(st.integers(0, sizes["state"] - 1))]]
    mids = [k for k in ("gate", "mprocess") if sizes[k] >= 1]
    n_mid = pick(draw, 0, max_mid) if mids else 0
    for _ in range(n_mid):
        k = draw(st.sampled_from(mids))
        s.append([k, draw(st.integers(0, sizes[k] - 1))])
    ends = [k for k in ("povm", "mprocess") if sizes[k] >= 1]
    if end_povm_only:
        ends = ["povm"]
    end = draw(st.sampled_from(ends))
    if end == "mprocess" and sizes["povm"] >= 1 and draw(st.booleans()):
        pos = draw(st.integers(1, len(s)))
        s.insert(pos, ["povm", draw(st.integers(0, sizes["povm"] - 1))])
    s.append([end, draw(st.integers(0, sizes[end] - 1))])
    return s


@st.composite
def mutated(draw, codes, max_mut=2):
    codes = [list(c) for c in codes]
    for _ in range(draw(st.integers(1, max_mut))):
        op = draw(st.sampled_from(["replace", "replace", "insert", "delete", "swap", "dup", "truncate"]))
        if op == "replace" and codes:
            codes[draw(st.integers(0, len(codes) - 1))] = draw(st.sampled_from(EXT_POOL))
        elif op == "insert":
            codes.insert(draw(st.integers(0, len(codes))), draw(st.sampled_from(EXT_POOL)))
        elif op == "delete" and codes:
            del codes[draw(st.integers(0, len(codes) - 1))]
        elif op == "swap" and len(codes) >= 2:
            i = draw(st.integers(0, len(codes) - 2))
            codes[i], codes[i + 1] = codes[i + 1], codes[i]
        elif op == "dup" and codes:
            i = draw(st.integers(0, len(codes) - 1))
            codes.insert(i, list(codes[i]))
        elif op == "truncate":
            codes = codes[: draw(st.integers(0, 1))]
    return codes


def _can_be_valid(sizes):
    return sizes["state"] >= 1 and (sizes["povm"] >= 1 or sizes["mprocess"] >= 1)


@st.composite
def schedule_list_codes(draw, sizes, p_bad=15, max_n=4, min_n=0):
    n = pick(draw, min_n, max_n)
    out = []
    for _ in range(n):
        if _can_be_valid(sizes):
            base = draw(valid_schedule_codes(sizes))
        else:
            base = [["state", 0], ["povm", 0]]
        if chance(draw, p_bad):
            base = draw(mutated(base))
        out.append(base)
    return out


# ============================================================================= facet: setters
TOKENS = ("obj", "obj", "obj", "none")
BAD_TOKENS = ("bad:other", "bad:str", "bad:int")


@st.composite
def token_list(draw, lo=0, hi=3, p_bad=3):
    n = pick(draw, lo, hi)
    toks = [draw(st.sampled_from(TOKENS)) for _ in range(n)]
    if n and chance(draw, p_bad):
        toks[draw(st.integers(0, n - 1))] = draw(st.sampled_from(BAD_TOKENS))
    return toks


def _sizes_of(lists):
    return {k: len(lists[k]) for k in KINDS}


def _has_bad(toks):
    return any(t.startswith("bad") for t in toks)


@st.composite
def setters_case(draw, tier):
    lists = {
        "state": draw(token_list(0 if chance(draw, 8) else 1, 3)),
        "povm": draw(token_list(0 if chance(draw, 25) else 1, 3)),
        "gate": draw(token_list(0, 3)),
        "mprocess": draw(token_list(0, 3)),
    }
    sizes = _sizes_of(lists)
    schedules = draw(schedule_list_codes(sizes, p_bad=5, max_n=4, min_n=0 if chance(draw, 10) else 1))
    case = {"lists": lists, "schedules": schedules, "none_for_empty": draw(st.booleans()), "ops": []}
    # model the experiment to aim later operations at the interesting boundary
    if any(_has_bad(v) for v in lists.values()):
        return case
    if schedules_ok([decode_schedule(s) for s in schedules], sizes) != "accept":
        return case
    cur_lists = {k: list(v) for k, v in lists.items()}
    cur_sched = schedules
    for _ in range(pick(draw, 2, 7)):
        if chance(draw, 25):
            new = draw(schedule_list_codes(_sizes_of(cur_lists), p_bad=30, max_n=4))
            case["ops"].append({"op": "schedules", "schedules": new})
            if schedules_ok([decode_schedule(s) for s in new], _sizes_of(cur_lists)) == "accept":
                cur_sched = new
        else:
            k = draw(st.sampled_from(KINDS))
            new = draw(token_list(0, 3))
            case["ops"].append({"op": k, "list": new})
            if not _has_bad(new):
                trial = dict(_sizes_of(cur_lists))
                trial[k] = len(new)
                if schedules_ok([decode_schedule(s) for s in cur_sched], trial) == "accept":
                    cur_lists[k] = new
    return case


def _materialise(kind, toks):
    fx = _fixed()
    other = {"state": "povm", "povm": "state", "gate": "mprocess", "mprocess": "gate"}
    out = []
    for t in toks:
        if t == "obj":
            out.append(fx["obj"][kind])
        elif t == "none":
            out.append(None)
        elif t == "bad:other":
            out.append(fx["obj"][other[kind]])
        elif t == "bad:str":
            out.append("x")
        elif t == "bad:int":
            out.append(1)
        else:
            raise AssertionError(t)
    return out


def check_setters(case, ctx):
    from quara.qcircuit.experiment import Experiment

    lists = {k: _materialise(k, case["lists"][k]) for k in KINDS}
    sizes = _sizes_of(lists)
    schedules = [decode_schedule(s) for s in case["schedules"]]
    bad_type = any(_has_bad(case["lists"][k]) for k in KINDS)
    exp_sched = schedules_ok(schedules, sizes)
    kw = {ATTR[k]: (None if (case["none_for_empty"] and not lists[k]) else lists[k]) for k in KINDS}

    got, res = _verdict_of(lambda: Experiment(schedules=schedules, **kw))
    if bad_type:
        ctx.label("ctor:bad-type")
        if exp_sched == "accept":
            ctx.check(got == "other:TypeError", "ctor_wrong_type_typeerror", f"lists={case['lists']} -> {got}")
        else:
            ctx.check(got in {"other:TypeError"} | set(exp_sched), "ctor_wrong_type_typeerror", f"{got}")
        return
    if not _compare(ctx, exp_sched, got, f"ctor sizes={sizes} schedules={schedules!r}"):
        return
    if got != "accept":
        ctx.label("ctor:rejected")
        return
    ctx.label("ctor:accepted", f"n_schedules:{len(schedules)}")
    e = res
    cur = {k: (lists[k] if kw[ATTR[k]] is not None else None) for k in KINDS}
    cur_sched = schedules
    ctx.check(e.schedules is schedules, "ctor_keeps_schedules")
    for k in KINDS:
        if cur[k] is not None:
            ctx.check(getattr(e, ATTR[k]) is cur[k], "ctor_keeps_lists", k)
        else:
            ctx.check(getattr(e, ATTR[k]) == [], "ctor_keeps_lists", k)
            cur[k] = getattr(e, ATTR[k])

    def unchanged(tag):
        for kk in KINDS:
            ctx.check(getattr(e, ATTR[kk]) is cur[kk] and len(cur[kk]) == sizes[kk], "rejected_setter_leaves_experiment_unchanged",
                      f"{tag}: {kk}")
            ctx.check(e.num_qoperations(kk) == sizes[kk], "rejected_setter_leaves_experiment_unchanged", f"{tag}: size {kk}")
        ctx.check(e.schedules is cur_sched, "rejected_setter_leaves_experiment_unchanged", f"{tag}: schedules")

    n_rej = n_acc = 0
    for step, op in enumerate(case["ops"]):
        tag = f"op#{step} {op['op']}"
        if op["op"] == "schedules":
            new = [decode_schedule(s) for s in op["schedules"]]
            expv = schedules_ok(new, sizes)

            def do():
                e.schedules = new

            got, _ = _verdict_of(do)
            if not _compare(ctx, expv, got, f"{tag} sizes={sizes} new={new!r}"):
                return
            if got == "accept":
                ctx.check(e.schedules is new, "setter_installs_value", tag)
                cur_sched = new
                n_acc += 1
                ctx.label("op:schedules-accepted")
            else:
                unchanged(tag)
                n_rej += 1
                ctx.label("op:schedules-rejected")
            continue
        k = op["op"]
        new = _materialise(k, op["list"])

        def do():
            setattr(e, ATTR[k], new)

        got, _ = _verdict_of(do)
        if _has_bad(op["list"]):
            ctx.check(got == "other:TypeError", "setter_wrong_type_typeerror", f"{tag} {op['list']} -> {got}")
            unchanged(tag)
            ctx.label("op:list-bad-type")
            continue
        trial = dict(sizes)
        trial[k] = len(new)
        expv = schedules_ok(cur_sched, trial)
        # the installed schedules satisfy the order rules, so only item rules can break: the documented item error
        if expv != "accept":
            expv = "item"
        if not _compare(ctx, expv, got, f"{tag} new size {len(new)} sizes={sizes} schedules={cur_sched!r}"):
            return
        if got == "accept":
            ctx.check(getattr(e, ATTR[k]) is new, "setter_installs_value", tag)
            cur[k] = new
            sizes = trial
            n_acc += 1
            ctx.label("op:list-accepted")
        else:
            unchanged(tag)
            n_rej += 1
            ctx.label("op:list-rejected")
    # the experiment still satisfies its invariant
    ctx.check(schedules_ok(e.schedules, {k: len(getattr(e, ATTR[k])) for k in KINDS}) == "accept", "experiment_invariant")
    # a list the constructor created itself (argument omitted) belongs to THAT experiment: growing it in place through the
    # public property, then building another experiment that omits the same argument - the second one starts empty and
    # rejects a schedule that names the first one's object
    fx = _fixed()["obj"]
    for k in ("gate", "mprocess"):
        e1 = Experiment(schedules=[], states=[fx["state"]], povms=[fx["povm"]])
        getattr(e1, ATTR[k]).append(fx[k])
        e1.schedules = [[("state", 0), (k, 0), ("povm", 0)]]
        got2, e2 = _verdict_of(lambda: Experiment(schedules=[], states=[fx["state"]], povms=[fx["povm"]]))
        if ctx.check(got2 == "accept", "second_experiment:constructed", got2):
            ctx.check(len(getattr(e2, ATTR[k])) == 0 and e2.num_qoperations(k) == 0, "second_experiment:omitted_list_is_empty",
                      f"{k}: {len(getattr(e2, ATTR[k]))} object(s) in an experiment built without any")
        got3, _ = _verdict_of(lambda: Experiment(schedules=[[("state", 0), (k, 0), ("povm", 0)]], states=[fx["state"]],
                                                 povms=[fx["povm"]]))
        _compare(ctx, "item", got3, f"second experiment without {k}s, schedule names {k} 0")
    ctx.nontrivial(n_rej >= 1 and n_acc >= 1)


# ============================================================================= facet: tomography_shapes
@st.composite
def tomo_case(draw, tier):
    cls = draw(st.sampled_from(TOMO))
    ns, npv = draw(st.integers(1, 3)), draw(st.integers(1, 3))
    mode = draw(st.sampled_from(["custom"] * 7 + ["all", "string"]))
    case = {"cls": cls, "n_states": ns, "n_povms": npv, "on_para": draw(st.booleans()), "mode": mode}
    if mode == "string":
        case["string"] = draw(st.one_of(
            st.sampled_from(["All", "ALL", "", "al", "all ", " all", "alll", "none", "any", "a", "full", "state", "0"]),
            st.text(max_size=6).filter(lambda s: s != "all"),
        ))
        return case
    if mode == "all":
        return case
    sizes = tomo_sizes(cls, ns, npv)
    shape = tomo_all(cls, ns, npv)
    n = draw(st.integers(1, 6))
    scheds = []
    for _ in range(n):
        base = [[k, i] for (k, i) in draw(st.sampled_from(shape))]
        r = draw(st.integers(0, 9))
        if r <= 5:
            pass
        elif r == 6:  # shape of another class / any well-formed schedule of this experiment
            base = draw(valid_schedule_codes(sizes, max_mid=2))
        elif r == 7:  # trailing / repeated items of the target kind
            tail = {"qst": ["povm", 0], "povmt": ["povm", 0], "qpt": ["gate", 0], "qmpt": ["mprocess", 0]}[cls]
            pos = draw(st.integers(1, len(base)))
            for _ in range(draw(st.integers(1, 2))):
                base.insert(pos, list(tail))
        elif r == 8:  # wrong fixed index / out-of-range tester index
            j = draw(st.integers(0, len(base) - 1))
            base[j] = [base[j][0], draw(st.sampled_from([-1, 1, 2, 3]))]
        else:
            base = draw(mutated(base))
        scheds.append(base)
    case["schedules"] = scheds
    return case


def check_tomo(case, ctx):
    fx = _fixed()
    cls, ns, npv = case["cls"], case["n_states"], case["n_povms"]
    states, povms = fx["states"][:ns], fx["povms"][:npv]
    ctx.label("class:" + cls, "mode:" + case["mode"])
    if case["mode"] == "string":
        ctx.raises(ValueError, lambda: make_tomo(cls, states, povms, case["string"], case["on_para"]), "tomo_string_not_all",
                   repr(case["string"]))
        ctx.nontrivial(True)
        return
    if case["mode"] == "all":
        t = make_tomo(cls, states, povms, "all", case["on_para"])
        ctx.equal(t.experiment.schedules, tomo_all(cls, ns, npv), "tomo_all_is_full_product")
        ctx.equal(t.num_schedules, len(tomo_all(cls, ns, npv)), "tomo_all_is_full_product")
        ctx.nontrivial(True)
        return
    sizes = tomo_sizes(cls, ns, npv)
    scheds = [decode_schedule(s) for s in case["schedules"]]
    oks = [tomo_shape_ok(cls, s, ns, npv) for s in scheds]
    wfs = [schedule_ok(s, sizes) == "accept" for s in scheds]
    assert all(w or not o for o, w in zip(oks, wfs))
    got, res = _tomo_verdict(lambda: make_tomo(cls, states, povms, scheds, case["on_para"]))
    ctx.label("expected:" + ("accept" if all(oks) else "reject"))
    good = _tomo_compare(ctx, all(oks), got, f"{cls} ns={ns} np={npv} schedules={scheds!r}", case)
    if good and all(oks):
        ctx.check(res.experiment.schedules == scheds and res.num_schedules == len(scheds), "tomo_keeps_schedules")
    # the same schedules in a tuple instead of a list: same decision, and the same schedules are run
    got_t, res_t = _tomo_verdict(lambda: make_tomo(cls, states, povms, tuple(scheds), case["on_para"]))
    ctx.check(got_t == got, "tomo_tuple_of_schedules_decided_like_list", lambda: f"{cls} schedules={scheds!r}: list -> {got}, tuple -> {got_t}")
    if good and all(oks) and got_t == got:
        ctx.check([list(x) for x in res_t.experiment.schedules] == [list(x) for x in scheds] and res_t.num_schedules == len(scheds),
                  "tomo_tuple_of_schedules_keeps_schedules", lambda: f"{cls}: given {scheds!r}, runs {res_t.experiment.schedules!r}")
    # the class-specific rule decides (not only the experiment's rules)
    ctx.nontrivial(all(wfs) and (len(scheds) >= 2 or not all(oks)))
    if all(wfs) and not all(oks):
        ctx.label("wellformed-but-other-shape")


# ============================================================================= facet: executable
BAD_INDEX = {"neg1": lambda n: -1, "len": lambda n: n, "len+3": lambda n: n + 3, "neg_len1": lambda n: -n - 1,
             "float0": lambda n: 0.0, "str0": lambda n: "0", "none": lambda n: None, "tuple0": lambda n: (0,)}
BAD_INDEX_ERR = {"neg1": IndexError, "len": IndexError, "len+3": IndexError, "neg_len1": IndexError,
                 "float0": TypeError, "str0": TypeError, "none": TypeError, "tuple0": TypeError}


@st.composite
def executable_case(draw, tier):
    shape = draw(st.sampled_from(["1q", "1q", "1q", "qutrit"]))

    def with_none(strategy, lo, hi, p_none=8):
        n = pick(draw, lo, hi)
        return [None if chance(draw, p_none) else draw(strategy) for _ in range(n)]

    case = {
        "shape": shape,
        "phys": draw(st.booleans()),
        "states": with_none(gen.state_case((shape,)), 1, 2),
        "povms": with_none(gen.povm_case((shape,), (2, 3)), 1, 2),
        "gates": with_none(gen.gate_case((shape,), max_rank=2), 0, 2),
        "mprocesses": with_none(gen.mprocess_case((shape,), (2, 3), 2), 0 if chance(draw, 25) else 1, 2),
    }
    sizes = {"state": len(case["states"]), "povm": len(case["povms"]), "gate": len(case["gates"]),
             "mprocess": len(case["mprocesses"])}
    n = pick(draw, 1, 3)
    case["schedules"] = [draw(valid_schedule_codes(sizes, max_mid=3, end_povm_only=True)) for _ in range(n)]
    case["bad_indices"] = draw(st.lists(st.sampled_from(sorted(BAD_INDEX)), max_size=2))
    return case


PHYS_MARGIN_P = 1e-2  # branch probability below which noise/p_x (2e-16 * d^2 / p) can reach atol/10 = 1e-14


def born_joint(rho, middle, povm):
    """joint distribution of state -> (gate | instrument)* -> povm; earlier outcomes are the major index."""
    branches = [rho]
    p_min = 1.0
    for kind, op in middle:
        if kind == "gate":
            branches = [rm.apply_kraus(op, b) for b in branches]
        else:
            branches = [rm.apply_kraus(kx, b) for b in branches for kx in op]
            p_min = min([p_min] + [float(np.real(np.trace(b))) for b in branches])
    return np.array([float(np.real(np.trace(e @ b))) for b in branches for e in povm]), p_min


def check_executable(case, ctx):
    from quara.qcircuit.experiment import Experiment

    shape = case["shape"]
    d = gen.dim_of(shape)
    c_sys = build.c_sys_for(shape)
    key = {"state": "states", "povm": "povms", "gate": "gates", "mprocess": "mprocesses"}
    objs, mats = {}, {}
    for k in KINDS:
        objs[k], mats[k] = [], []
        for oc in case[key[k]]:
            if oc is None:
                objs[k].append(None)
                mats[k].append(None)
            else:
                objs[k].append(build.obj_from_case(oc, c_sys, is_physicality_required=case["phys"])[0])
                mats[k].append(gen.matrices(oc))
    sizes = {k: len(objs[k]) for k in KINDS}
    scheds = [decode_schedule(s) for s in case["schedules"]]
    assert schedules_ok(scheds, sizes) == "accept"
    e = Experiment(schedules=scheds, states=objs["state"], povms=objs["povm"], gates=objs["gate"],
                   mprocesses=objs["mprocess"])
    ctx.label("shape:" + shape, f"phys:{case['phys']}")
    interesting = False
    all_runnable = True
    results = []
    for si, s in enumerate(scheds):
        has_none = any(objs[k][i] is None for k, i in s)
        if has_none:
            all_runnable = False
            ctx.raises(ValueError, lambda: e.calc_prob_dist(si), "none_placeholder_valueerror", repr(s))
            ctx.label("schedule:none-operand")
            interesting = True
            continue
        middle = [(k, mats[k][i]) for k, i in s[1:-1]]
        ref, p_min = born_joint(mats["state"][s[0][1]], middle, mats["povm"][s[-1][1]])
        n_meas = sum(1 for k, _ in middle if k == "mprocess")
        try:
            ps = e.calc_prob_dist(si)
        except ValueError as ex:
            # With is_physicality_required=True quara re-validates every post-measurement state M_x(rho)/p_x at
            # atol=1e-13; rounding noise ~1e-16 in M_x(rho) is amplified by 1/p_x, so for small branch probabilities
            # that verdict sits in its own margin band (DESIGN section 5).  Numerical conditioning of composition
            # belongs to C06, not to schedule acceptance: such a case is inconclusive here, never a verdict.
            if case["phys"] and "not physically correct" in str(ex) and p_min < PHYS_MARGIN_P:
                ctx.skip("post-state-physicality-margin")
                all_runnable = False
                continue
            raise
        results.append(ps)
        if not ctx.check(isinstance(ps, np.ndarray) and ps.ndim == 1, "executes_to_distribution", f"{type(ps)}"):
            continue
        ctx.check(bool(np.all(ps >= 0)), "distribution_nonnegative", f"{ps}")
        ctx.close(float(np.sum(ps)), 1.0, 1e-12 * max(1, ps.size), "distribution_normalised")
        # each measurement stage zeroes probabilities < eps_zero=1e-8 and renormalises
        tol = 2e-8 * ref.size * (n_meas + 1) + rm.algebraic_tol(d)
        ctx.close(ps, ref, tol, "born_distribution", f"schedule={s!r}")
        ctx.label(f"schedule:middle={len(middle)}", f"schedule:mprocesses={n_meas}")
        if middle:
            interesting = True
    if all_runnable:
        alls = e.calc_prob_dists()
        ctx.check(len(alls) == len(results) and all(np.array_equal(a, b) for a, b in zip(alls, results)),
                  "calc_prob_dists_is_per_schedule")
    for name in case["bad_indices"]:
        idx = BAD_INDEX[name](len(scheds))
        ctx.raises(BAD_INDEX_ERR[name], lambda: e.calc_prob_dist(idx), "bad_schedule_index:" + name)
        ctx.label("bad-index:" + name)
    ctx.nontrivial(interesting)


# =============================================================================
FACETS = {
    "experiment_language": {
        "kind": "enumeration",
        "items": language_items,
        "check": check_language,
        "budget": {"quick": {"examples": 0, "shards": 16}, "thorough": {"examples": 0, "shards": 16}},
        "nontrivial": "the chunk (configuration, first symbol) contains at least one schedule that must be accepted",
        "min_nontrivial": 60,
    },
    "tomography_language": {
        "kind": "enumeration",
        "items": tomo_language_items,
        "check": check_tomo_language,
        "budget": {"quick": {"examples": 0, "shards": 16}, "thorough": {"examples": 0, "shards": 16}},
        "nontrivial": "the chunk (class, first symbol) contains a schedule that passes the experiment's rules, so the class-specific shape rule decides",
        "min_nontrivial": 4,
    },
    "setters": {
        "strategy": setters_case,
        "check": check_setters,
        "budget": {"quick": {"examples": 4000, "shards": 8}, "thorough": {"examples": 60000, "shards": 16}},
        "nontrivial": "constructed successfully, then at least one setter call accepted and at least one rejected (experiment-unchanged checked)",
        "min_nontrivial": 50,
    },
    "tomography_shapes": {
        "strategy": tomo_case,
        "check": check_tomo,
        "budget": {"quick": {"examples": 3000, "shards": 8}, "thorough": {"examples": 40000, "shards": 16}},
        "nontrivial": "'all' / other string, or a custom list whose members all pass the experiment's rules with >= 2 members or a member of another shape",
        "min_nontrivial": 50,
    },
    "executable": {
        "strategy": executable_case,
        "check": check_executable,
        "budget": {"quick": {"examples": 1600, "shards": 8}, "thorough": {"examples": 16000, "shards": 16}},
        "nontrivial": "an executed schedule with at least one gate / measurement process between state and povm, or a referenced None placeholder",
        "min_nontrivial": 50,
    },
}
