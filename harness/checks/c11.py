"""C11 - Loss minimisation attains the constrained optimum."""
import itertools
import math

import numpy as np
from hypothesis import strategies as st

from harness import build, gen, tomo
from harness import refmodel as rm
from harness.checks import c10

RULE = (
    "Problems: tomography type (QST/POVMT/QPT on 1q, QST on a qutrit) x parametrisation flag x IC tester set conjugated by a drawn "
    "unitary x data (exact; shot-noise-perturbed at n=10..1e5; few-shot counts) x loss (squared error / relative entropy, generic "
    "and fast) x stopping mode.  Oracle: the loss is re-evaluated by an independent numpy formula on refmodel Born probabilities "
    "(not quara's loss) for the estimate and for competitors: the truth, drawn physical objects, convex combinations towards "
    "them, the projected linear estimate and an independent CVXPY+SCS solve posed on matrix variables; plus the first-order "
    "condition with an independent gradient, agreement between backtracking and the CVXPY-backed estimator, and monotonicity / "
    "feasibility along the backtracking history.  Non-trivial = data are not exactly model-consistent (so the optimum is not the "
    "truth) or the optimum lies on the boundary of the physical set."
)
ASSUMPTIONS = [
    "loss tolerance tol_L = 2e-6*(1+L) and variable tolerance 2e-3 for strictly convex (squared-error, IC) problems: calibrated on the unchanged tree, largest observed ratios are in evidence",
    "cases where the estimate predicts p < 1e-6 for an outcome with q > 0 are inside quara's documented clipping region and are counted inconclusive for relative entropy",
    "runs that reach max_iteration_optimization are inconclusive",
]
TECHNIQUE = "property-based testing (Hypothesis): generated estimation problems; optimality judged by an independent loss/gradient model against generated feasible competitors, convex-combination probes and an independent SDP solve; differential agreement between two estimators; history invariants"
LEVEL_TEXT = (
    "Generated-input search over data and configurations; optimality - which a physical, plausible-looking estimate does not "
    "reveal - is decided by comparing an independently computed loss at the estimate with generated physical competitors, "
    "line probes towards them (a failed probe is a descent direction), the projected linear estimate and an independent "
    "convex solve, and by the variational first-order condition.  Not a proof of optimality: competitors are sampled and the "
    "independent solver has its own accuracy."
)
LEVEL_NOTE = (
    "Trusted: numpy, harness/refmodel.py + harness/tomo.py (Born-rule forward model), SCS at eps=1e-9 for the independent solve.  "
    "Tolerances calibrated on the unchanged tree; iteration-cap hits are inconclusive."
)

TOL_L = 2e-6
TOL_VAR = 2e-3


# ----------------------------------------------------------------------------- independent forward model / loss
def forward_matrix(kind, info):
    """A_ref with probabilities (all schedules concatenated) = A_ref @ stacked_vector; block sizes returned too."""
    basis = info["basis"]
    d, m = info["d"], info["m"]
    n = d * d
    sv = [np.real(rm.vec(basis, r)) for r in info["states"]]
    pv = [[np.real(rm.vec(basis, e)) for e in p] for p in info["povms"]]
    rows, sizes = [], []
    if kind == "qst":
        for p in pv:
            rows.extend(p)
            sizes.append(len(p))
    elif kind == "povmt":
        for s in sv:
            for x in range(m):
                r = np.zeros(n * m)
                r[x * n:(x + 1) * n] = s
                rows.append(r)
            sizes.append(m)
    elif kind == "qpt":
        for s, p in itertools.product(sv, pv):
            for e in p:
                rows.append(np.outer(e, s).reshape(-1))
            sizes.append(len(p))
    else:
        for s, p in itertools.product(sv, pv):
            for x in range(m):
                for e in p:
                    r = np.zeros(n * n * m)
                    r[x * n * n:(x + 1) * n * n] = np.outer(e, s).reshape(-1)
                    rows.append(r)
            sizes.append(m * len(p))
    return np.array(rows), sizes


def split(vec_, sizes):
    out, i = [], 0
    for s in sizes:
        out.append(vec_[i:i + s])
        i += s
    return out


def loss_ref(name, p, q, weights=None):
    """independent loss: sum_j w_j * l(p_j, q_j)."""
    tot = 0.0
    for j, (pj, qj) in enumerate(zip(p, q)):
        w = 1.0 if weights is None else weights[j]
        if name.startswith("se"):
            tot += w * float(np.sum((pj - qj) ** 2))
        else:
            mask = qj > 0
            if np.any(pj[mask] <= 0):
                return float("inf")
            tot += w * float(np.sum(qj[mask] * np.log(qj[mask] / pj[mask])))
    return tot


def grad_ref(name, a, sizes, z, q, weights=None):
    p = split(a @ z, sizes)
    g = []
    for j, (pj, qj) in enumerate(zip(p, q)):
        w = 1.0 if weights is None else weights[j]
        if name.startswith("se"):
            g.append(w * 2 * (pj - qj))
        else:
            gj = np.zeros_like(pj)
            mask = qj > 0
            gj[mask] = -qj[mask] / pj[mask]
            g.append(w * gj)
    return a.T @ np.concatenate(g)


def independent_solve(name, t, info, a, sizes, q, weights=None):
    """the same constrained problem posed directly on the stacked vector with matrix-level constraints (CVXPY + SCS)."""
    import cvxpy as cp

    basis = info["basis"]
    d, m = info["d"], info["m"]
    n = d * d
    nz = a.shape[1]
    v = cp.Variable(nz)
    cons = []
    bmat = np.array([b.reshape(-1) for b in basis]).T  # (d*d) x n : vec(rho) = bmat @ coeffs
    if t in ("state", "povm"):
        mm = 1 if t == "state" else m
        for i in range(mm):
            mat = cp.reshape(bmat @ v[i * n:(i + 1) * n], (d, d), order="C")
            cons.append(mat >> 0)
        if t == "state":
            cons.append(v[0] == 1 / math.sqrt(d))
        else:
            tot = sum(v[i * n:(i + 1) * n] for i in range(mm))
            e0 = np.zeros(n)
            e0[0] = math.sqrt(d)
            cons.append(tot == e0)
    else:
        mm = 1 if t == "gate" else m
        tm = rm.choi_transform(basis)
        for i in range(mm):
            ch = cp.reshape(tm @ v[i * n * n:(i + 1) * n * n], (n, n), order="C")
            cons.append(ch >> 0)
        tot = sum(v[i * n * n:i * n * n + n] for i in range(mm))
        e0 = np.zeros(n)
        e0[0] = 1
        cons.append(tot == e0)
    p = a @ v
    qq = np.concatenate(q)
    w = np.concatenate([np.full(s, 1.0 if weights is None else weights[j]) for j, s in enumerate(sizes)])
    if name.startswith("se"):
        obj = cp.sum(cp.multiply(w, cp.square(p - qq)))
    else:
        mask = qq > 0
        obj = -cp.sum(cp.multiply(w[mask] * qq[mask], cp.log(p[mask])))
    prob = cp.Problem(cp.Minimize(obj), cons)
    prob.solve(solver=cp.SCS, eps=1e-9, max_iters=100000)
    if prob.status != "optimal" or v.value is None:
        return None
    return np.asarray(v.value, dtype=float)


# ----------------------------------------------------------------------------- strategies
def _nsched_nout(kind, d, m, case=None):
    return c10._nsched_nout(kind, d, m, case)


@st.composite
def data_desc(draw, ns, no):
    kind = draw(st.sampled_from(["exact", "noisy", "noisy", "fewshot"]))
    dd = {"data": kind}
    if kind == "noisy":
        dd["n"] = draw(st.sampled_from([10, 100, 1000, 10 ** 4, 10 ** 5]))
        dd["raw"] = draw(st.lists(gen.raw(no), min_size=ns, max_size=ns))
    elif kind == "fewshot":
        n = draw(st.integers(10, 40))
        dd["n"] = n
        dd["draws"] = draw(st.lists(st.lists(st.integers(0, 10 ** 6), min_size=n, max_size=n), min_size=ns, max_size=ns))
    else:
        dd["n"] = 1000
    return dd


def make_data(dd, exact):
    if dd["data"] in ("exact", "fewshot"):
        return tomo.make_empi(dd, exact)
    out = []
    for j, p in enumerate(exact):
        p = np.clip(np.asarray(p, dtype=float), 0, None)
        p = p / p.sum()
        r = np.asarray(dd["raw"][j][: len(p)], dtype=float)
        qv = np.clip(p + r * np.sqrt(np.maximum(p * (1 - p), 1e-4) / dd["n"]) * 2.0, 0, None)
        out.append((dd["n"], qv / qv.sum()))
    return out


@st.composite
def opt_case(draw, tier, cvx=False):
    kinds = ("qst", "qst", "povmt", "qpt") if tier == "quick" else ("qst", "qst", "povmt", "povmt", "qpt")
    kind = draw(st.sampled_from(kinds))
    shapes = ("1q", "1q", "qutrit") if kind == "qst" else ("1q",)
    c = draw(tomo.tomo_case((kind,), shapes, (2, 3)))
    if cvx:
        c["flag"] = True  # documented requirement of the CVXPY-backed estimator
    d = gen.dim_of(c["shape"])
    ns, no = _nsched_nout(kind, d, c["true"].get("m"), c)
    c["datadesc"] = draw(data_desc(ns, no))
    c["order"] = "eq_ineq"
    c["algo"] = "backtracking"
    c["loss"] = draw(st.sampled_from(c10.LOSSES))
    c["stop_mode"] = draw(st.sampled_from([
        "single_difference_loss", "sum_absolute_difference_loss",
        "sum_absolute_difference_variable", "sum_absolute_difference_projected_gradient"]))
    c["num_history"] = draw(st.integers(1, 2))
    if c["stop_mode"] in ("sum_absolute_difference_variable", "sum_absolute_difference_projected_gradient"):
        c["algo_eps"] = draw(st.sampled_from([1e-5, 1e-6]))
    c["constraints"] = [True, True]
    c["prior_use"] = draw(st.sampled_from(c10.PRIOR_USES))
    c["max_iter"] = 500 if tier == "quick" else 3000
    t = tomo.true_type(kind)
    comps = []
    for _ in range(2):
        if t == "state":
            comps.append(draw(gen.state_case((c["shape"],))))
        elif t == "povm":
            k = draw(gen.povm_case((c["shape"],), (c["true"]["m"], c["true"]["m"])))
            comps.append(k)
        else:
            comps.append(draw(gen.gate_case((c["shape"],), max_rank=3)))
    c["competitors"] = comps
    if cvx:
        c["cvx_loss"] = draw(st.sampled_from(["use", "re", "are"]))
        # the algorithm object may have solved another problem before (other constraint mode / other data)
        c["cvx_warm"] = draw(st.sampled_from([None, None, "unconstraint", "physical"]))
        # ... and the loss object may have been set up for another tomography (other testers, same sizes) before
        c["cvx_loss_warm"] = draw(st.booleans())
    return c


# ----------------------------------------------------------------------------- checks
def _setup(case):
    qt, c_sys, info = tomo.build_tomo(case)
    t = tomo.true_type(case["tomo"])
    exact = tomo.exact_dists(case, info)
    empi = make_data(case["datadesc"], exact)
    a, sizes = forward_matrix(case["tomo"], info)
    q = [np.asarray(e[1], dtype=float) for e in empi]
    return qt, c_sys, info, t, exact, empi, a, sizes, q


def _competitors(case, info, t, z_est, qt, empi):
    from quara.protocol.qtomography.standard.projected_linear_estimator import ProjectedLinearEstimator

    basis = info["basis"]
    out = [("truth", tomo.stacked_true(case, info))]
    for i, k in enumerate(case["competitors"]):
        out.append((f"drawn{i}", gen.stacked_reference(k, basis)))
    pl = ProjectedLinearEstimator().calc_estimate(qt, empi).estimated_qoperation
    out.append(("projected_linear", tomo.estimate_stacked(pl)))
    probes = []
    for name, z in out:
        if z.shape != z_est.shape:
            continue
        for tt in (0.3, 0.03, 1e-3):
            probes.append((f"{name}@t={tt}", z_est + tt * (z - z_est)))
    return [(n_, z) for n_, z in out if z.shape == z_est.shape] + probes


def _optimality(ctx, case, info, t, a, sizes, q, z_est, comps, tag, weights=None):
    name = case["loss"] if tag.endswith("backtracking") else {"use": "se", "re": "re", "are": "se"}[case["cvx_loss"]]
    p_est = split(a @ z_est, sizes)
    if name.startswith("re"):
        bad = any(np.any((qj > 0) & (pj < 1e-6)) for pj, qj in zip(p_est, q))
        if bad:
            ctx.skip("estimate-in-clipping-region")
            return None
    l_est = loss_ref(name, p_est, q, weights)
    tol = max(TOL_L, 10.0 * (case.get("algo_eps") or 0.0)) * (1 + abs(l_est))
    for cname, z in comps:
        pz = split(a @ z, sizes)
        if name.startswith("re") and any(np.any((qj > 0) & (pj < 1e-6)) for pj, qj in zip(pz, q)):
            continue
        lz = loss_ref(name, pz, q, weights)
        ctx.leq(l_est, lz, tol, f"{tag}:no_better_competitor", f"competitor={cname} loss={name}")
    g = grad_ref(name, a, sizes, z_est, q, weights)
    for cname, z in comps:
        if "@" in cname:
            continue
        ctx.leq(-float(np.dot(g, z - z_est)), 0.0, 5e-4 * (1 + np.linalg.norm(g)) * (1 + np.linalg.norm(z - z_est)) * 1e-1,
                f"{tag}:first_order_condition", f"competitor={cname}")
    return l_est


def check_optimality(case, ctx):
    qt, c_sys, info, t, exact, empi, a, sizes, q = _setup(case)
    ctx.label(case["tomo"], case["shape"], f"flag:{case['flag']}", case["loss"], "data:" + case["datadesc"]["data"], case["stop_mode"])
    res, loss = c10.run_lossmin(case, qt, empi)
    det = res.detailed_results[0]
    # the loss that was minimised is the loss of exactly the data handed to the estimator
    held = getattr(loss, "prob_dists_q", None)
    if ctx.check(held is not None and len(held) == len(empi), "loss_holds_the_given_data:len", f"{None if held is None else len(held)}"):
        for j, (hq, (_, qj)) in enumerate(zip(held, empi)):
            ctx.equal(np.asarray(hq, dtype=float).reshape(-1), np.asarray(qj, dtype=float).reshape(-1), "loss_holds_the_given_data", f"schedule {j}")
    if det.k >= case["max_iter"] or c10.proj_cap_hit(ctx):
        ctx.skip("max-iteration")
        return
    z_est = tomo.estimate_stacked(res.estimated_qoperation)
    comps = _competitors(case, info, t, z_est, qt, empi)
    # failures of a run that shows the stall signature are named "stalled:backtracking:..." (known finding C11-F2 covers
    # only those); a run that converged to a non-optimal point is reported under the plain name
    bt = "stalled:backtracking" if c10.line_search_stalled(det, mild=True) else "backtracking"
    if bt != "backtracking":
        ctx.label("line-search-stalled")
    l_est = _optimality(ctx, case, info, t, a, sizes, q, z_est, comps, bt)
    if l_est is None:
        return
    # independent solve of the same problem
    z_ind = independent_solve(case["loss"], t, info, a, sizes, q)
    if z_ind is None:
        ctx.label("independent-solve-failed")
    else:
        # make the independent point exactly feasible before using it as a competitor
        z_feas, cert = rm.dykstra_reference(t, z_ind, info["basis"], info["d"], info["m"])
        if np.linalg.norm(z_feas - z_ind) < 1e-5:
            pz = split(a @ z_feas, sizes)
            if not (case["loss"].startswith("re") and any(np.any((qj > 0) & (pj < 1e-6)) for pj, qj in zip(pz, q))):
                l_ind = loss_ref(case["loss"], pz, q)
                ctx.leq(l_est, l_ind, max(TOL_L, 10.0 * (case.get("algo_eps") or 0.0)) * (1 + abs(l_est)), bt + ":not_worse_than_independent_solve")
                if case["loss"].startswith("se"):
                    ctx.close(z_est, z_feas, TOL_VAR * (1 + np.linalg.norm(z_est)), bt + ":agrees_with_independent_minimiser")
    # history: monotone loss, consistent lengths, fx[i] = L(x[i]) (quara's own value), independent loss monotone as well
    fx = [float(v) for v in det.fx]
    ctx.check(len(det.x) == len(fx) == det.k + 1 and len(det.y) == det.k and len(det.alpha) == det.k and len(det.error_values) == det.k,
              "history_lengths", f"k={det.k} x={len(det.x)} fx={len(fx)} y={len(det.y)} alpha={len(det.alpha)} err={len(det.error_values)}")
    for i in range(1, len(fx)):
        ctx.leq(fx[i], fx[i - 1], 1e-12 * (1 + abs(fx[i - 1])), "loss_never_increases")
    idxs = sorted(set([0, 1, len(fx) // 2, len(fx) - 1]))
    prev = None
    for i in idxs:
        ctx.close(float(loss.value(np.asarray(det.x[i]))), fx[i], 1e-12 * (1 + abs(fx[i])), "fx_is_loss_at_x")
        zi = np.asarray(res.estimated_qoperation.convert_var_to_stacked_vector(c_sys, np.asarray(det.x[i]), on_para_eq_constraint=case["flag"]), dtype=float)
        li = loss_ref(case["loss"], split(a @ zi, sizes), q)
        if prev is not None and np.isfinite(li) and np.isfinite(prev):
            ctx.leq(li, prev, 1e-9 * (1 + abs(prev)), "independent_loss_decreases_along_history")
        prev = li
    data_inconsistent = case["datadesc"]["data"] != "exact"
    from harness.checks.c01 import defects

    on_boundary = defects(t, info["basis"], z_est, info["m"])[3] < 1e-7 and defects(t, info["basis"], z_est + 0, info["m"])[4]
    ctx.nontrivial(data_inconsistent or on_boundary)
    if on_boundary:
        ctx.label("optimum-on-boundary")


def check_cvxpy(case, ctx):
    from quara.interface.cvxpy.qtomography.standard.estimator import CvxpyLossMinimizationEstimator
    from quara.interface.cvxpy.qtomography.standard.loss_function import (
        CvxpyApproximateRelativeEntropyWithZeroProbabilityTerm,
        CvxpyLossFunctionOption,
        CvxpyRelativeEntropy,
        CvxpyUniformSquaredError,
    )
    from quara.interface.cvxpy.qtomography.standard.minimization_algorithm import (
        CvxpyMinimizationAlgorithm,
        CvxpyMinimizationAlgorithmOption,
    )

    qt, c_sys, info, t, exact, empi, a, sizes, q = _setup(case)
    ctx.label(case["tomo"], case["shape"], "cvx:" + case["cvx_loss"], "data:" + case["datadesc"]["data"])
    loss = {"use": CvxpyUniformSquaredError, "re": CvxpyRelativeEntropy,
            "are": CvxpyApproximateRelativeEntropyWithZeroProbabilityTerm}[case["cvx_loss"]]()
    import warnings

    algo = CvxpyMinimizationAlgorithm()
    if case.get("cvx_loss_warm"):
        alt = dict(case)
        alt["raw_u"] = [0.37 - 0.91 * v for v in case["raw_u"]][::-1]
        try:
            qt_alt, _, info_alt = tomo.build_tomo(alt)
            with warnings.catch_warnings():
                warnings.simplefilter("ignore")
                CvxpyLossMinimizationEstimator().calc_estimate(
                    qt_alt, tomo.make_empi({"data": "exact", "n": 100}, tomo.exact_dists(alt, info_alt)), loss, CvxpyLossFunctionOption(),
                    CvxpyMinimizationAlgorithm(), CvxpyMinimizationAlgorithmOption(name_solver="scs", eps_tol=1e-6))
            ctx.label("loss_used_before:other_tomography")
        except Exception as e:  # the warm-up itself is not under test
            ctx.label("loss_warmup_failed:" + type(e).__name__)
            loss = type(loss)()
    if case.get("cvx_warm"):
        ctx.label("algo_used_before:" + case["cvx_warm"])
        with warnings.catch_warnings():
            warnings.simplefilter("ignore")
            try:
                CvxpyLossMinimizationEstimator().calc_estimate(
                    qt, tomo.make_empi({"data": "exact", "n": 100}, exact), CvxpyUniformSquaredError(), CvxpyLossFunctionOption(), algo,
                    CvxpyMinimizationAlgorithmOption(name_solver="scs", mode_constraint=case["cvx_warm"], eps_tol=1e-6))
            except Exception as e:  # the warm-up itself is not under test
                ctx.label("warmup_failed:" + type(e).__name__)
                algo = CvxpyMinimizationAlgorithm()
    with warnings.catch_warnings(record=True) as caught:
        warnings.simplefilter("always")
        res = CvxpyLossMinimizationEstimator().calc_estimate(
            qt, empi, loss, CvxpyLossFunctionOption(), algo,
            CvxpyMinimizationAlgorithmOption(name_solver="scs", eps_tol=1e-9))
    if any("inaccurate" in str(w.message).lower() for w in caught):
        # SCS stopped at its iteration limit ("Solution may be inaccurate"): the solver did not reach its stopping
        # accuracy, so nothing can be concluded about the estimate "up to the stopping accuracy"
        ctx.skip("scs-inaccurate")
        return
    z = tomo.estimate_stacked(res.estimated_qoperation)
    ctx.check(np.all(np.isfinite(z)), "cvxpy_estimate_finite")
    scale = 1 + float(np.linalg.norm(z))
    # physical to solver accuracy
    ctx.leq(rm.eq_defect_stacked(t, z, info["d"], info["m"]), 0.0, 1e-5 * scale, "cvxpy:eq_feasible")
    ctx.leq(rm.ineq_defect_stacked(t, z, info["basis"], info["d"], info["m"]), 0.0, 1e-5 * scale, "cvxpy:ineq_feasible")
    if case["cvx_loss"] == "are":
        # approximate relative entropy: sum_j c_j sum_x ( (p-q)^2/(2q) if q>eps else p ) -- own formula
        def l_are(zz):
            tot = 0.0
            for pj, qj in zip(split(a @ zz, sizes), q):
                mask = qj > 1e-12
                tot += float(np.sum(0.5 * (pj[mask] - qj[mask]) ** 2 / qj[mask]) + np.sum(pj[~mask]))
            return tot / len(sizes)
        z_feas, _ = rm.dykstra_reference(t, z, info["basis"], info["d"], info["m"])
        l_est = l_are(z_feas)
        for cname, zc in _competitors(case, info, t, z_feas, qt, empi):
            ctx.leq(l_est, l_are(zc), 1e-5 * (1 + abs(l_est)), "cvxpy_are:no_better_competitor", cname)
        ctx.nontrivial(case["datadesc"]["data"] != "exact")
        return
    case = dict(case)
    case["loss"] = "se" if case["cvx_loss"] == "use" else "re"
    z_feas, _ = rm.dykstra_reference(t, z, info["basis"], info["d"], info["m"])
    comps = _competitors(case, info, t, z_feas, qt, empi)
    # SCS-level accuracy for the CVXPY-backed estimator
    name = case["loss"]
    p_est = split(a @ z_feas, sizes)
    if name == "re" and any(np.any((qj > 0) & (pj < 1e-6)) for pj, qj in zip(p_est, q)):
        ctx.skip("estimate-in-clipping-region")
        return
    l_est = loss_ref(name, p_est, q)
    for cname, zc in comps:
        pz = split(a @ zc, sizes)
        if name == "re" and any(np.any((qj > 0) & (pj < 1e-6)) for pj, qj in zip(pz, q)):
            continue
        ctx.leq(l_est, loss_ref(name, pz, q), 2e-5 * (1 + abs(l_est)), "cvxpy:no_better_competitor", cname)
    # agreement with backtracking (equal shot counts per schedule in every generated dataset)
    bres, _ = c10.run_lossmin(case, qt, empi)
    if bres.detailed_results[0].k >= case["max_iter"] or c10.proj_cap_hit(ctx):
        ctx.skip("max-iteration")
    else:
        zb = tomo.estimate_stacked(bres.estimated_qoperation)
        pb = split(a @ zb, sizes)
        if not (name == "re" and any(np.any((qj > 0) & (pj < 1e-6)) for pj, qj in zip(pb, q))):
            lb = loss_ref(name, pb, q)
            pre = "stalled:" if c10.line_search_stalled(bres.detailed_results[0]) else ""
            ctx.close(l_est, lb, 2e-5 * (1 + abs(lb)), pre + "estimators_agree_in_loss")
            if name == "se":
                ctx.close(z_feas, zb, TOL_VAR * scale, pre + "estimators_agree_in_variables")
    ctx.nontrivial(case["datadesc"]["data"] != "exact")


def kf_relative_entropy_loss(case):
    """C11-F1 (= C10-F1): only relative-entropy losses have unbounded gradients."""
    return case.get("loss") in ("re", "re_fast") or case.get("cvx_loss") == "re"


def kf_constrained_param_nonisometric(case):
    """C11-F2: constrained parametrisation of POVM / measurement-process unknowns (implied last element / row):
    the variable -> stacked map is not an isometry, so the projection metric and the gradient metric differ."""
    return bool(case.get("flag")) and case.get("tomo") in ("povmt", "qmpt")


def opt_case_cvx(tier):
    return opt_case(tier, cvx=True)


FACETS = {
    "optimality": {
        "strategy": opt_case,
        "check": check_optimality,
        "budget": {"quick": {"examples": 112, "shards": 16}, "thorough": {"examples": 2400, "shards": 16}},
        "nontrivial": "data not exactly model-consistent, or optimum on the boundary of the physical set",
        "min_nontrivial": 20,
    },
    "cvxpy_estimator": {
        "strategy": opt_case_cvx,
        "check": check_cvxpy,
        "budget": {"quick": {"examples": 64, "shards": 16}, "thorough": {"examples": 800, "shards": 16}},
        "nontrivial": "data not exactly model-consistent",
        "min_nontrivial": 8,
    },
}
