"""C02 - All representations of one object denote the same operator.

Every conversion is compared with a *definition-level* numpy model (harness/refmodel.py conventions):

  vec_B(M)_a      = Tr(B_a^dagger M)                      (B orthonormal)
  Phi_hs(M)       = sum_a (hs @ vec_B(M))_a B_a
  Choi C of Phi   : C[(i,k),(j,l)] = <i| Phi(|k><l|) |j>   (= sum_K |K>><<K|, row-major vec)
  map of a Choi C : Phi_C(M)[i,j] = sum_kl C[(i,k),(j,l)] M[k,l]
  process matrix  : Phi(rho) = sum_ab chi_ab E_a rho E_b^dagger over the row-major computational basis
  HS in basis T   : HS_ab = Tr(T_a^dagger Phi(T_b))

None of these uses quara's own formula (sum_ab HS_ab B_a (x) conj B_b), so index transpositions, missing conjugates
and row/column-major mix-ups in quara show up as O(1) differences.
"""
import math
import os

import numpy as np
from hypothesis import strategies as st

from harness import build, gen, reps
from harness import refmodel as rm

RULE = (
    "Configurations = system shape (1q, qutrit, 2q; 2x3 in the thorough tier) x orthonormal Hermitian matrix basis (quara's "
    "normalised Pauli/Gell-Mann, quara's normalised Hermitian E_ij basis that does not start with the identity, and "
    "real-orthogonal rotations of the Pauli/Gell-Mann basis, separately per subsystem, keeping or not keeping B_0) x "
    "computational-basis order (row/column major).  basis_sweep enumerates, per configuration and linear conversion, a "
    "complete basis of the input space (unit coefficient vectors, unit HS matrices, Hermitian and non-Hermitian unit "
    "matrices) and compares every implementation with the definition-level numpy model.  The other facets draw the "
    "configuration (incl. the rotation) and real parameter arrays with Hypothesis: linear combinations (linearity), "
    "physical and perturbed non-physical objects of all four types (impl_agreement, round_trip), Stinespring CP maps of "
    "every Kraus rank incl. unitary/identity/depolarising (degenerate Choi spectrum) and CP maps with a negative Choi "
    "eigen-direction of drawn size (kraus, process_matrix), and arrays with sub-/super-threshold real and imaginary parts "
    "(truncate_hs).  Non-trivial = the operator has a non-zero imaginary or antisymmetric component in the computational "
    "basis, or the configuration is a rotated / non-identity-first basis or column-major."
)
ASSUMPTIONS = [
    "conventions of harness/refmodel.py: vec_a = Tr(B_a^dagger M); Choi = sum |K>><<K| with row-major vec (trace d); "
    "process matrix over the row-major computational basis; composite basis = Kronecker product in ascending subsystem name",
    "inverse conversions (matrix -> vec, Choi -> HS) are exercised on Hermitian inputs; on inputs whose coefficients have an "
    "imaginary part >= 10*eps the documented ValueError of truncate_hs is the expected result",
    "entries below the truncation threshold eps (default Settings atol = 1e-13) may be zeroed by truncate_hs: comparisons that "
    "pass through it carry an additive slack of a few eps",
]
TECHNIQUE = (
    "exhaustive basis sweep of every linear conversion per configuration + property-based testing (Hypothesis) of linearity, "
    "implementation agreement, round trips, Kraus/process-matrix action and truncate_hs against a definition-level numpy model"
)
LEVEL_TEXT = (
    "Per enumerated configuration the linear conversions are decided for all inputs (equality of two linear maps on a complete "
    "basis of the input space plus a linearity check on generated combinations); over configurations (random rotated bases) and "
    "for the non-linear conversions (Kraus, truncation) it is a generated-input search that reaches complex, non-symmetric, "
    "rank-deficient and non-physical objects the upstream Pauli-diagonal examples never touch.  It cannot prove absence of "
    "defects for bases or shapes outside the explored ones."
)
LEVEL_NOTE = (
    "Trusted: numpy LAPACK, harness/refmodel.py and the definition-level helpers in this module (pure numpy, no quara import); "
    "quara's MatrixBasis / CompositeSystem constructors are trusted only to store the basis handed to them, which is re-checked "
    "against the Kronecker product computed by the model in every case (oracle composite_basis)."
)

NO_RESIDUAL_PREFIXES = ("to_var_from_choi",)  # C02-F2
EPS = 1e-13  # default truncation threshold (Settings atol, reset before every case)
MODES = ("row_major", "column_major")
_REPO = os.path.realpath(os.environ.get("VERIF_REPO", "/repo"))


# ============================================================================= small pure-numpy helpers
def _q(raw):
    """quantise to multiples of 2^-24 (keeps LAPACK away from subnormals on shrunk inputs)."""
    return np.round(np.asarray(raw, dtype=float) * 2.0 ** 24) / 2.0 ** 24


def orth_from_raw(raw, n):
    """real orthogonal n x n matrix, total on every draw (QR with sign fix)."""
    a = _q(raw)
    if a.size < n * n:
        a = np.concatenate([a, np.zeros(n * n - a.size)])
    a = a[: n * n].reshape(n, n) + np.eye(n) * 1e-3
    q, r = np.linalg.qr(a)
    s = np.sign(np.diag(r))
    s = np.where(s == 0, 1.0, s)
    return q * s


def herm_from_raw(raw, n):
    """Hermitian n x n matrix with n^2 independent real parameters: S + iK."""
    a = _q(raw)
    if a.size < n * n:
        a = np.concatenate([a, np.zeros(n * n - a.size)])
    a = a[: n * n].reshape(n, n)
    return (a + a.T) / 2 + 1j * (a - a.T) / 2


def herm_unit(n, k):
    """k-th element (0 <= k < n^2) of the Hermitian unit basis of n x n matrices."""
    r, c = divmod(k, n)
    m = np.zeros((n, n), dtype=complex)
    if r == c:
        m[r, r] = 1
    elif r < c:
        m[r, c] = m[c, r] = 1 / math.sqrt(2)
    else:
        m[r, c] = 1j / math.sqrt(2)
        m[c, r] = -1j / math.sqrt(2)
    return m


def unit_matrix(n, k, factor=1.0):
    m = np.zeros((n, n), dtype=complex)
    m[divmod(k, n)] = factor
    return m


def vec_ref(B, m):
    return np.einsum("aij,ij->a", B.conj(), m)


def unvec_ref(B, v):
    return np.einsum("a,aij->ij", np.asarray(v, dtype=complex), B)


def apply_hs_ref(B, hs, m):
    return unvec_ref(B, hs @ vec_ref(B, m))


def choi_of_map(fn, d):
    """C[(i,k),(j,l)] = fn(|k><l|)[i,j]."""
    c = np.zeros((d, d, d, d), dtype=complex)
    for k in range(d):
        for l in range(d):
            e = np.zeros((d, d), dtype=complex)
            e[k, l] = 1
            c[:, k, :, l] = fn(e)
    return c.reshape(d * d, d * d)


def choi_ref(B, hs):
    d = B.shape[1]
    return choi_of_map(lambda m: apply_hs_ref(B, hs, m), d)


def map_of_choi(c, d):
    c4 = np.asarray(c, dtype=complex).reshape(d, d, d, d)
    return lambda m: np.einsum("ikjl,kl->ij", c4, m)


def hs_of_map(T, fn):
    """HS_ab = Tr(T_a^dagger fn(T_b)) for an orthonormal (possibly non-Hermitian) basis T."""
    n = T.shape[0]
    img = np.array([fn(T[b]) for b in range(n)])
    return np.einsum("aij,bij->ab", T.conj(), img)


def hs_from_choi_ref(B, c):
    return hs_of_map(B, map_of_choi(c, B.shape[1]))


def comp_arr(d, mode):
    return np.array(rm.comp_basis(d, mode))


def action_of_chi(chi, d, rho):
    """sum_ab chi_ab E_a rho E_b^dagger over the row-major computational basis (the defining relation)."""
    E = comp_arr(d, "row_major")
    return np.einsum("ab,aij,jk,blk->il", np.asarray(chi, dtype=complex), E, rho, E.conj())


def _quara_frame(tb):
    import traceback

    found = None
    for fs in traceback.extract_tb(tb):
        fn = os.path.realpath(fs.filename)
        if fn.startswith(_REPO + os.sep) and (os.sep + "quara" + os.sep) in fn:
            found = f"{os.path.relpath(fn, _REPO)}:{fs.name}"
    return found


def guard(ctx, oid, fn):
    """run a quara call; an exception with a quara frame is a failure of oracle `oid` (may be a known finding)."""
    try:
        return True, fn()
    except Exception as e:  # noqa
        qf = _quara_frame(e.__traceback__)
        if qf is None:
            raise
        ctx.n_oracles += 1
        ctx.fail(oid, f"exception {type(e).__name__}: {e} @ {qf}")
        return False, None


def arr(x):
    """dense complex array of whatever quara returned (None if not array-like / ragged)."""
    try:
        if hasattr(x, "toarray"):
            x = x.toarray()
        if isinstance(x, (list, tuple)):
            x = [np.asarray(v.toarray() if hasattr(v, "toarray") else v) for v in x]
        a = np.asarray(x)
        if a.dtype == object:
            return None
        return a.astype(complex)
    except Exception:
        return None


def cmp(ctx, oid, out, ref, tol, detail=""):
    a = arr(out)
    if a is None:
        ctx.n_oracles += 1
        return ctx.fail(oid, f"result is not an array: {type(out)} {detail}")
    r = np.asarray(ref, dtype=complex)
    if oid.startswith(NO_RESIDUAL_PREFIXES):
        # implementations with a recorded defect: same verdict, but their O(1) residuals are kept out of the evidence table
        ok = a.shape == r.shape and bool(np.all(np.isfinite(a))) and (a.size == 0 or float(np.max(np.abs(a - r))) <= tol)
        return ctx.check(ok, oid, lambda: f"differs from the model by more than tol={tol:.3e} (shape {a.shape} vs {r.shape}) {detail}")
    return ctx.close(a, r, tol, oid, detail)


# ============================================================================= configurations
def local_basis(d, kind, rot):
    base = rm.pauli_1q(True) if d == 2 else rm.gell_mann(True)
    if kind == "normal":
        return base
    if kind == "hermitian":
        return rm.hermitian_eij_basis(d, True)
    if kind == "rot_keep":
        return rm.rotate_basis(base, orth_from_raw(rot, d * d - 1), keep_first=True)
    if kind == "rot_free":
        return rm.rotate_basis(base, orth_from_raw(rot, d * d), keep_first=False)
    if kind == "comp":
        # the (non-Hermitian) matrix units E_ij, row-major: a composite system built on computational bases.  Only ever a
        # conversion TARGET (its CompositeSystem.basis() is a sparse basis, unlike the dense comp_basis(mode) objects)
        out = []
        for i in range(d):
            for j in range(d):
                e = np.zeros((d, d), dtype=complex)
                e[i, j] = 1.0
                out.append(e)
        return out
    raise ValueError(kind)


class Env:
    """one configuration: quara CompositeSystem + the model's copy of its basis."""

    def __init__(self, cfg, ctx=None, tag="cfg"):
        from quara.objects.composite_system import CompositeSystem
        from quara.objects.elemental_system import ElementalSystem
        from quara.objects.matrix_basis import MatrixBasis

        self.cfg = cfg
        self.shape = cfg["shape"]
        self.kind = cfg["kind"]
        self.mode = cfg.get("mode", "row_major")
        dims = gen.SHAPES[self.shape]
        rots = cfg.get("rot") or [None] * len(dims)
        self.locals = [local_basis(dd, self.kind, r) for dd, r in zip(dims, rots)]
        self.basis = rm.kron_bases(self.locals)
        self.B = np.array(self.basis)
        self.d = int(np.prod(dims))
        self.n = self.d * self.d
        # B_0 proportional to the identity in every subsystem?  (a drawn "free" rotation may keep it: decided from the matrices)
        dev = max(float(np.max(np.abs(loc[0] - np.trace(loc[0]) / loc[0].shape[0] * np.eye(loc[0].shape[0])))) for loc in self.locals)
        self.identity_first = dev <= 1e-12
        self.flag_decidable = dev <= 1e-12 or dev >= 1e-3  # quara's test uses numpy's default closeness
        # the equality-constrained variable forms hard-code the first coefficient (+1/sqrt(d), sum of POVM vecs = +sqrt(d) e_0):
        # they denote unit-trace / identity-sum objects only when B_0 = +I/sqrt(d) (a rotation may give -I/sqrt(d))
        self.identity_plus = self.identity_first and float(np.trace(self.basis[0]).real) > 0
        if self.kind in ("normal", "hermitian"):
            self.c_sys = build.c_sys_for(self.shape, kind=self.kind)  # quara's own getters
        else:
            self.c_sys = CompositeSystem(
                [ElementalSystem(i, MatrixBasis([np.array(b) for b in loc])) for i, loc in enumerate(self.locals)]
            )
        if ctx is not None:
            qb = np.array(build.quara_basis_matrices(self.c_sys))
            ctx.close(qb, self.B, 1e-14, f"composite_basis:{tag}")
            if self.flag_decidable:
                ctx.check(
                    bool(self.c_sys.is_orthonormal_hermitian_0thprop_identity) == self.identity_first,
                    f"basis_flag:{tag}",
                    f"kind {self.kind}",
                )
            elif self.c_sys.is_orthonormal_hermitian_0thprop_identity:
                self.identity_first = True

    def tol(self, scale=1.0, trunc=False):
        return rm.algebraic_tol(self.n, scale) + (4 * EPS * (1 + scale) if trunc else 0.0)

    def rotated(self):
        return self.kind != "normal"


def cfg_key(cfg):
    return f"{cfg['shape']}/{cfg['kind']}"


def fixed_rot(shape, kind, variant):
    """deterministic rotation parameters for enumerated configurations (no RNG: a fixed trigonometric pattern)."""
    out = []
    for s, dd in enumerate(gen.SHAPES[shape]):
        n = dd * dd - (1 if kind == "rot_keep" else 0)
        out.append([float(np.round(math.sin(1.7 * k + 0.9 * s + 2.3 * variant + 0.4) * 2 ** 20) / 2 ** 20) for k in range(n * n)])
    return out


def enum_configs(tier):
    cfgs = []
    shapes = ["1q", "qutrit", "2q"]
    for shape in shapes:
        for kind in ("normal", "hermitian", "rot_keep", "rot_free"):
            variants = [0] if tier == "quick" or not kind.startswith("rot") else [0, 1, 2]
            for v in variants:
                c = {"shape": shape, "kind": kind}
                if kind.startswith("rot"):
                    c["rot"] = fixed_rot(shape, kind, v)
                cfgs.append(c)
    if tier != "quick":
        # d^4 = 1296 unit HS matrices: the two sparse bases only (a rotated 36-element basis makes quara's dict tables ~1.7M entries)
        cfgs.append({"shape": "2x3", "kind": "normal"})
        cfgs.append({"shape": "2x3", "kind": "hermitian"})
    return cfgs


@st.composite
def cfg_st(draw, shapes, identity_first=False, kinds=None):
    shape = draw(st.sampled_from(list(shapes)))
    ks = list(kinds) if kinds else (["normal", "rot_keep"] if identity_first else ["normal", "hermitian", "rot_keep", "rot_free"])
    if shape == "2x3":
        ks = [k for k in ks if not k.startswith("rot")] or ["normal"]
    kind = draw(st.sampled_from(ks))
    cfg = {"shape": shape, "kind": kind, "mode": draw(st.sampled_from(list(MODES)))}
    if kind.startswith("rot"):
        cfg["rot"] = [draw(gen.raw((dd * dd - (1 if kind == "rot_keep" else 0)) ** 2)) for dd in gen.SHAPES[shape]]
    return cfg


def gen_shapes(tier, heavy=False):
    if tier == "quick":
        # (a qubit x qutrit system, 36 basis elements, also in the quick tier for the facets that can afford it: sizes
        # beyond 16 basis elements are where vectorised branches of the conversions would switch on)
        return ("1q", "1q", "qutrit", "2q") if heavy else ("1q", "1q", "1q", "qutrit", "qutrit", "2q", "2q", "2x3")
    return ("1q", "qutrit", "2q") if heavy else ("1q", "qutrit", "2q", "2x3")


# ============================================================================= conversion registry
# Every entry: input space, reference (pure numpy), implementations (name -> callable(env, x, aux) -> array-like).
# `trunc` marks conversions that pass through truncate_hs.  Implementation names are the prefix of the oracle id, so a
# known finding can address one implementation in every facet.

def _state(env, v):
    from quara.objects.state import State

    return State(env.c_sys, np.array(v, dtype=np.float64), is_physicality_required=False)


def _povm(env, vs):
    from quara.objects.povm import Povm

    return Povm(env.c_sys, [np.array(v, dtype=np.float64) for v in vs], is_physicality_required=False)


def _gate(env, hs):
    from quara.objects.gate import Gate

    return Gate(env.c_sys, np.array(hs, dtype=np.float64), is_physicality_required=False)


def _mproc(env, hs, shape=None):
    """two-outcome MProcess whose outcome 1 is `hs` (outcome 0 is a different matrix, to catch outcome mix-ups)."""
    from quara.objects.mprocess import MProcess

    other = np.array(hs, dtype=np.float64)[::-1, ::-1].copy() * 0.5 + 0.25
    return MProcess(env.c_sys, [other, np.array(hs, dtype=np.float64)], shape=shape, is_physicality_required=False)


def _target(env, aux):
    """(quara MatrixBasis, model array) of the conversion target named by aux."""
    from quara.objects.matrix_basis import MatrixBasis

    if aux["to"] in MODES:
        return env.c_sys.comp_basis(mode=aux["to"]), comp_arr(env.d, aux["to"])
    env2 = aux["env2"]
    if aux.get("dense"):
        return MatrixBasis([np.array(b) for b in env2.basis]), env2.B
    return env2.c_sys.basis(), env2.B


def impls_vec2dm(env, x, aux):
    from quara.objects import state as S

    s = _state(env, x)
    return {
        "State.to_density_matrix": lambda: s.to_density_matrix(),
        "State.to_density_matrix_with_sparsity": lambda: s.to_density_matrix_with_sparsity(),
        "to_density_matrix_from_vec": lambda: S.to_density_matrix_from_vec(env.c_sys, np.array(x, dtype=float)),
        "to_density_matrix_from_var[F]": lambda: S.to_density_matrix_from_var(env.c_sys, np.array(x, dtype=float), False),
    }


def impls_dm2vec(env, m, aux):
    from quara.objects import state as S

    return {
        "to_vec_from_density_matrix_with_sparsity": lambda: S.to_vec_from_density_matrix_with_sparsity(env.c_sys, reps.layout(m.copy())),
        "to_var_from_density_matrix[F]": lambda: S.to_var_from_density_matrix(env.c_sys, reps.layout(m.copy()), False),
        "to_var_from_density_matrix[T]": lambda: np.concatenate(
            [[np.nan], np.asarray(S.to_var_from_density_matrix(env.c_sys, reps.layout(m.copy()), True))]
        ),
    }


def impls_vecs2mats(env, x, aux):
    from quara.objects import povm as P

    n = env.n
    vs = [np.array(x[i * n : (i + 1) * n], dtype=float) for i in range(len(x) // n)]
    p = _povm(env, vs)
    m = len(vs)
    return {
        "Povm.matrices": lambda: p.matrices(),
        "Povm.matrices_with_sparsity": lambda: p.matrices_with_sparsity(),
        "Povm.matrix[int]": lambda: [p.matrix(i) for i in range(m)],
        "Povm.matrix[tuple]": lambda: [p.matrix((i,)) for i in range(m)],
        "Povm.matrix_with_sparsity[int]": lambda: [p.matrix_with_sparsity(i) for i in range(m)],
        "Povm.matrix_with_sparsity[tuple]": lambda: [p.matrix_with_sparsity((i,)) for i in range(m)],
        "to_matrices_from_vecs": lambda: P.to_matrices_from_vecs(env.c_sys, vs),
        "to_matrices_from_var[F]": lambda: P.to_matrices_from_var(env.c_sys, np.concatenate(vs), False),
    }


def impls_mats2vecs(env, ms, aux):
    from quara.objects import povm as P

    return {
        "to_vecs_from_matrices_with_sparsity": lambda: P.to_vecs_from_matrices_with_sparsity(env.c_sys, [reps.layout(m.copy()) for m in ms]),
        "to_vec_from_matrix_with_sparsity": lambda: [P.to_vec_from_matrix_with_sparsity(env.c_sys, reps.layout(m.copy())) for m in ms],
        "to_var_from_matrices[F]": lambda: np.asarray(P.to_var_from_matrices(env.c_sys, [reps.layout(m.copy()) for m in ms], False)).reshape(
            len(ms), -1
        ),
    }


def impls_hs2choi(env, hs, aux):
    from quara.objects import gate as G

    g = _gate(env, hs)
    out = {
        "to_choi_from_hs": lambda: G.to_choi_from_hs(env.c_sys, reps.layout(hs.copy())),
        "to_choi_from_hs_with_dict": lambda: G.to_choi_from_hs_with_dict(env.c_sys, reps.layout(hs.copy())),
        "to_choi_from_hs_with_sparsity": lambda: G.to_choi_from_hs_with_sparsity(env.c_sys, reps.layout(hs.copy())),
        "Gate.to_choi_matrix": lambda: g.to_choi_matrix(),
        "Gate.to_choi_matrix_with_dict": lambda: g.to_choi_matrix_with_dict(),
        "Gate.to_choi_matrix_with_sparsity": lambda: g.to_choi_matrix_with_sparsity(),
        "to_choi_from_var[F]": lambda: G.to_choi_from_var(env.c_sys, hs.flatten(), False),
    }
    if env.identity_first:
        mp = _mproc(env, hs)
        out["MProcess.to_choi_matrix"] = lambda: mp.to_choi_matrix(1)
        out["MProcess.to_choi_matrix_with_dict"] = lambda: mp.to_choi_matrix_with_dict((1,))
        out["MProcess.to_choi_matrix_with_sparsity"] = lambda: mp.to_choi_matrix_with_sparsity(1)
    return out


def impls_choi2hs(env, c, aux):
    from quara.objects import gate as G

    return {
        "to_hs_from_choi": lambda: G.to_hs_from_choi(env.c_sys, reps.layout(c.copy())),
        "to_hs_from_choi_with_dict": lambda: G.to_hs_from_choi_with_dict(env.c_sys, reps.layout(c.copy())),
        "to_hs_from_choi_with_sparsity": lambda: G.to_hs_from_choi_with_sparsity(env.c_sys, reps.layout(c.copy())),
        "to_var_from_choi[F]": lambda: np.asarray(G.to_var_from_choi(env.c_sys, reps.layout(c.copy()), False)).reshape(env.n, env.n),
    }


def impls_hs2proc(env, hs, aux):
    from quara.objects import gate as G

    g = _gate(env, hs)
    out = {
        "to_process_matrix_from_hs": lambda: G.to_process_matrix_from_hs(env.c_sys, reps.layout(hs.copy())),
        "Gate.to_process_matrix": lambda: g.to_process_matrix(),
    }
    if env.identity_first:
        mp = _mproc(env, hs)
        out["MProcess.to_process_matrix"] = lambda: mp.to_process_matrix((1,))
    return out


def impls_hs2basis(env, hs, aux):
    from quara.objects import gate as G

    T, _ = _target(env, aux)
    g = _gate(env, hs)
    out = {"convert_hs": lambda: G.convert_hs(hs.copy(), env.c_sys.basis(), T)}
    if aux["to"] in MODES:
        out["Gate.convert_to_comp_basis"] = lambda: g.convert_to_comp_basis(mode=aux["to"])
    else:
        out["Gate.convert_basis"] = lambda: g.convert_basis(T)
    if env.identity_first:
        mp = _mproc(env, hs)
        if aux["to"] in MODES:
            out["MProcess.convert_to_comp_basis"] = lambda: mp.convert_to_comp_basis(mode=aux["to"])[1]
        else:
            out["MProcess.convert_basis"] = lambda: mp.convert_basis(T)[1]
    return out


def impls_vec2basis(env, x, aux):
    from quara.objects.matrix_basis import convert_vec

    T, _ = _target(env, aux)
    s = _state(env, x)
    p = _povm(env, [np.asarray(x)[::-1].copy(), x])
    return {
        "convert_vec": lambda: convert_vec(np.array(x, dtype=float), env.c_sys.basis(), T),
        "State.convert_basis": lambda: s.convert_basis(T),
        "Povm.convert_basis": lambda: p.convert_basis(T)[1],
    }


def ref_vec2dm(env, x, aux):
    return unvec_ref(env.B, x)


def ref_dm2vec(env, m, aux):
    return vec_ref(env.B, m)


def ref_vecs2mats(env, x, aux):
    n = env.n
    return np.array([unvec_ref(env.B, x[i * n : (i + 1) * n]) for i in range(len(x) // n)])


def ref_mats2vecs(env, ms, aux):
    return np.array([vec_ref(env.B, m) for m in ms])


def ref_hs2choi(env, hs, aux):
    return choi_ref(env.B, hs)


def ref_choi2hs(env, c, aux):
    return hs_from_choi_ref(env.B, c)


def ref_hs2basis(env, hs, aux):
    _, Tarr = _target(env, aux)
    return hs_of_map(Tarr, lambda m: apply_hs_ref(env.B, hs, m))


def ref_vec2basis(env, x, aux):
    _, Tarr = _target(env, aux)
    return vec_ref(Tarr, unvec_ref(env.B, x))


CONV = {
    # name: (input space, impls, ref, passes through truncate_hs)
    "vec2dm": ("vec", impls_vec2dm, ref_vec2dm, False),
    "dm2vec": ("herm", impls_dm2vec, ref_dm2vec, True),
    "vecs2mats": ("vecs", impls_vecs2mats, ref_vecs2mats, False),
    "mats2vecs": ("herms", impls_mats2vecs, ref_mats2vecs, True),
    "hs2choi": ("hs", impls_hs2choi, ref_hs2choi, False),
    "choi2hs": ("herm2", impls_choi2hs, ref_choi2hs, True),
    "hs2proc": ("hs", impls_hs2proc, ref_hs2choi, False),  # chi[(i,k),(j,l)] = Phi(|k><l|)[i,j]: same array as the model Choi
    "hs2basis": ("hs", impls_hs2basis, ref_hs2basis, False),
    "vec2basis": ("vec", impls_vec2basis, ref_vec2basis, False),
}
N_POVM_SWEEP = 2


def input_dim(env, conv):
    sp = CONV[conv][0]
    return {"vec": env.n, "herm": env.n, "vecs": N_POVM_SWEEP * env.n, "herms": N_POVM_SWEEP * env.n, "hs": env.n ** 2,
            "herm2": env.n ** 2}[sp]


def input_from_params(env, conv, x):
    """real parameter vector -> the conversion's input object (real-linear parametrisation of the input space)."""
    sp = CONV[conv][0]
    x = np.asarray(x, dtype=float)
    if sp in ("vec", "vecs"):
        return x.copy()
    if sp == "hs":
        return x.reshape(env.n, env.n).copy()
    if sp == "herm":
        return sum(x[k] * herm_unit(env.d, k) for k in range(env.n))
    if sp == "herms":
        return [sum(x[i * env.n + k] * herm_unit(env.d, k) for k in range(env.n)) for i in range(N_POVM_SWEEP)]
    if sp == "herm2":
        a = x.reshape(env.n, env.n)
        # Hermitian unit basis of the d^2 x d^2 matrices, same ordering convention as herm_unit
        s2 = 1 / math.sqrt(2)
        up = np.triu(a, 1)
        lo = np.tril(a, -1)
        return np.diag(np.diag(a)).astype(complex) + s2 * (up + up.T) + 1j * s2 * (lo - lo.T)
    raise ValueError(sp)


def run_conv(ctx, env, conv, inp, aux, tag, scale=1.0, skip=()):
    """evaluate all implementations of `conv` on `inp`, compare each with the model; returns (ref, outputs)."""
    _, impls_fn, ref_fn, trunc = CONV[conv]
    ref = np.asarray(ref_fn(env, inp, aux))
    tol = env.tol(scale, trunc)
    outs = {}
    ok, impls = guard(ctx, f"construct:{conv}@{tag}", lambda: impls_fn(env, inp, aux))
    if not ok:
        return ref, outs
    for name, fn in impls.items():
        if name in skip:
            continue
        oid = f"{name}@{tag}:{conv}"
        ok, out = guard(ctx, oid, fn)
        if not ok:
            continue
        r = ref
        if name.endswith("[T]"):  # variable form under the equality constraint: first coefficient dropped
            out = arr(out)
            if out is not None and out.shape == r.shape:
                out = out.copy()
                out[0] = r[0]
        if trunc:
            # the model value must be (numerically) real for the conversion to be defined
            r = r.real
        cmp(ctx, oid, out, r, tol)
        outs[name] = arr(out)
    return ref, outs


def is_complex_structured(a, thr=1e-9):
    """non-zero imaginary or antisymmetric component (square matrices: last two axes)."""
    a = np.asarray(a)
    if np.max(np.abs(a.imag), initial=0.0) > thr:
        return True
    if a.ndim >= 2 and a.shape[-1] == a.shape[-2]:
        return bool(np.max(np.abs(a - np.swapaxes(a, -1, -2)), initial=0.0) > thr)
    return False


# ============================================================================= facet: basis_sweep (enumeration)
SWEEP_TARGETS = ("row_major", "column_major", "normal", "hermitian", "rot_free", "comp")
TARGET_KINDS = ("normal", "hermitian", "rot_keep", "rot_free", "comp")


def _target_aux(env, to, ctx=None):
    if to in MODES:
        return {"to": to}
    cfg2 = {"shape": env.shape, "kind": to}
    if to.startswith("rot"):
        cfg2["rot"] = fixed_rot(env.shape, to, 5)
    return {"to": to, "env2": Env(cfg2, ctx, "target"), "dense": to == "hermitian"}


def sweep_items(tier):
    items = []
    for cfg in enum_configs(tier):
        d = gen.dim_of(cfg["shape"])
        n = d * d
        big = n * n
        chunk = {2: 16, 3: 81, 4: 64, 6: 54}[d]
        for conv in ("vec2dm", "dm2vec", "vecs2mats", "mats2vecs"):
            items.append({"f": "sweep", "cfg": cfg, "conv": conv, "lo": 0, "hi": (N_POVM_SWEEP if "s2" in conv else 1) * n})
        for to in SWEEP_TARGETS:
            if to == cfg["kind"]:
                continue
            if cfg["shape"] == "2x3" and to.startswith("rot"):
                continue
            items.append({"f": "sweep", "cfg": cfg, "conv": "vec2basis", "to": to, "lo": 0, "hi": n})
            for lo in range(0, big, chunk * 2):
                items.append({"f": "sweep", "cfg": cfg, "conv": "hs2basis", "to": to, "lo": lo, "hi": min(big, lo + chunk * 2)})
        for lo in range(0, big, chunk):
            items.append({"f": "sweep", "cfg": cfg, "conv": "hs2choi", "lo": lo, "hi": min(big, lo + chunk)})
            items.append({"f": "sweep", "cfg": cfg, "conv": "hs2proc", "lo": lo, "hi": min(big, lo + chunk)})
            items.append({"f": "sweep", "cfg": cfg, "conv": "var2choi", "lo": lo, "hi": min(big, lo + chunk)})
        # Choi -> HS: Hermitian units [0,big), E_ij [big,2big), i*E_ij [2big,3big)
        for lo in range(0, 3 * big, chunk):
            items.append({"f": "sweep", "cfg": cfg, "conv": "choi2hs", "lo": lo, "hi": min(3 * big, lo + chunk)})
    return items


def check_sweep(case, ctx):
    from quara.objects import gate as G

    cfg = case["cfg"]
    conv = case["conv"]
    env = Env(cfg, ctx)
    ctx.label(cfg_key(cfg), "conv:" + conv)
    aux = _target_aux(env, case["to"], ctx) if "to" in case else {}
    if "to" in case:
        ctx.label("to:" + case["to"])
    nontriv = env.rotated() or case.get("to") == "column_major"
    n, big = env.n, env.n ** 2
    for k in range(case["lo"], case["hi"]):
        if conv == "var2choi":
            # affine map var -> Choi under the equality constraint: origin (k = 0 evaluates var = 0) and unit variables
            nvar = big - n
            if k > nvar:
                break
            var = np.zeros(nvar)
            if k > 0:
                var[k - 1] = 1.0
            hs = np.vstack([np.eye(1, n), var.reshape(n - 1, n)])
            ref = choi_ref(env.B, hs)
            oid = "to_choi_from_var[T]@sweep:var2choi"
            ok, out = guard(ctx, oid, lambda: G.to_choi_from_var(env.c_sys, var.copy(), True))
            if ok:
                cmp(ctx, oid, out, ref, env.tol())
            nontriv = nontriv or is_complex_structured(ref)
            continue
        if conv == "choi2hs" and k >= big:
            # non-Hermitian unit matrices: plain implementation documents nothing but takes the real part of the trace;
            # dict / sparsity go through truncate_hs: imaginary coefficients raise the documented ValueError
            c = unit_matrix(n, (k - big) % big, 1.0 if k < 2 * big else 1j)
            ref = hs_from_choi_ref(env.B, c)
            oid = "to_hs_from_choi@sweep:choi2hs_complex"
            ok, out = guard(ctx, oid, lambda: G.to_hs_from_choi(env.c_sys, c.copy()))
            if ok:
                cmp(ctx, oid, out, ref.real, env.tol())
            im = float(np.max(np.abs(ref.imag)))
            for name, fn in (("to_hs_from_choi_with_dict", G.to_hs_from_choi_with_dict),
                             ("to_hs_from_choi_with_sparsity", G.to_hs_from_choi_with_sparsity)):
                oid = f"{name}@sweep:choi2hs_complex"
                if im >= 10 * EPS:
                    ctx.raises((ValueError,), lambda: fn(env.c_sys, c.copy()), oid + ":raises")
                elif im <= EPS / 10:
                    ok, out = guard(ctx, oid, lambda: fn(env.c_sys, c.copy()))
                    if ok:
                        cmp(ctx, oid, out, ref.real, env.tol(1.0, True))
            nontriv = True
            continue
        x = np.zeros(input_dim(env, conv))
        x[k] = 1.0
        inp = input_from_params(env, conv, x)
        ref, _ = run_conv(ctx, env, conv, inp, aux, "sweep")
        if conv in ("dm2vec", "mats2vecs", "choi2hs"):
            nontriv = nontriv or is_complex_structured(np.array(inp))
            if conv == "choi2hs":
                # variables under the equality constraint: the first HS row is dropped
                oid = "to_var_from_choi[T]@sweep:choi2hs"
                ok, out = guard(ctx, oid, lambda: G.to_var_from_choi(env.c_sys, inp.copy(), True))
                if ok:
                    cmp(ctx, oid, out, ref.real[1:].reshape(-1), env.tol(1.0, True))
        else:
            nontriv = nontriv or is_complex_structured(ref)
    ctx.nontrivial(nontriv)


# ============================================================================= facet: linearity
LIN_CONVS = ("vec2dm", "dm2vec", "vecs2mats", "mats2vecs", "hs2choi", "choi2hs", "hs2proc", "hs2basis", "vec2basis")


@st.composite
def lin_case(draw, tier):
    conv = draw(st.sampled_from(LIN_CONVS))
    heavy = CONV[conv][0] in ("hs", "herm2")
    cfg = draw(cfg_st(gen_shapes(tier, heavy)))
    d = gen.dim_of(cfg["shape"])
    n = d * d
    dim = {"vec": n, "herm": n, "vecs": N_POVM_SWEEP * n, "herms": N_POVM_SWEEP * n, "hs": n * n, "herm2": n * n}[CONV[conv][0]]
    case = {"f": "lin", "cfg": cfg, "conv": conv}
    if conv in ("hs2basis", "vec2basis"):
        case["to"] = draw(st.sampled_from(["cfg2", "column_major", "row_major"]))
        if case["to"] == "cfg2":
            case["cfg2"] = draw(cfg_st((cfg["shape"],), kinds=TARGET_KINDS))
    case["a"] = draw(st.floats(-3, 3, allow_nan=False))
    case["b"] = draw(st.floats(-3, 3, allow_nan=False))
    case["x"] = draw(gen.raw(dim))
    case["y"] = draw(gen.raw(dim))
    return case


def _aux_of(case, env, ctx):
    if "to" not in case:
        return {}
    if case["to"] in MODES:
        return {"to": case["to"]}
    return {"to": "cfg2", "env2": Env(case["cfg2"], ctx, "cfg2"), "dense": case["cfg2"]["kind"] == "hermitian"}


def check_linearity(case, ctx):
    from quara.objects import gate as G
    from quara.objects import povm as P
    from quara.objects import state as S

    cfg, conv = case["cfg"], case["conv"]
    env = Env(cfg, ctx)
    aux = _aux_of(case, env, ctx)
    ctx.label(cfg_key(cfg), "conv:" + conv)
    x, y = _q(case["x"]), _q(case["y"])
    a, b = float(case["a"]), float(case["b"])
    z = a * x + b * y
    scale = float(np.max(np.abs(z), initial=0.0)) + abs(a) + abs(b)
    _, impls_fn, ref_fn, trunc = CONV[conv]
    tol = env.tol(scale, trunc) * 3
    fx = impls_fn(env, input_from_params(env, conv, x), aux)
    fy = impls_fn(env, input_from_params(env, conv, y), aux)
    fz = impls_fn(env, input_from_params(env, conv, z), aux)
    for name in fz:
        oid = f"{name}@linearity:{conv}"
        if name.startswith("Povm.matrix_with_sparsity"):
            continue  # raises on every input (C02-F1, reported by impl_agreement / basis_sweep)
        ok, ox = guard(ctx, oid, fx[name])
        ok2, oy = guard(ctx, oid, fy[name])
        ok3, oz = guard(ctx, oid, fz[name])
        if not (ok and ok2 and ok3):
            continue
        ox, oy, oz = arr(ox), arr(oy), arr(oz)
        if ox is None or oy is None or oz is None or not (ox.shape == oy.shape == oz.shape):
            ctx.n_oracles += 1
            ctx.fail(oid, "results are not arrays of one shape")
            continue
        if name.endswith("[T]"):
            ox, oy, oz = ox[1:], oy[1:], oz[1:]
        cmp(ctx, oid, oz, a * ox + b * oy, tol)
    # affine conversions (equality-constrained variable form): f(t*u + (1-t)*v) = t f(u) + (1-t) f(v)
    t = a / 3.0
    aff = None
    if conv == "hs2choi":
        k = env.n * (env.n - 1)
        aff = ("to_choi_from_var[T]", lambda v: G.to_choi_from_var(env.c_sys, v.copy(), True), x[:k], y[:k])
    elif conv == "vec2dm":
        aff = ("to_density_matrix_from_var[T]", lambda v: S.to_density_matrix_from_var(env.c_sys, v.copy(), True), x[1:], y[1:])
    elif conv == "vecs2mats":
        k = env.n * (N_POVM_SWEEP - 1)
        aff = ("to_matrices_from_var[T]", lambda v: P.to_matrices_from_var(env.c_sys, v.copy(), True), x[:k], y[:k])
    if aff is not None:
        name, fn, u, v = aff
        oid = f"{name}@linearity:{conv}"
        w = t * u + (1 - t) * v
        oks = [guard(ctx, oid, (lambda q=q: fn(q))) for q in (u, v, w)]
        if all(o[0] for o in oks):
            ou, ov, ow = (arr(o[1]) for o in oks)
            if ou is None or ov is None or ow is None or not (ou.shape == ov.shape == ow.shape):
                ctx.n_oracles += 1
                ctx.fail(oid, "results are not arrays of one shape")
            else:
                cmp(ctx, oid, ow, t * ou + (1 - t) * ov, tol)
    ctx.nontrivial(
        (env.rotated() or case.get("to") == "column_major" or is_complex_structured(np.array(ref_fn(env, input_from_params(env, conv, z), aux))))
        and float(np.max(np.abs(x), initial=0)) > 0
        and float(np.max(np.abs(y), initial=0)) > 0
        and a != 0
        and b != 0
    )


# ============================================================================= facet: impl_agreement
def _obj_stacked(env, obj, pert, pert_scale):
    """real stacked parameters (in env's basis) of a generated physical object + a drawn non-physical perturbation."""
    t = obj["type"]
    d, n = env.d, env.n
    if t == "state":
        x = np.real(vec_ref(env.B, gen.state_matrix(obj)))
    elif t == "povm":
        x = np.concatenate([np.real(vec_ref(env.B, e)) for e in gen.povm_matrices(obj)])
    elif t == "gate":
        ks = gen.gate_kraus(obj)
        x = np.real(hs_of_map(env.B, lambda m: rm.apply_kraus(ks, m))).reshape(-1)
    else:
        x = np.concatenate([np.real(hs_of_map(env.B, lambda m, ks=ks: rm.apply_kraus(ks, m))).reshape(-1) for ks in gen.mprocess_kraus(obj)])
    p = _q(pert)
    reps = int(math.ceil(x.size / max(1, p.size)))
    p = np.tile(p, reps)[: x.size]
    return x + pert_scale * p


@st.composite
def agree_case(draw, tier):
    t = draw(st.sampled_from(["state", "povm", "gate", "mprocess"]))
    heavy = t in ("gate", "mprocess")
    cfg = draw(cfg_st(gen_shapes(tier, heavy), identity_first=(t == "mprocess")))
    shp = (cfg["shape"],)
    case = {
        "f": "agree",
        "cfg": cfg,
        "pert_scale": draw(st.sampled_from([2.0, 0.3, 1e-3, 0.0, 0.0])),
        "to": draw(st.sampled_from(["cfg2", "column_major", "row_major"])),
    }
    if case["to"] == "cfg2":
        case["cfg2"] = draw(cfg_st(shp, kinds=TARGET_KINDS))
    if t in ("mprocess", "povm"):
        case["use_shape"] = draw(st.booleans())
    case["pert"] = draw(gen.raw(16))
    if t == "state":
        case["obj"] = draw(gen.state_case(shp))
    elif t == "povm":
        case["obj"] = draw(gen.povm_case(shp, (2, 5)))
    elif t == "gate":
        case["obj"] = draw(gen.gate_case(shp))
    else:
        case["obj"] = draw(gen.mprocess_case(shp, (2, 4)))
    return case


def _factor_shape(m):
    for a in (2, 3):
        if m % a == 0 and m // a > 1:
            return (a, m // a)
    return None


def _dense(v):
    if hasattr(v, "toarray"):
        v = v.toarray()
    if isinstance(v, (list, tuple)):
        return np.array([_dense(e) for e in v])
    return np.asarray(v)


def reuse_after_set_zero(ctx, env, t, x, m):
    """'always': an object that was converted once, reset in place with set_zero() and converted again yields
    representations of the operator it denotes NOW (zero), through every implementation."""
    from quara.objects.mprocess import MProcess

    n = env.n
    if t == "state":
        q = _state(env, x)
        calls = {"State.to_density_matrix": lambda: q.to_density_matrix(),
                 "State.to_density_matrix_with_sparsity": lambda: q.to_density_matrix_with_sparsity()}
    elif t == "povm":
        q = _povm(env, [x[i * n:(i + 1) * n] for i in range(m)])
        calls = {"Povm.matrices": lambda: q.matrices(), "Povm.matrices_with_sparsity": lambda: q.matrices_with_sparsity(),
                 "Povm.matrix": lambda: q.matrix(0)}
    elif t == "gate":
        q = _gate(env, x.reshape(n, n))
        calls = {"Gate.to_choi_matrix": lambda: q.to_choi_matrix(), "Gate.to_choi_matrix_with_dict": lambda: q.to_choi_matrix_with_dict(),
                 "Gate.to_choi_matrix_with_sparsity": lambda: q.to_choi_matrix_with_sparsity(),
                 "Gate.to_process_matrix": lambda: q.to_process_matrix()}
    else:
        q = MProcess(env.c_sys, [x[i * n * n:(i + 1) * n * n].reshape(n, n).copy() for i in range(m)], is_physicality_required=False)
        calls = {"MProcess.to_choi_matrix": lambda: q.to_choi_matrix(m - 1), "MProcess.to_choi_matrix_with_dict": lambda: q.to_choi_matrix_with_dict(m - 1),
                 "MProcess.to_choi_matrix_with_sparsity": lambda: q.to_choi_matrix_with_sparsity(m - 1),
                 "MProcess.to_process_matrix": lambda: q.to_process_matrix(m - 1)}
    first = {}
    for nm, fn in calls.items():
        ok, out = guard(ctx, f"{nm}@before_set_zero", fn)
        if ok:
            first[nm] = _dense(out)
    q.set_zero()
    for nm, fn in calls.items():
        if nm not in first:
            continue
        ok, out = guard(ctx, f"{nm}@after_set_zero", fn)
        if ok:
            out = _dense(out)
            ctx.check(out.shape == first[nm].shape and not np.any(out), f"{nm}@after_set_zero",
                      lambda nm=nm, out=out: f"{nm} of an object reset with set_zero() is not the zero operator: max|.|={float(np.max(np.abs(out))) if out.size else 0:.3e}")


def check_agreement(case, ctx):
    cfg, obj = case["cfg"], case["obj"]
    t = obj["type"]
    env = Env(cfg, ctx)
    aux = _aux_of(case, env, ctx)
    ctx.label(cfg_key(cfg), "type:" + t, "kind:" + str(obj.get("kind", "generic")), "pert:%g" % case["pert_scale"], "to:" + case["to"])
    x = _obj_stacked(env, obj, case["pert"], case["pert_scale"])
    scale = float(np.max(np.abs(x), initial=0.0))
    n = env.n
    reuse_after_set_zero(ctx, env, t, x, obj.get("m"))
    if t == "state":
        ref, _ = run_conv(ctx, env, "vec2dm", x, {}, "agree", scale)
        run_conv(ctx, env, "dm2vec", rm.herm(ref), {}, "agree", scale)
        run_conv(ctx, env, "vec2basis", x, aux, "agree", scale)
        ctx.nontrivial(env.rotated() or is_complex_structured(ref))
        return
    if t == "povm":
        m = obj["m"]
        # the registry's POVM conversions are written for any number of elements
        ref, outs = run_conv(ctx, env, "vecs2mats", x, {}, "agree", scale)
        ms = [rm.herm(e) for e in ref]
        _, impls_fn, ref_fn, _ = CONV["mats2vecs"]
        r2 = np.asarray(ref_fn(env, ms, {})).real
        for name, fn in impls_fn(env, ms, {}).items():
            oid = f"{name}@agree:mats2vecs"
            ok, out = guard(ctx, oid, fn)
            if ok:
                cmp(ctx, oid, out, r2, env.tol(scale, True))
        p = _povm(env, [x[i * n : (i + 1) * n] for i in range(m)])
        for i in range(m):
            ok, v = guard(ctx, "Povm.vec@agree", lambda: (p.vec(i), p.vec((i,)), p[i]))
            if ok:
                for w in v:
                    cmp(ctx, "Povm.vec@agree", w, x[i * n : (i + 1) * n], 0.0)
        shape = _factor_shape(m) if case.get("use_shape") else None
        if shape is not None:
            # multi-dimensional outcome layout, set the way quara's own tensor product sets it (operators.py); the documented
            # tuple access is row-major over nums_local_outcomes
            p2 = _povm(env, [x[i * n : (i + 1) * n] for i in range(m)])
            p2._nums_local_outcomes = list(shape)
            ctx.label("idx:multi")
            for i in range(m):
                idx = tuple(int(v) for v in np.unravel_index(i, shape))
                ok, v = guard(ctx, "Povm.vec[multi]@agree", lambda: p2.vec(idx))
                if ok:
                    cmp(ctx, "Povm.vec[multi]@agree", v, x[i * n : (i + 1) * n], 0.0)
                ok, mtx = guard(ctx, "Povm.matrix[multi]@agree", lambda: p2.matrix(idx))
                if ok:
                    cmp(ctx, "Povm.matrix[multi]@agree", mtx, ref[i], env.tol(scale))
        ctx.nontrivial(env.rotated() or is_complex_structured(ref))
        return
    if t == "gate":
        hs = x.reshape(n, n)
        ref, _ = run_conv(ctx, env, "hs2choi", hs, {}, "agree", scale)
        run_conv(ctx, env, "choi2hs", rm.herm(ref), {}, "agree", scale)
        run_conv(ctx, env, "hs2proc", hs, {}, "agree", scale)
        run_conv(ctx, env, "hs2basis", hs, aux, "agree", scale)
        ctx.nontrivial(env.rotated() or is_complex_structured(ref))
        return
    # mprocess: every outcome through the methods, int and tuple index, optional multi-dimensional shape
    from quara.objects.mprocess import MProcess

    m = obj["m"]
    hss = [x[i * n * n : (i + 1) * n * n].reshape(n, n).copy() for i in range(m)]
    shape = _factor_shape(m) if case.get("use_shape") else None
    ok, mp = guard(ctx, "MProcess@agree", lambda: MProcess(env.c_sys, [h.copy() for h in hss], shape=shape, is_physicality_required=False))
    if not ok:
        return
    T, Tarr = _target(env, aux)
    nontriv = env.rotated()
    ok, conv_all = guard(ctx, "MProcess.convert_basis@agree", lambda: mp.convert_to_comp_basis(mode=aux["to"]) if aux["to"] in MODES else mp.convert_basis(T))
    for i in range(m):
        idx_t = (i,) if shape is None else tuple(int(v) for v in np.unravel_index(i, shape))
        ctx.label("idx:multi" if shape else "idx:flat")
        cref = choi_ref(env.B, hss[i])
        nontriv = nontriv or is_complex_structured(cref)
        calls = {
            "MProcess.hs[int]": (lambda: mp.hs(i), hss[i], 0.0),
            "MProcess.hs[tuple]": (lambda: mp.hs(idx_t), hss[i], 0.0),
            "MProcess.to_choi_matrix[int]": (lambda: mp.to_choi_matrix(i), cref, env.tol(scale)),
            "MProcess.to_choi_matrix[tuple]": (lambda: mp.to_choi_matrix(idx_t), cref, env.tol(scale)),
            "MProcess.to_choi_matrix_with_dict[int]": (lambda: mp.to_choi_matrix_with_dict(i), cref, env.tol(scale)),
            "MProcess.to_choi_matrix_with_sparsity[tuple]": (lambda: mp.to_choi_matrix_with_sparsity(idx_t), cref, env.tol(scale)),
            "MProcess.to_process_matrix[tuple]": (lambda: mp.to_process_matrix(idx_t), cref, env.tol(scale)),
        }
        for name, (fn, r, tol) in calls.items():
            oid = f"{name}@agree"
            ok2, out = guard(ctx, oid, fn)
            if ok2:
                cmp(ctx, oid, out, r, tol)
        if ok:
            oid = "MProcess.convert_basis@agree"
            a_all = conv_all if isinstance(conv_all, (list, tuple)) else None
            if a_all is None or len(a_all) != m:
                ctx.n_oracles += 1
                ctx.fail(oid, f"expected a list of {m} matrices")
                ok = False
            else:
                cmp(ctx, oid, a_all[i], hs_of_map(Tarr, lambda mm: apply_hs_ref(env.B, hss[i], mm)), env.tol(scale))
    ctx.nontrivial(nontriv)


# ============================================================================= facet: round_trip
RT_KINDS = ("state", "povm", "hs_choi", "var_choi", "var_state", "var_povm", "convert_hs", "convert_vec")
CHOI_FWD = ("to_choi_from_hs", "to_choi_from_hs_with_dict", "to_choi_from_hs_with_sparsity")
CHOI_INV = ("to_hs_from_choi", "to_hs_from_choi_with_dict", "to_hs_from_choi_with_sparsity")


@st.composite
def rt_case(draw, tier):
    kind = draw(st.sampled_from(RT_KINDS))
    heavy = kind in ("hs_choi", "var_choi", "convert_hs")
    cfg = draw(cfg_st(gen_shapes(tier, heavy)))
    d = gen.dim_of(cfg["shape"])
    n = d * d
    m = draw(st.integers(2, 4))
    size = {"state": n, "var_state": n, "convert_vec": n, "povm": m * n, "var_povm": m * n}.get(kind, n * n)
    case = {"f": "rt", "cfg": cfg, "kind": kind, "amp": draw(st.sampled_from([30.0, 1e-2, 1.0, 1.0])), "flag": draw(st.booleans())}
    if kind in ("povm", "var_povm"):
        case["m"] = m
    if kind in ("convert_hs", "convert_vec"):
        case["to"] = draw(st.sampled_from(["cfg2", "cfg2", "column_major", "row_major"]))
        if case["to"] == "cfg2":
            case["cfg2"] = draw(cfg_st((cfg["shape"],), kinds=TARGET_KINDS))
    case["x"] = draw(gen.raw(size))
    return case


def check_round_trip(case, ctx):
    from quara.objects import gate as G
    from quara.objects import povm as P
    from quara.objects import state as S
    from quara.objects.matrix_basis import convert_vec

    cfg, kind = case["cfg"], case["kind"]
    env = Env(cfg, ctx)
    c = env.c_sys
    n, d = env.n, env.d
    amp = float(case["amp"])
    x = _q(case["x"]) * amp
    flag = bool(case["flag"])
    ctx.label(cfg_key(cfg), "rt:" + kind, f"flag:{flag}")
    tol = env.tol(amp, True) * 3
    nontriv = env.rotated()

    def rt(oid, fn, expect, tol_=tol):
        ok, out = guard(ctx, oid, fn)
        if ok:
            cmp(ctx, oid, out, expect, tol_)

    if kind == "state":
        rt("rt:vec->dm->vec", lambda: S.to_vec_from_density_matrix_with_sparsity(c, S.to_density_matrix_from_vec(c, x.copy())), x)
        mtx = sum(x[k] * herm_unit(d, k) for k in range(n))
        rt("rt:dm->vec->dm", lambda: S.to_density_matrix_from_vec(c, S.to_vec_from_density_matrix_with_sparsity(c, mtx.copy())), mtx)
        s = _state(env, x)
        rt("rt:State.dm->vec", lambda: S.to_vec_from_density_matrix_with_sparsity(c, s.to_density_matrix()), x)
        nontriv = nontriv or is_complex_structured(mtx)
    elif kind == "var_state":
        var = x[1:] if flag else x
        rt(f"rt:var->dm->var[{flag}]", lambda: S.to_var_from_density_matrix(c, S.to_density_matrix_from_var(c, var.copy(), flag), flag), var)
        if not flag:
            mtx = sum(x[k] * herm_unit(d, k) for k in range(n))
            rt("rt:dm->var->dm[False]", lambda: S.to_density_matrix_from_var(c, S.to_var_from_density_matrix(c, mtx.copy(), False), False), mtx)
        elif env.identity_plus:
            # under the equality constraint the matrix must have unit trace
            mtx = sum(x[k] * herm_unit(d, k) for k in range(n))
            mtx = mtx + (1 - np.trace(mtx).real) / d * np.eye(d)
            rt("rt:dm->var->dm[True]", lambda: S.to_density_matrix_from_var(c, S.to_var_from_density_matrix(c, mtx.copy(), True), True), mtx)
        nontriv = nontriv or is_complex_structured(unvec_ref(env.B, x))
    elif kind in ("povm", "var_povm"):
        m = case["m"]
        vs = [x[i * n : (i + 1) * n].copy() for i in range(m)]
        ms = [sum(v[k] * herm_unit(d, k) for k in range(n)) for v in vs]
        if kind == "povm":
            rt("rt:vecs->mats->vecs", lambda: P.to_vecs_from_matrices_with_sparsity(c, P.to_matrices_from_vecs(c, vs)), np.array(vs))
            rt("rt:mats->vecs->mats", lambda: P.to_matrices_from_vecs(c, P.to_vecs_from_matrices_with_sparsity(c, [q.copy() for q in ms])), np.array(ms))
            p = _povm(env, vs)
            rt("rt:Povm.matrices->vecs", lambda: P.to_vecs_from_matrices_with_sparsity(c, p.matrices()), np.array(vs))
        else:
            var = np.concatenate(vs[:-1]) if flag else np.concatenate(vs)
            tol_m = tol * m
            rt(f"rt:var->mats->var[{flag}]", lambda: P.to_var_from_matrices(c, P.to_matrices_from_var(c, var.copy(), flag), flag), var, tol_m)
            if flag and env.identity_plus:
                ms[-1] = np.eye(d) - sum(ms[:-1])
            if (not flag) or env.identity_plus:
                rt(f"rt:mats->var->mats[{flag}]", lambda: P.to_matrices_from_var(c, P.to_var_from_matrices(c, [q.copy() for q in ms], flag), flag), np.array(ms), tol_m)
        nontriv = nontriv or is_complex_structured(np.array(ms))
    elif kind == "hs_choi":
        hs = x.reshape(n, n)
        ch = input_from_params(env, "choi2hs", x)
        g = _gate(env, hs)
        for fname in CHOI_FWD:  # every forward implementation against every inverse implementation
            for iname in CHOI_INV:
                fwd, inv = getattr(G, fname), getattr(G, iname)
                rt(f"rt:hs->choi->hs[{fname},{iname}]", lambda: inv(c, fwd(c, hs.copy())), hs)
                rt(f"rt:choi->hs->choi[{iname},{fname}]", lambda: fwd(c, inv(c, ch.copy())), ch)
        for iname in CHOI_INV:
            rt(f"rt:Gate.choi->hs[{iname}]", lambda: getattr(G, iname)(c, g.to_choi_matrix()), hs)
        nontriv = nontriv or is_complex_structured(ch)
    elif kind == "var_choi":
        hs = x.reshape(n, n).copy()
        if flag:
            hs[0] = np.eye(1, n)[0]
        var = G.convert_hs_to_var(c, hs, flag)
        cref = choi_ref(env.B, hs)
        rt(f"to_var_from_choi[{'T' if flag else 'F'}]@rt:var->choi->var", lambda: G.to_var_from_choi(c, G.to_choi_from_var(c, var.copy(), flag), flag), var)
        rt(f"to_var_from_choi[{'T' if flag else 'F'}]@rt:choi->var->choi", lambda: G.to_choi_from_var(c, np.real_if_close(G.to_var_from_choi(c, rm.herm(cref), flag)), flag), cref)
        nontriv = nontriv or is_complex_structured(cref)
    elif kind == "convert_hs":
        hs = x.reshape(n, n)
        aux = _aux_of(case, env, ctx)
        T, Tarr = _target(env, aux)
        ctx.label("to:" + case["to"])
        rt("rt:convert_hs", lambda: G.convert_hs(G.convert_hs(hs.copy(), c.basis(), T), T, c.basis()), hs)
        g = _gate(env, hs)
        if case["to"] in MODES:
            rt("rt:Gate.convert_to_comp_basis", lambda: G.convert_hs(g.convert_to_comp_basis(mode=case["to"]), T, c.basis()), hs)
            # the computational-basis HS matrix acts on row-/column-major vectorised matrices
            rho = herm_from_raw(case["x"], d)
            ok, hcb = guard(ctx, "rt:comp_action", lambda: g.convert_to_comp_basis(mode=case["to"]))
            if ok and arr(hcb) is not None and arr(hcb).shape == (n, n):
                order = "C" if case["to"] == "row_major" else "F"
                out = (arr(hcb) @ rho.flatten(order=order)).reshape((d, d), order=order)
                ctx.close(out, apply_hs_ref(env.B, hs, rho), tol, "comp_action")
            nontriv = nontriv or case["to"] == "column_major"
        else:
            rt("rt:Gate.convert_basis", lambda: G.convert_hs(g.convert_basis(T), T, c.basis()), hs)
            nontriv = nontriv or aux["env2"].rotated()
        nontriv = nontriv or is_complex_structured(choi_ref(env.B, hs))
    elif kind == "convert_vec":
        aux = _aux_of(case, env, ctx)
        T, Tarr = _target(env, aux)
        ctx.label("to:" + case["to"])
        rt("rt:convert_vec", lambda: convert_vec(convert_vec(x.copy(), c.basis(), T), T, c.basis()), x)
        s = _state(env, x)
        rt("rt:State.convert_basis", lambda: convert_vec(s.convert_basis(T), T, c.basis()), x)
        if case["to"] in MODES:
            # computational-basis coefficients are the matrix entries in row-/column-major order
            order = "C" if case["to"] == "row_major" else "F"
            rt("comp_entries", lambda: s.convert_basis(T), unvec_ref(env.B, x).flatten(order=order))
        nontriv = nontriv or case["to"] == "column_major" or is_complex_structured(unvec_ref(env.B, x))
    ctx.nontrivial(nontriv and float(np.max(np.abs(x), initial=0.0)) > 0)


# ============================================================================= facet: kraus / process_matrix
@st.composite
def kraus_case(draw, tier):
    t = draw(st.sampled_from(["gate", "gate", "gate", "mprocess"]))
    cfg = draw(cfg_st(gen_shapes(tier, True), identity_first=(t == "mprocess")))
    shp = (cfg["shape"],)
    via = draw(st.sampled_from(["gate_default", "gate_eps", "settings", "argument", "default"]))
    atol = draw(gen.log_uniform(1e-13, 1e-6))
    band = draw(st.sampled_from(["above", "below", "none", "none"]))
    ratio = {"none": 0.0, "below": draw(gen.log_uniform(1e-3, 0.09)), "above": draw(gen.log_uniform(11.0, 1e6))}[band]
    obj = draw(gen.gate_case(shp)) if t == "gate" else draw(gen.mprocess_case(shp, (2, 3)))
    return {
        "f": "kraus",
        "cfg": cfg,
        "obj": obj,
        "band": band,
        "neg": float(min(ratio * atol, 0.5)),
        "atol": atol,
        "atol_via": via,
    }


def _neg_direction(choi, eps):
    """Choi matrix with smallest eigenvalue -eps (same eigenvectors)."""
    w, v = np.linalg.eigh(rm.herm(choi))
    u0 = v[:, 0]
    return rm.herm(choi) - (w[0] + eps) * np.outer(u0, u0.conj())


def check_kraus(case, ctx):
    from quara.objects import gate as G
    from quara.objects.gate import Gate
    from quara.objects.mprocess import MProcess
    from quara.settings import Settings

    cfg, obj = case["cfg"], case["obj"]
    env = Env(cfg, ctx)
    c, d, n = env.c_sys, env.d, env.n
    t = obj["type"]
    band, via = case["band"], case["atol_via"]
    ctx.label(cfg_key(cfg), "type:" + t, "kind:" + str(obj.get("kind", "generic")), "band:" + band, "atol:" + via)
    ks_list = [gen.gate_kraus(obj)] if t == "gate" else gen.mprocess_kraus(obj)
    atol = float(case["atol"]) if via not in ("default", "gate_default") else EPS
    nontriv = env.rotated()
    hss = []
    for ks in ks_list:
        choi = rm.choi_from_kraus(ks)
        nontriv = nontriv or is_complex_structured(choi)
        # (a) Kraus -> HS is quadratic: compare with the model on the generated (complex) operators
        hs_ref = hs_of_map(env.B, lambda m: rm.apply_kraus(ks, m))
        oid = "to_hs_from_kraus_matrices@kraus"
        ok, out = guard(ctx, oid, lambda: G.to_hs_from_kraus_matrices(c, [k.copy() for k in ks]))
        if ok:
            cmp(ctx, oid, out, hs_ref.real, env.tol(1.0, True))
        if band != "none":
            choi = _neg_direction(choi, case["neg"])
        hss.append(np.ascontiguousarray(hs_from_choi_ref(env.B, choi).real))
    w_min = [float(np.linalg.eigvalsh(rm.herm(choi_ref(env.B, h)))[0]) for h in hss]

    def call(i):
        hs = hss[i]
        if t == "mprocess":
            if via == "settings":
                Settings.set_atol(atol)
            try:
                mp = MProcess(c, [h.copy() for h in hss], is_physicality_required=False)
                return mp.to_kraus_matrices(i if i % 2 == 0 else (i,))
            finally:
                Settings.set_atol(EPS)
        if via == "argument":
            return G.to_kraus_matrices_from_hs(c, hs.copy(), atol)
        if via == "gate_default":
            return Gate(c, hs.copy(), is_physicality_required=False).to_kraus_matrices()
        if via == "gate_eps":
            return Gate(c, hs.copy(), is_physicality_required=False, eps_proj_physical=atol).to_kraus_matrices()
        if via == "settings":
            Settings.set_atol(atol)
            try:
                return G.to_kraus_matrices_from_hs(c, hs.copy())
            finally:
                Settings.set_atol(EPS)
        return G.to_kraus_matrices_from_hs(c, hs.copy())

    for i, hs in enumerate(hss):
        # threshold in force for the CP test of this call
        thr = atol
        if t == "mprocess" and via != "settings":
            thr = EPS
        if t == "gate" and via == "default":
            thr = EPS
        if t == "gate" and via == "gate_default":
            thr = EPS / 10  # QOperation default eps_proj_physical = Settings atol / 10
        oid = f"to_kraus_matrices[{t},{via}]@kraus"
        ok, kk = guard(ctx, oid, lambda: call(i))
        if not ok:
            continue
        if not isinstance(kk, list):
            ctx.n_oracles += 1
            ctx.fail(oid, f"expected a list, got {type(kk)}")
            continue
        neg = max(0.0, -w_min[i])
        if neg >= 10 * thr:
            ctx.check(len(kk) == 0, oid + ":non_cp_empty", f"min Choi eigenvalue {-neg:.3e}, threshold {thr:.3e}, {len(kk)} operators returned")
            ctx.label("verdict:non-cp")
            continue
        if neg > thr / 10:
            ctx.label("margin-band")
            continue
        ctx.label("verdict:cp")
        if len(kk) == 0:
            ks_out = []  # legitimate only for the (numerically) zero map: decided by the action oracle below
        else:
            ka = arr(kk)
            if ka is None or ka.ndim != 3 or ka.shape[1:] != (d, d) or ka.shape[0] > n:
                ctx.n_oracles += 1
                ctx.fail(oid, f"Kraus list has wrong shape {None if ka is None else ka.shape}")
                continue
            ks_out = [ka[j] for j in range(ka.shape[0])]
        # dropping eigenvalues below the thresholds changes the map by at most n * threshold
        slack = 4 * n * max(thr, EPS)
        # (b) action on a complete (Hermitian) basis == HS action
        ctx.close(hs_of_map(env.B, lambda m: rm.apply_kraus(ks_out, m)), hs, env.tol(1.0) + slack, oid + ":action")
        if not ks_out:
            continue
        # (c) round trip through quara's own inverse
        ok2, back = guard(ctx, oid + ":round_trip", lambda: G.to_hs_from_kraus_matrices(c, [k.copy() for k in ks_out]))
        if ok2:
            cmp(ctx, oid + ":round_trip", back, hs, env.tol(1.0, True) + slack)
        # (d) documented order: large eigenvalue first (eigenvalue = squared Frobenius norm)
        nr = np.array([float(np.vdot(k, k).real) for k in ks_out])
        ctx.check(bool(np.all(nr[:-1] >= nr[1:] - 1e-9)), oid + ":sorted", f"norms {nr}")
    ctx.nontrivial(nontriv)


@st.composite
def proc_case(draw, tier):
    cfg = draw(cfg_st(gen_shapes(tier, True)))
    shp = (cfg["shape"],)
    d = gen.dim_of(cfg["shape"])
    return {"f": "proc", "cfg": cfg, "obj": draw(gen.gate_case(shp)), "pert": draw(gen.raw(d ** 4)),
            "pert_scale": draw(st.sampled_from([0.0, 0.0, 0.5])), "rho": draw(gen.raw(2 * d * d))}


def check_process_matrix(case, ctx):
    from quara.objects import gate as G

    cfg, obj = case["cfg"], case["obj"]
    env = Env(cfg, ctx)
    d, n = env.d, env.n
    ks = gen.gate_kraus(obj)
    ctx.label(cfg_key(cfg), "kind:" + obj["kind"], "pert:%g" % case["pert_scale"])
    hs = hs_of_map(env.B, lambda m: rm.apply_kraus(ks, m)).real + case["pert_scale"] * _q(case["pert"]).reshape(n, n)
    hs = np.ascontiguousarray(hs)
    scale = float(np.max(np.abs(hs)))
    _, outs = run_conv(ctx, env, "hs2proc", hs, {}, "proc", scale)
    chi = outs.get("to_process_matrix_from_hs")
    if chi is None or chi.shape != (n, n):
        return
    # defining relation on a complete basis of (complex) inputs + one generated complex matrix
    inputs = list(comp_arr(d, "row_major")) + [rm.ginibre(case["rho"], d, d)]
    for rho in inputs:
        ctx.close(action_of_chi(chi, d, rho), apply_hs_ref(env.B, hs, rho), env.tol(scale + 1.0) * 2, "process_matrix:defining_relation")
    if case["pert_scale"] == 0.0:
        ctx.close(chi, rm.process_matrix_from_kraus(ks, d), env.tol(scale), "process_matrix:kraus_outer_products")
    ctx.nontrivial(env.rotated() or is_complex_structured(chi))


# ============================================================================= facet: truncate_hs
@st.composite
def trunc_case(draw, tier):
    eps = draw(gen.log_uniform(1e-15, 1e-3))
    nd = draw(st.sampled_from([1, 2]))
    k = draw(st.integers(1, 6))
    size = k if nd == 1 else k * k
    # every entry: class of the real part and of the imaginary part, and magnitudes relative to eps
    re_cls = draw(st.lists(st.sampled_from(["zero", "below", "above", "big"]), min_size=size, max_size=size))
    im_cls = draw(st.lists(st.sampled_from(["zero", "zero", "below", "below", "above"]), min_size=size, max_size=size))
    if draw(st.booleans()):
        im_cls = [("below" if c == "above" else c) for c in im_cls]
    mag = draw(st.lists(st.floats(0.0, 1.0, allow_nan=False), min_size=2 * size, max_size=2 * size))
    sgn = draw(st.lists(st.sampled_from([1.0, -1.0]), min_size=2 * size, max_size=2 * size))
    return {"f": "trunc", "eps": eps, "nd": nd, "k": k, "re_cls": re_cls, "im_cls": im_cls, "mag": mag, "sgn": sgn,
            "via": draw(st.sampled_from(["argument", "settings"])), "required": draw(st.sampled_from([True, True, False])),
            "dtype": draw(st.sampled_from(["complex", "complex", "real"]))}


def _mag(cls, u, eps):
    if cls == "zero":
        return 0.0
    if cls == "below":
        return eps * (0.001 + 0.499 * u)  # (0, eps/2]
    if cls == "above":
        return eps * (8.0 + 92.0 * u)  # [8 eps, 100 eps]: above 2*eps*max(1, max|entry|) for every generated array (max|entry| < 4)
    return 0.1 + 2.9 * u + 2 * eps


def check_truncate(case, ctx):
    from quara.settings import Settings
    from quara.utils import matrix_util as mu

    eps = float(case["eps"])
    size = len(case["re_cls"])
    re = np.array([s * _mag(c, u, eps) for c, u, s in zip(case["re_cls"], case["mag"][:size], case["sgn"][:size])])
    im = np.array([s * _mag(c, u, eps) for c, u, s in zip(case["im_cls"], case["mag"][size:], case["sgn"][size:])])
    real_input = case["dtype"] == "real"
    if real_input:
        im = np.zeros(size)
        a = re.copy()
    else:
        a = re + 1j * im
    if case["nd"] == 2:
        a = a.reshape(case["k"], case["k"])
    a0 = a.copy()
    required = bool(case["required"])
    ctx.label("eps:%d" % int(math.floor(math.log10(eps))), "via:" + case["via"], f"required:{required}", "dtype:" + case["dtype"], "nd:%d" % case["nd"])

    def run():
        if case["via"] == "settings":
            Settings.set_atol(eps)
            try:
                return mu.truncate_hs(a, is_zero_imaginary_part_required=required)
            finally:
                Settings.set_atol(EPS)
        return mu.truncate_hs(a, eps_truncate_imaginary_part=eps, is_zero_imaginary_part_required=required)

    # the imaginary-part threshold is eps for arrays of at most unit scale and eps*max|entry| above it (repaired contract,
    # /repo f4a0aa9); verdicts are asserted only outside [eps/2, 2*eps*max(1, max|entry|)), which is right under both readings
    s_arr = max(1.0, float(np.max(np.abs(a0), initial=0.0)))
    big_im = bool(np.any(np.abs(im) >= 2 * eps * s_arr))
    if bool(np.any((np.abs(im) > eps / 2) & (np.abs(im) < 2 * eps * s_arr))):
        ctx.label("margin-band")
        return
    sub_im = bool(np.any((np.abs(im) > 0) & (np.abs(im) <= eps / 2)))
    sub_re = bool(np.any((np.abs(re) > 0) & (np.abs(re) <= eps / 2)))
    if required and big_im:
        ctx.raises((ValueError,), run, "truncate_hs:raises_on_imaginary")
        ctx.label("raises")
        ctx.nontrivial(True)
        ctx.equal(a, a0, "truncate_hs:input_unchanged")
        return
    ok, out = guard(ctx, "truncate_hs:call", run)
    if not ok:
        return
    ctx.equal(a, a0, "truncate_hs:input_unchanged")
    if not isinstance(out, np.ndarray) or out.shape != a.shape:
        ctx.n_oracles += 1
        ctx.fail("truncate_hs:shape", f"{type(out)} {getattr(out, 'shape', None)}")
        return
    exp_re = np.where(np.abs(re) < eps, 0.0, re).reshape(a.shape)
    if required:
        ctx.check(out.dtype == np.float64, "truncate_hs:real_dtype", str(out.dtype))
        ctx.equal(np.asarray(out, dtype=np.float64), exp_re.astype(np.float64), "truncate_hs:values")
    else:
        # only entries whose real part is itself above the threshold (or the whole entry is zero) are specified
        exp_im = np.where(np.abs(im) <= eps / 2, 0.0, im).reshape(a.shape)
        spec = ((np.abs(re) >= 2 * eps) | ((re == 0) & (np.abs(im) <= eps / 2))).reshape(a.shape)
        o = np.asarray(out, dtype=complex)
        ctx.equal(o.real[spec], exp_re[spec], "truncate_hs:values_not_required_re")
        ctx.equal(o.imag[spec], exp_im[spec], "truncate_hs:values_not_required_im")
    if real_input and not np.any((np.abs(re) > 0) & (np.abs(re) < eps)):
        ctx.equal(np.asarray(out, dtype=np.float64), a0, "truncate_hs:identity_on_real")
    ctx.nontrivial(sub_im or sub_re)


# ============================================================================= known-finding predicates
def pred_povm_matrix_with_sparsity(case):
    """C02-F1: every call of Povm.matrix_with_sparsity raises NameError; cases that call it = POVM forward conversions."""
    if case.get("f") == "sweep":
        return case.get("conv") == "vecs2mats"
    return case.get("f") == "agree" and case["obj"].get("type") == "povm"


def pred_to_var_from_choi(case):
    """C02-F2: to_var_from_choi applies the forward (HS -> Choi) map; every call is wrong; cases that call it."""
    if case.get("f") == "sweep":
        return case.get("conv") == "choi2hs" and case.get("lo", 0) < gen.dim_of(case["cfg"]["shape"]) ** 4
    if case.get("f") == "rt":
        return case.get("kind") == "var_choi"
    return case.get("f") == "agree" and case["obj"].get("type") == "gate"


def pred_povm_matrices_npmatrix(case):
    """C02-F4: Povm.matrices() returns numpy.matrix; feeding it to the inverse conversion raises for every POVM."""
    return case.get("f") == "rt" and case.get("kind") == "povm"


def pred_kraus_atol_mismatch(case):
    """C02-F3: CP threshold (argument / Gate.eps_proj_physical) larger than Settings atol and a negative Choi eigenvalue
    between the two: passes the CP test, survives the zero-eigenvalue filter, sqrt(negative) = NaN."""
    return (
        case.get("f") == "kraus"
        and case.get("atol_via") in ("argument", "gate_eps")
        and case["obj"].get("type") == "gate"
        and case.get("band") == "below"
        and case.get("atol", 0.0) > EPS
        and case.get("neg", 0.0) > 0.5 * EPS
    )


# ============================================================================= facets
# ============================================================================= facet: expansion (matrix <-> coefficients helpers)
@st.composite
def expansion_case(draw, tier):
    cfg = draw(cfg_st(gen_shapes(tier), kinds=TARGET_KINDS))
    d = gen.dim_of(cfg["shape"])
    return {"f": "expansion", "cfg": cfg, "form": draw(st.sampled_from(["sparse", "dense", "comp_row", "comp_col"])),
            "m": draw(gen.raw(2 * d * d)), "n": draw(gen.raw(2 * d * d)),
            "a": [draw(st.floats(-2, 2, allow_nan=False)), draw(st.floats(-2, 2, allow_nan=False))]}


def check_expansion(case, ctx):
    """calc_matrix_expansion_coefficient / calc_hermitian_matrix_expansion_coefficient_hermitian_basis /
    calc_mat_from_coefficient_basis: c_i = Tr[B_i^dagger M], M = sum_i c_i B_i, complex-linear in M."""
    from quara.objects import matrix_basis as mb

    env = Env(case["cfg"], ctx)
    d = env.d
    form = case["form"]
    ctx.label(cfg_key(case["cfg"]), "basis_form:" + form)
    if form == "sparse":
        basis, B = env.c_sys.basis(), env.B
    elif form == "dense":
        basis, B = mb.MatrixBasis([np.array(b) for b in env.basis]), env.B
    else:
        mode = "row_major" if form == "comp_row" else "column_major"
        basis, B = env.c_sys.comp_basis(mode=mode), comp_arr(d, mode)
    m = (np.asarray(case["m"][: d * d]) + 1j * np.asarray(case["m"][d * d:])).reshape(d, d)
    n = (np.asarray(case["n"][: d * d]) + 1j * np.asarray(case["n"][d * d:])).reshape(d, d)
    a = complex(case["a"][0], case["a"][1])
    tol = env.tol(1.0 + abs(a))

    def coeff_ref(x):
        return np.array([np.trace(b.conj().T @ x) for b in B])

    ok, c = guard(ctx, "calc_matrix_expansion_coefficient", lambda: mb.calc_matrix_expansion_coefficient(m.copy(), basis))
    if ok:
        cmp(ctx, "calc_matrix_expansion_coefficient@definition", c, coeff_ref(m), tol)
        ok2, back = guard(ctx, "calc_mat_from_coefficient_basis", lambda: mb.calc_mat_from_coefficient_basis(np.asarray(c), basis))
        if ok2:
            cmp(ctx, "calc_mat_from_coefficient_basis@round_trip", back, m, tol)
        ok3, c2 = guard(ctx, "calc_matrix_expansion_coefficient", lambda: mb.calc_matrix_expansion_coefficient(a * m + n, basis))
        ok4, cn = guard(ctx, "calc_matrix_expansion_coefficient", lambda: mb.calc_matrix_expansion_coefficient(n.copy(), basis))
        if ok3 and ok4:
            cmp(ctx, "calc_matrix_expansion_coefficient@complex_linear", c2, a * np.asarray(c) + np.asarray(cn), 4 * tol)
    vec = coeff_ref(n)  # arbitrary complex coefficients
    ok, mat = guard(ctx, "calc_mat_from_coefficient_basis", lambda: mb.calc_mat_from_coefficient_basis(vec.copy(), basis))
    if ok:
        cmp(ctx, "calc_mat_from_coefficient_basis@definition", mat, np.tensordot(vec, B, axes=(0, 0)), tol)
    herm_basis = bool(np.max(np.abs(B - np.conj(np.swapaxes(B, 1, 2)))) < 1e-12)
    if herm_basis:
        h = rm.herm(m)
        ok, ch = guard(ctx, "calc_hermitian_matrix_expansion_coefficient_hermitian_basis",
                       lambda: mb.calc_hermitian_matrix_expansion_coefficient_hermitian_basis(h.copy(), basis))
        if ok:
            ctx.check(np.asarray(ch).dtype.kind == "f", "calc_hermitian_matrix_expansion_coefficient_hermitian_basis@real_dtype", str(np.asarray(ch).dtype))
            cmp(ctx, "calc_hermitian_matrix_expansion_coefficient_hermitian_basis@definition", ch, np.real(coeff_ref(h)), env.tol(1.0, True))
    ctx.nontrivial((not herm_basis) or env.rotated() or float(np.max(np.abs(m - m.conj().T))) > 1e-3)


FACETS = {
    "basis_sweep": {
        "kind": "enumeration",
        "items": sweep_items,
        "check": check_sweep,
        "budget": {"quick": {"examples": 0, "shards": 16}, "thorough": {"examples": 0, "shards": 16}},
        "nontrivial": "the chunk contains a unit input whose image / pre-image has an imaginary or antisymmetric component, or the "
        "configuration is a rotated / non-identity-first basis or the target is column-major",
        "min_nontrivial": 40,
    },
    "linearity": {
        "strategy": lin_case,
        "check": check_linearity,
        "budget": {"quick": {"examples": 640, "shards": 8}, "thorough": {"examples": 12000, "shards": 16}},
        "nontrivial": "both operands and both coefficients non-zero and the combination is complex-structured or the configuration rotated / column-major",
        "min_nontrivial": 30,
    },
    "impl_agreement": {
        "strategy": agree_case,
        "check": check_agreement,
        "budget": {"quick": {"examples": 640, "shards": 8}, "thorough": {"examples": 10000, "shards": 16}},
        "nontrivial": "object with imaginary/antisymmetric component in the computational basis, or rotated basis",
        "min_nontrivial": 30,
    },
    "expansion": {
        "strategy": expansion_case,
        "check": check_expansion,
        "budget": {"quick": {"examples": 480, "shards": 4}, "thorough": {"examples": 8000, "shards": 16}},
        "nontrivial": "non-Hermitian matrix, or a non-Hermitian (computational) / rotated basis",
        "min_nontrivial": 30,
    },
    "round_trip": {
        "strategy": rt_case,
        "check": check_round_trip,
        "budget": {"quick": {"examples": 800, "shards": 8}, "thorough": {"examples": 12000, "shards": 16}},
        "nontrivial": "non-zero input that is complex-structured, or rotated basis / column-major target",
        "min_nontrivial": 30,
    },
    "kraus": {
        "strategy": kraus_case,
        "check": check_kraus,
        "budget": {"quick": {"examples": 640, "shards": 8}, "thorough": {"examples": 8000, "shards": 16}},
        "nontrivial": "Choi matrix with imaginary/antisymmetric component, or rotated basis",
        "min_nontrivial": 30,
    },
    "process_matrix": {
        "strategy": proc_case,
        "check": check_process_matrix,
        "budget": {"quick": {"examples": 320, "shards": 4}, "thorough": {"examples": 6000, "shards": 16}},
        "nontrivial": "process matrix with imaginary/antisymmetric component, or rotated basis",
        "min_nontrivial": 20,
    },
    "truncate_hs": {
        "strategy": trunc_case,
        "check": check_truncate,
        "budget": {"quick": {"examples": 1200, "shards": 4}, "thorough": {"examples": 40000, "shards": 8}},
        "nontrivial": "at least one sub-threshold real or imaginary part, or a super-threshold imaginary part (raises)",
        "min_nontrivial": 50,
    },
}
