"""C12 - Loss values, derivatives and fast paths agree.

Reference model (pure numpy, no quara): the tomography forward model p_j(v) = A_j v + b_j is rebuilt from the
tester operators with the textbook identities Tr(E rho) = <e, s>, Tr(E Phi(rho)) = e^T HS r in an orthonormal
Hermitian basis (and cross-checked once per case against a matrix-level Born-rule evaluation); the losses are the
defining formulas  sum_j (p_j-q_j)^T W_j (p_j-q_j)  and  sum_j w_j sum_x q log(q/p)  (0 log 0 = 0) with their
analytic first and second derivatives.
"""
import math

import numpy as np
from hypothesis import strategies as st

from harness import reps, build, gen
from harness import refmodel as rm

RULE = (
    "A fifth of the tomography configurations live on a hand-rotated orthonormal Hermitian identity-first basis (harness/covar.py). "
    "A configuration = tomography type (qst/povmt/qpt/qmpt) x shape (1q/qutrit) x parametrisation flag x tester sets "
    "(Hypothesis-drawn physical states / POVMs with 2..5 outcomes, all rank classes) x empirical distributions (drawn "
    "integer counts / N, zero counts frequent) x weights (identity / SPD / diagonal / singular-embedded matrices, positive "
    "floats) x delivery route (constructor, setter, real wiring set_from_standard_qtomography_option_data, or "
    "user-supplied non-linear model functions) x implementation (generic / StandardQTomographyBased fast).  The "
    "variable point is the variable of a drawn physical object plus frac*t_max*direction, where t_max is computed with "
    "the reference model so that every model probability stays >= a drawn floor (1e-5..1e-2) for the entropy losses "
    "(class 'within-threshold' = frac>1 is generated, counted and excluded from the formula/derivative oracles), and "
    "reaches well outside the physical set.  Histories (1-4 configurations of the same loss object with fresh data / "
    "another weighting mode) drive the fast-vs-generic and weights-take-effect facets.  Non-trivial = the case is "
    "weighted, or has a zero data entry, or the point is outside the physical set (value/derivative facets: and it is "
    "away from the clipping thresholds so that the oracles were evaluated); histories: a weighted or re-used step."
)
ASSUMPTIONS = [
    "defining formulas: squared error sum_j (p_j-q_j)^T W_j (p_j-q_j) (W_j = I when unweighted); relative entropy "
    "sum_j w_j sum_x q_jx log(q_jx/p_jx) with 0 log 0 = 0 (w_j = 1 when unweighted)",
    "inverse-covariance weights as the code documents them: W[:m-1,:m-1] = inv(C[:m-1,:m-1] + I/N^1.5), zero elsewhere, "
    "C = (diag(q')-q'q'^T)/n with q' = replace_prob_dist(q) and n = N (sample) or N-1 (unbiased)",
    "parametrisations: state drops vec[0]; povm drops the last element; gate drops HS row 0; mprocess drops row 0 of the "
    "last HS (each determined by the trace / identity-sum / TP condition)",
    "schedule order of schedules='all' is product(states, povms), outcome order of Qmpt is (mprocess outcome, povm outcome)",
    "the mode string 'unbiased_inverse_covariance' (accepted by the option, absent from its docstring) is read as "
    "'inverse_unbiased_covariance'",
]
TECHNIQUE = (
    "property-based testing (Hypothesis): generated tomography configurations / data / weights / points vs an independent "
    "numpy forward model + defining formulas + analytic derivatives, central finite differences of the reported value, "
    "differential fast-vs-generic over configuration histories through the real wiring"
)
LEVEL_TEXT = (
    "Generated-input search: every run evaluates thousands of (configuration, data, weights, point) tuples over the four "
    "tomography types, both parametrisations, 2..5 (Qmpt up to 9) outcomes, zero data entries, points inside and outside "
    "the physical set, all accepted weighting modes, first use and re-use of a loss object.  Values, gradients and "
    "Hessians are compared with formulas evaluated by an independent model and with finite differences of the reported "
    "value; fast and generic classes are compared step by step.  It cannot prove absence of defects; it reaches the "
    "outcome counts, weighting modes and re-configuration orders that fixed two-outcome examples miss."
)
LEVEL_NOTE = (
    "Trusted: numpy/LAPACK, harness/refmodel.py, the parametrisation conventions listed in ASSUMPTIONS (cross-checked "
    "per case by a matrix-level Born-rule evaluation of the same point).  Points within the clipping thresholds "
    "(model probability < 1e-6) are generated and counted but only the vector-vs-scalar helper differential looks at them."
)

EPS = 2.2e-16
SE_MODES = ("identity", "custom", "inverse_sample_covariance", "inverse_unbiased_covariance", "unbiased_inverse_covariance")
INVCOV = ("inverse_sample_covariance", "inverse_unbiased_covariance")
INVCOV_ALL = INVCOV + ("unbiased_inverse_covariance",)


# ============================================================================= reference model
def n_out_of(case):
    t = case["tomo"]
    if t == "qst" or t == "qpt":
        return case["povms"][0]["m"]
    if t == "povmt":
        return case["m_est"]
    return case["m_est"] * case["povms"][0]["m"]


def n_sched_of(case):
    t = case["tomo"]
    if t == "qst":
        return len(case["povms"])
    if t == "povmt":
        return len(case["states"])
    return len(case["states"]) * len(case["povms"])


def num_var_of(tomo, d, m_est, flag):
    n = d * d
    if tomo == "qst":
        return n - 1 if flag else n
    if tomo == "povmt":
        return (m_est - 1) * n if flag else m_est * n
    if tomo == "qpt":
        return n * n - n if flag else n * n
    return m_est * n * n - n if flag else m_est * n * n


_ENV = {}


def _env(case):
    """(c_sys, basis): built-in basis, or a hand-rotated orthonormal Hermitian identity-first one (harness/covar.py)."""
    rot = case.get("rot")
    if rot is None:
        return build.c_sys_for(case["shape"]), gen.ref_basis(case["shape"])
    key = (case["shape"], tuple(rot))
    if key not in _ENV:
        from harness import covar

        _ENV.clear()
        c_sys, _o, basis = covar.rotated_env(case["shape"], rot)
        _ENV[key] = (c_sys, basis)
    return _ENV[key]


def tester_vecs(case):
    basis = _env(case)[1]
    s = [np.real(rm.vec(basis, gen.state_matrix(c))) for c in case.get("states", [])]
    p = [[np.real(rm.vec(basis, e)) for e in gen.povm_matrices(c)] for c in case.get("povms", [])]
    return s, p


def affine_model(case):
    """[(A_j, b_j)] per schedule: p_j(v) = A_j v + b_j, from the tester vectors (vector-level HS identities)."""
    shape, tomo, flag = case["shape"], case["tomo"], case["flag"]
    d = gen.dim_of(shape)
    n = d * d
    m_est = case.get("m_est")
    S, P = tester_vecs(case)
    nv = num_var_of(tomo, d, m_est, flag)
    out = []
    if tomo == "qst":
        for es in P:
            E = np.array(es)
            if flag:
                out.append((E[:, 1:].copy(), E[:, 0] / math.sqrt(d)))
            else:
                out.append((E.copy(), np.zeros(len(es))))
    elif tomo == "povmt":
        for r in S:
            A = np.zeros((m_est, nv))
            b = np.zeros(m_est)
            for x in range(m_est):
                if flag and x == m_est - 1:
                    for y in range(m_est - 1):
                        A[x, y * n:(y + 1) * n] = -r
                    b[x] = math.sqrt(d) * r[0]
                else:
                    A[x, x * n:(x + 1) * n] = r
            out.append((A, b))
    elif tomo == "qpt":
        for r in S:
            for es in P:
                A = np.zeros((len(es), nv))
                b = np.zeros(len(es))
                for x, e in enumerate(es):
                    if flag:
                        A[x] = np.outer(e[1:], r).reshape(-1)
                        b[x] = e[0] * r[0]
                    else:
                        A[x] = np.outer(e, r).reshape(-1)
                out.append((A, b))
    elif tomo == "qmpt":
        for r in S:
            for es in P:
                mt = len(es)
                A = np.zeros((m_est * mt, nv))
                b = np.zeros(m_est * mt)
                for x in range(m_est):
                    for y, e in enumerate(es):
                        row = x * mt + y
                        if flag and x == m_est - 1:
                            for x2 in range(m_est - 1):
                                A[row, x2 * n * n: x2 * n * n + n] = -e[0] * r
                            A[row, (m_est - 1) * n * n:] = np.outer(e[1:], r).reshape(-1)
                            b[row] = e[0] * r[0]
                        else:
                            A[row, x * n * n:(x + 1) * n * n] = np.outer(e, r).reshape(-1)
                out.append((A, b))
    else:
        raise ValueError(tomo)
    return out


def stacked_from_var(tomo, flag, d, m_est, var):
    """full real stacked vector of the object a variable vector denotes."""
    n = d * d
    var = np.asarray(var, dtype=float)
    if not flag:
        return var.copy()
    e0 = np.zeros(n)
    e0[0] = 1.0
    if tomo == "qst":
        return np.concatenate([[1 / math.sqrt(d)], var])
    if tomo == "povmt":
        vs = var.reshape(m_est - 1, n)
        last = math.sqrt(d) * e0 - vs.sum(axis=0)
        return np.concatenate([vs.reshape(-1), last])
    if tomo == "qpt":
        return np.concatenate([e0, var])
    # qmpt
    first = var[: (m_est - 1) * n * n].reshape(m_est - 1, n, n)
    rest = var[(m_est - 1) * n * n:].reshape(n - 1, n)
    row0 = e0 - first[:, 0, :].sum(axis=0)
    last = np.vstack([row0[None, :], rest])
    return np.concatenate([first.reshape(-1), last.reshape(-1)])


def var_from_stacked(tomo, flag, d, m_est, x):
    n = d * d
    x = np.asarray(x, dtype=float)
    if not flag:
        return x.copy()
    if tomo == "qst":
        return x[1:].copy()
    if tomo == "povmt":
        return x[: (m_est - 1) * n].copy()
    if tomo == "qpt":
        return x[n:].copy()
    k = (m_est - 1) * n * n
    return np.concatenate([x[:k], x[k + n:]])


def born_matrix_level(case, var):
    """list of p_j evaluated with operators (no vector identities): the self-check of affine_model."""
    shape, tomo, flag = case["shape"], case["tomo"], case["flag"]
    d = gen.dim_of(shape)
    n = d * d
    basis = _env(case)[1]
    m_est = case.get("m_est")
    x = stacked_from_var(tomo, flag, d, m_est, var)
    rhos = [gen.state_matrix(c) for c in case.get("states", [])]
    povms = [gen.povm_matrices(c) for c in case.get("povms", [])]
    out = []
    if tomo == "qst":
        rho = rm.unvec(basis, x)
        for es in povms:
            out.append(np.array([np.real(np.trace(e @ rho)) for e in es]))
    elif tomo == "povmt":
        es = [rm.unvec(basis, x[i * n:(i + 1) * n]) for i in range(m_est)]
        for rho in rhos:
            out.append(np.array([np.real(np.trace(e @ rho)) for e in es]))
    elif tomo == "qpt":
        hs = x.reshape(n, n)
        for rho in rhos:
            img = rm.apply_hs(basis, hs, rho)
            for es in povms:
                out.append(np.array([np.real(np.trace(e @ img)) for e in es]))
    else:
        hss = [x[i * n * n:(i + 1) * n * n].reshape(n, n) for i in range(m_est)]
        for rho in rhos:
            imgs = [rm.apply_hs(basis, hs, rho) for hs in hss]
            for es in povms:
                out.append(np.array([np.real(np.trace(e @ img)) for img in imgs for e in es]))
    return out


def outside_physical(case, var):
    """(is_outside, min eigenvalue like quantity) of the object a variable denotes (refmodel only)."""
    shape, tomo, flag = case["shape"], case["tomo"], case["flag"]
    d = gen.dim_of(shape)
    n = d * d
    basis = _env(case)[1]
    m_est = case.get("m_est")
    x = stacked_from_var(tomo, flag, d, m_est, var)
    if tomo == "qst":
        rho = rm.unvec(basis, x)
        lo = rm.min_eig(rho)
        eq = abs(np.trace(rho) - 1)
    elif tomo == "povmt":
        es = [rm.unvec(basis, x[i * n:(i + 1) * n]) for i in range(m_est)]
        lo = min(rm.min_eig(e) for e in es)
        eq = float(np.max(np.abs(sum(es) - np.eye(d))))
    else:
        mm = 1 if tomo == "qpt" else m_est
        hss = [x[i * n * n:(i + 1) * n * n].reshape(n, n) for i in range(mm)]
        lo = min(rm.min_eig(rm.choi_from_hs(basis, hs)) for hs in hss)
        e0 = np.zeros(n)
        e0[0] = 1
        eq = float(np.max(np.abs(sum(hss)[0] - e0)))
    return bool(lo < -1e-9 or eq > 1e-9), float(lo)


# ----------------------------------------------------------------------------- weights and data
def data_from_counts(counts_list):
    out = []
    for cs in counts_list:
        cs = [int(c) for c in cs]
        if sum(cs) < 2:
            cs = [cs[0] + 2] + cs[1:]
        n = int(sum(cs))
        out.append((n, np.array(cs, dtype=np.float64) / n))
    return out


def ref_replace_prob_dist(q, eps=1e-8):
    q = np.asarray(q, dtype=float)
    small = q < eps
    c = int(np.count_nonzero(small))
    m = q.size
    out = np.where(small, eps, q - (eps * c) / (m - c) if c < m else q)
    return out


def ref_cov(q, n):
    q = np.asarray(q, dtype=float)
    return (np.diag(q) - np.outer(q, q)) / n


def ref_invcov_weight(num, q, unbiased):
    qq = ref_replace_prob_dist(q)
    c = ref_cov(qq, num - 1 if unbiased else num)
    m = q.size
    w = np.zeros((m, m))
    w[: m - 1, : m - 1] = np.linalg.inv(c[: m - 1, : m - 1] + np.eye(m - 1) / (num ** 1.5))
    return w


def se_weight_from_spec(spec, m, j):
    """symmetric float64 m x m matrix for schedule j from a JSON spec {kind, scale, raw}."""
    kind = spec["kind"]
    raw = np.asarray(spec["raw"], dtype=float)
    need = m * m
    off = (j * need) % max(1, raw.size)
    r = np.resize(np.roll(raw, -off), need).reshape(m, m)
    r = np.round(r * 2.0 ** 20) / 2.0 ** 20
    s = float(spec["scale"])
    if kind == "diag":
        w = np.diag(s * (np.abs(np.diag(r)) + 0.05))
    elif kind == "singular":  # last outcome unweighted, like the inverse-covariance embedding
        rr = r[: m - 1, : m - 1]
        w = np.zeros((m, m))
        w[: m - 1, : m - 1] = s * (rr @ rr.T + 0.1 * np.eye(m - 1))
    else:  # spd
        w = s * (r @ r.T + 0.1 * np.eye(m))
    w = (w + w.T) / 2
    return np.ascontiguousarray(w, dtype=np.float64)


def re_weight_from_spec(spec, j):
    raw = np.asarray(spec["raw"], dtype=float)
    v = abs(float(raw[j % raw.size]))
    v = round(v * 2.0 ** 20) / 2.0 ** 20
    return float(spec["scale"]) * (v + 0.05)


# ----------------------------------------------------------------------------- defining formulas
def ref_se(ps, Js, Hs, qs, Ws):
    """value, gradient, Hessian, scales of sum_j d^T W d.  Js[j]: (m,n); Hs[j]: (m,n,n) or None."""
    nvar = Js[0].shape[1]
    val = 0.0
    g = np.zeros(nvar)
    h = np.zeros((nvar, nvar))
    s_abs = 0.0
    g_abs = np.zeros(nvar)
    h_abs = 0.0
    wd_max = 0.0
    for j, (p, J, q) in enumerate(zip(ps, Js, qs)):
        W = np.eye(p.size) if Ws is None else Ws[j]
        dvec = p - q
        wd = W @ dvec
        val += float(dvec @ wd)
        s_abs += float(np.abs(dvec) @ np.abs(W) @ np.abs(dvec))
        g += 2 * J.T @ wd
        g_abs += 2 * np.abs(J).T @ (np.abs(W) @ np.abs(dvec))
        h += 2 * J.T @ W @ J
        h_abs = max(h_abs, float(np.max(2 * np.abs(J).T @ np.abs(W) @ np.abs(J))) if J.size else 0.0)
        if Hs is not None and Hs[j] is not None:
            h += 2 * np.einsum("x,xab->ab", wd, Hs[j])
            h_abs += float(np.max(2 * np.einsum("x,xab->ab", np.abs(W) @ np.abs(dvec), np.abs(Hs[j]))))
        wd_max = max(wd_max, float(np.max(np.abs(W))) * (1e-3 + float(np.max(np.abs(dvec)))))
    return {"val": val, "grad": g, "hess": h, "s_abs": s_abs, "g_abs": float(np.max(g_abs)) if nvar else 0.0,
            "h_abs": h_abs, "cond": 0.0, "wd": wd_max}


def ref_re(ps, Js, Hs, qs, ws, pabs):
    nvar = Js[0].shape[1]
    val = 0.0
    g = np.zeros(nvar)
    h = np.zeros((nvar, nvar))
    s_abs = 0.0
    g_abs = np.zeros(nvar)
    h_abs = 0.0
    cond = 0.0
    for j, (p, J, q) in enumerate(zip(ps, Js, qs)):
        w = 1.0 if ws is None else ws[j]
        pos = q > 0
        if not np.any(pos):
            continue
        qq, pp, JJ = q[pos], p[pos], J[pos]
        terms = qq * np.log(qq / pp)
        val += w * float(np.sum(terms))
        s_abs += w * float(np.sum(np.abs(terms)))
        co = qq / pp
        g += -w * JJ.T @ co
        g_abs += w * np.abs(JJ).T @ co
        h += w * (JJ.T * (qq / pp ** 2)) @ JJ
        h_abs += w * float(np.max((np.abs(JJ).T * (qq / pp ** 2)) @ np.abs(JJ))) if JJ.size else 0.0
        if Hs is not None and Hs[j] is not None:
            h += -w * np.einsum("x,xab->ab", co, Hs[j][pos])
            h_abs += w * float(np.max(np.einsum("x,xab->ab", co, np.abs(Hs[j][pos]))))
        cond = max(cond, float(np.max(pabs[j][pos] / pp)))
    return {"val": val, "grad": g, "hess": h, "s_abs": s_abs, "g_abs": float(np.max(g_abs)) if nvar else 0.0,
            "h_abs": h_abs, "cond": cond, "wd": 0.0}


def tolerances(ref, weighted_sum_qw=1.0):
    """absolute tolerances (algebraic kind) for value / gradient / Hessian against the reference."""
    rel_p = 1e-13 * ref["cond"]  # relative error of a model probability (cancellation in A v + b)
    tv = 1e-11 * (1 + ref["s_abs"]) + 1e-13 * ref["wd"] + 10 * rel_p * weighted_sum_qw
    tg = (1e-10 + 10 * rel_p) * (1 + ref["g_abs"]) + 1e-12 * ref["wd"]
    th = (1e-10 + 20 * rel_p) * (1 + ref["h_abs"])
    return tv, tg, th


# ============================================================================= quara side
def loss_classes(loss, impl):
    if loss == "se":
        from quara.loss_function.weighted_probability_based_squared_error import (
            WeightedProbabilityBasedSquaredError as G, WeightedProbabilityBasedSquaredErrorOption as GO)
        from quara.loss_function.standard_qtomography_based_weighted_probability_based_squared_error import (
            StandardQTomographyBasedWeightedProbabilityBasedSquaredError as F,
            StandardQTomographyBasedWeightedProbabilityBasedSquaredErrorOption as FO)
    else:
        from quara.loss_function.weighted_relative_entropy import (
            WeightedRelativeEntropy as G, WeightedRelativeEntropyOption as GO)
        from quara.loss_function.standard_qtomography_based_weighted_relative_entropy import (
            StandardQTomographyBasedWeightedRelativeEntropy as F,
            StandardQTomographyBasedWeightedRelativeEntropyOption as FO)
    return (G, GO) if impl == "generic" else (F, FO)


def make_qt(case):
    from quara.protocol.qtomography.standard.standard_povmt import StandardPovmt
    from quara.protocol.qtomography.standard.standard_qmpt import StandardQmpt
    from quara.protocol.qtomography.standard.standard_qpt import StandardQpt
    from quara.protocol.qtomography.standard.standard_qst import StandardQst

    c_sys, basis = _env(case)
    states = [build.make(c_sys, "state", gen.stacked_reference(c, basis)) for c in case.get("states", [])]
    povms = [build.make(c_sys, "povm", gen.stacked_reference(c, basis), m=c.get("m")) for c in case.get("povms", [])]
    t, flag = case["tomo"], case["flag"]
    if t == "qst":
        return StandardQst(povms, on_para_eq_constraint=flag)
    if t == "povmt":
        return StandardPovmt(states, num_outcomes=case["m_est"], on_para_eq_constraint=flag)
    if t == "qpt":
        return StandardQpt(states, povms, on_para_eq_constraint=flag)
    return StandardQmpt(states, povms, num_outcomes=case["m_est"], on_para_eq_constraint=flag)


def make_option(ocls, mode, weights, implicit_mode=False):
    if mode == "custom":
        if implicit_mode:
            return ocls(weights=weights)
        return ocls(mode_weight="custom", weights=weights)
    return ocls(mode_weight=mode)


# ============================================================================= point construction
def base_var(case):
    shape, tomo, flag = case["shape"], case["tomo"], case["flag"]
    d = gen.dim_of(shape)
    basis = _env(case)[1]
    x = gen.stacked_reference(case["true"], basis)
    return var_from_stacked(tomo, flag, d, case.get("m_est"), x)


def origin_var(case):
    """variable of the maximally mixed object of the estimated type (all model probabilities strictly positive)."""
    shape, tomo, flag = case["shape"], case["tomo"], case["flag"]
    d = gen.dim_of(shape)
    n = d * d
    m = case.get("m_est")
    e0 = np.zeros(n)
    e0[0] = 1.0
    dep = np.zeros((n, n))
    dep[0, 0] = 1.0
    if tomo == "qst":
        x = e0 / math.sqrt(d)
    elif tomo == "povmt":
        x = np.concatenate([math.sqrt(d) * e0 / m] * m)
    elif tomo == "qpt":
        x = dep.reshape(-1)
    else:
        x = np.concatenate([dep.reshape(-1) / m] * m)
    return var_from_stacked(tomo, flag, d, m, x)


def point_of(case, model, need_positive):
    """(var, ps, within_threshold).  var = base + frac * t_max * dir; t_max keeps p >= floor when need_positive.

    When the base object itself has a model probability below 2*floor (aligned pure states / projective testers, which
    Hypothesis' simple draws produce often) and positivity is needed, 20 % of the maximally mixed object is mixed in."""
    v0 = base_var(case)
    if need_positive:
        p0 = [A @ v0 + b for A, b in model]
        if min(float(np.min(p)) for p in p0) < 2 * float(case["floor"]):
            v0 = 0.8 * v0 + 0.2 * origin_var(case)
    nv = v0.size
    u = np.resize(np.asarray(case["dir"], dtype=float), nv)
    u = np.round(u * 2.0 ** 20) / 2.0 ** 20
    nu = float(np.linalg.norm(u))
    u = u / nu if nu > 1e-6 else np.eye(nv)[0]
    frac = float(case["frac"])
    p0 = [A @ v0 + b for A, b in model]
    if need_positive:
        floor = float(case["floor"])
        tmax = float(case["tscale"])
        for (A, b), p in zip(model, p0):
            du = A @ u
            for pi, di in zip(p, du):
                if di < -1e-14:
                    tmax = min(tmax, (pi - floor) / (-di))
        tmax = max(tmax, 0.0)
        t = frac * tmax
    else:
        t = frac * float(case["tscale"])
    var = v0 + t * u
    ps = [A @ var + b for A, b in model]
    return np.ascontiguousarray(var, dtype=np.float64), ps


def within_threshold(ps, qs):
    """a model probability below 1e-6 at an outcome that carries data (q > 0): the entropy clipping is active there.
    Outcomes with q = 0 contribute 0 log 0 = 0 whatever p is (identically-zero tester elements are generated often)."""
    return any(bool(np.any(p[q > 0] < 1e-6)) for p, q in zip(ps, qs))


def selfcheck_model(case, var, ps):
    """harness self-check (not an oracle on quara): vector-level model == matrix-level Born rule."""
    pm = born_matrix_level(case, var)
    for a, b in zip(ps, pm):
        if a.shape != b.shape or float(np.max(np.abs(a - b))) > 1e-9 * (1 + float(np.max(np.abs(a)))):
            raise AssertionError(f"reference model self-check failed: {a} vs {b}")


# ============================================================================= strategies
COUNTS = st.one_of(
    st.sampled_from([0, 0, 0, 1, 2, 3, 7, 10, 50, 100, 1000]),
    st.integers(1, 20),
    st.integers(1, 5000),
)


@st.composite
def tomo_config(draw, tier, tomos=("qst", "povmt", "qpt", "qmpt"), small=False):
    tomo = draw(st.sampled_from(list(tomos)))
    if tomo in ("qst", "povmt"):
        shape = draw(st.sampled_from(["1q", "qutrit"]))
    elif tomo == "qpt":
        shape = "1q" if small else draw(st.sampled_from(["1q", "1q", "1q", "qutrit"] if tier == "quick" else ["1q", "qutrit"]))
    else:
        shape = "1q"
    flag = draw(st.booleans())
    case = {"tomo": tomo, "shape": shape, "flag": flag}
    d = gen.dim_of(shape)
    if tomo in ("qst", "qpt", "qmpt"):
        mt = draw(st.integers(2, 5)) if tomo != "qmpt" else draw(st.sampled_from([2, 2, 3]))
        npov = draw(st.integers(1, 3)) if tomo == "qst" else draw(st.integers(1, 2))
        case["povms"] = [draw(gen.povm_case((shape,), (mt, mt))) for _ in range(npov)]
    if tomo in ("povmt", "qpt", "qmpt"):
        ns = draw(st.integers(1, 4)) if tomo == "povmt" else draw(st.integers(1, 3))
        case["states"] = [draw(gen.state_case((shape,))) for _ in range(ns)]
    if tomo == "qst":
        case["true"] = draw(gen.state_case((shape,)))
    elif tomo == "povmt":
        m = draw(st.integers(2, 5))
        case["m_est"] = m
        case["true"] = draw(gen.povm_case((shape,), (m, m)))
    elif tomo == "qpt":
        case["true"] = draw(gen.gate_case((shape,), max_rank=4))
    else:
        m = draw(st.sampled_from([2, 2, 3]))
        case["m_est"] = m
        case["true"] = draw(gen.mprocess_case((shape,), (m, m), max_per=1))
    nv = num_var_of(tomo, d, case.get("m_est"), flag)
    case["dir"] = draw(gen.raw(nv))
    case["frac"] = draw(st.one_of(st.just(0.0), st.floats(0.02, 0.98), st.floats(0.02, 0.98), st.floats(0.5, 0.999),
                                  st.floats(0.02, 0.98), st.floats(0.5, 0.999), st.floats(0.9, 0.999),
                                  st.floats(1.01, 1.5)))
    case["floor"] = draw(st.sampled_from([1e-5, 1e-4, 1e-3, 1e-2, 5e-2]))
    case["tscale"] = draw(st.sampled_from([0.05, 0.3, 1.0, 3.0]))
    if draw(st.integers(0, 4)) == 0:
        # the same tomography over a hand-rotated (orthonormal, Hermitian, identity-first) basis: harness/covar.py
        case["rot"] = draw(gen.raw(64))
    return case


def counts_st(n_sched, n_out):
    return st.lists(st.lists(COUNTS, min_size=n_out, max_size=n_out), min_size=n_sched, max_size=n_sched)


@st.composite
def weight_spec(draw, loss, n_raw):
    if loss == "se":
        return {"kind": draw(st.sampled_from(["spd", "spd", "diag", "singular"])),
                "scale": draw(st.sampled_from([0.1, 1.0, 1.0, 10.0, 1e3])), "raw": draw(gen.raw(n_raw))}
    return {"kind": "float", "scale": draw(st.sampled_from([0.1, 1.0, 1.0, 10.0])), "raw": draw(gen.raw(n_raw))}


@st.composite
def formula_case(draw, tier, want="value"):
    """single configuration for value_formula / gradient_fd / hessian_fd."""
    loss = draw(st.sampled_from(["se", "re"]))
    route = draw(st.sampled_from(["ctor", "ctor", "setter", "setter", "wiring_identity", "funcs", "funcs"]))
    if route == "funcs":
        J = draw(st.integers(1, 3))
        m = draw(st.integers(2, 5))
        n = draw(st.integers(1, 5))
        case = {"route": "funcs", "loss": loss, "impl": "generic", "J": J, "m": m, "n": n,
                "b_raw": draw(gen.raw(J * m)), "A_raw": draw(gen.raw(J * m * n)), "C_raw": draw(gen.raw(J * m * n * n)),
                "v": draw(gen.raw(n)), "counts": draw(counts_st(J, m)), "curved": draw(st.booleans())}
        case["weights"] = draw(st.one_of(weight_spec(loss, max(J, m * m)), weight_spec(loss, max(J, m * m)), st.none()))
        case["fd_cols"] = draw(st.lists(st.integers(0, 4), min_size=2, max_size=2))
        return case
    small = want == "hessian"
    case = draw(tomo_config(tier, small=small))
    case["loss"] = loss
    case["route"] = route
    case["impl"] = "generic" if want == "hessian" else draw(st.sampled_from(["fast", "generic", "fast"]))
    ns, no = n_sched_of(case), n_out_of(case)
    case["counts"] = draw(counts_st(ns, no))
    if route == "wiring_identity":
        case["weights"] = None
    else:
        case["weights"] = draw(st.one_of(weight_spec(loss, max(ns, no * no)), weight_spec(loss, max(ns, no * no)),
                                         weight_spec(loss, max(ns, no * no)), st.none()))
    case["fd_cols"] = draw(st.lists(st.integers(0, 200), min_size=2, max_size=2))
    return case


@st.composite
def history_case(draw, tier):
    case = draw(tomo_config(tier, small=True))
    loss = draw(st.sampled_from(["se", "se", "re"]))
    case["loss"] = loss
    ns, no = n_sched_of(case), n_out_of(case)
    nsteps = draw(st.sampled_from([2, 1, 2, 3, 3, 4]))
    steps = []
    for i in range(nsteps):
        if i > 0 and draw(st.integers(0, 3)) == 0:
            prev = steps[-1]
            stp = {"mode": prev["mode"], "weights": prev["weights"], "implicit": prev["implicit"],
                   "counts": prev["counts"] if draw(st.booleans()) else draw(counts_st(ns, no))}
        else:
            if loss == "se":
                mode = draw(st.sampled_from(("custom", "identity") + SE_MODES))
            else:
                mode = draw(st.sampled_from(["custom", "identity"]))
            stp = {"mode": mode, "weights": draw(weight_spec(loss, max(ns, no * no))) if mode == "custom" else None,
                   "implicit": draw(st.booleans()), "counts": draw(counts_st(ns, no))}
        # later steps may go through the public setters (set_weight_matrices / set_weights + set_prob_dists_q) instead of a
        # full re-configuration
        if i > 0 and stp["mode"] in ("custom", "identity"):
            stp["via_setter"] = draw(st.booleans())
        steps.append(stp)
    case["steps"] = steps
    # the loss object may have been configured for ANOTHER tomography (same sizes, other testers) before: everything
    # it reports afterwards must be about the current one
    if draw(st.integers(0, 2)) == 0:
        warm = {}
        if "povms" in case:
            warm["povms"] = [draw(gen.povm_case((case["shape"],), (c["m"], c["m"]))) for c in case["povms"]]
        if "states" in case:
            warm["states"] = [draw(gen.state_case((case["shape"],))) for _ in case["states"]]
        warm["counts"] = draw(counts_st(ns, no))
        case["warmup"] = warm
    # a caller that keeps ONE weights list and edits it in place between the configurations (re-weighting loop)
    case["shared_weights"] = draw(st.booleans())
    return case


# ============================================================================= building a configured loss
def funcs_model(case):
    """non-linear model p_jx(v) = b + A v + 1/2 v^T C v scaled so that p stays >= 0.3 b_min; returns callables."""
    J, m, n = case["J"], case["m"], case["n"]
    q = lambda a: np.round(np.asarray(a, dtype=float) * 2.0 ** 20) / 2.0 ** 20
    b = (np.abs(q(case["b_raw"])).reshape(J, m) + 0.05)
    b = b / b.sum(axis=1, keepdims=True)
    A = q(case["A_raw"]).reshape(J, m, n)
    C = q(case["C_raw"]).reshape(J, m, n, n)
    C = (C + C.transpose(0, 1, 3, 2)) / 2
    if not case.get("curved", True):
        C = np.zeros_like(C)
    v = q(case["v"])
    vmax = max(1.0, float(np.max(np.abs(v))))
    big = float(np.max(np.sum(np.abs(A), axis=2) * vmax + 0.5 * np.sum(np.abs(C), axis=(2, 3)) * vmax ** 2))
    s = 0.7 * float(np.min(b)) / (big + 1e-12)
    A = A * s
    C = C * s

    def p(j, var):
        return b[j] + A[j] @ var + 0.5 * np.einsum("a,xab,b->x", var, C[j], var)

    def jac(j, var):
        return A[j] + np.einsum("xab,b->xa", C[j], var)

    def hes(j, var):
        return C[j]

    return {"b": b, "A": A, "C": C, "v": np.ascontiguousarray(v, dtype=np.float64), "p": p, "jac": jac, "hes": hes}


def weights_for(loss, spec, n_sched, n_out):
    if spec is None:
        return None
    if loss == "se":
        return [se_weight_from_spec(spec, n_out, j) for j in range(n_sched)]
    return [re_weight_from_spec(spec, j) for j in range(n_sched)]


def configure_single(case, qt, qs_data, weights, fm=None):
    """configured quara loss for a formula_case (routes ctor / setter / wiring_identity / funcs)."""
    loss, impl, route = case["loss"], case["impl"], case["route"]
    cls, ocls = loss_classes(loss, impl)
    qs = [q for _, q in qs_data]
    wkey = "weight_matrices" if loss == "se" else "weights"
    if route == "funcs":
        J = case["J"]
        fp = [(lambda var, j=j: fm["p"](j, var)) for j in range(J)]
        fg = [(lambda alpha, var, j=j: np.ascontiguousarray(fm["jac"](j, var)[:, alpha])) for j in range(J)]
        fh = [(lambda alpha, beta, var, j=j: np.ascontiguousarray(fm["hes"](j, var)[:, alpha, beta])) for j in range(J)]
        kw = {wkey: weights}
        return cls(case["n"], fp, fg, fh, qs, **kw)
    nv = qt.num_variables
    if route == "wiring_identity":
        L = cls(nv)
        L.set_from_standard_qtomography_option_data(qt, make_option(ocls, "identity", None), qs_data, True,
                                                    impl == "generic")
        return L
    if route == "ctor":
        if impl == "generic":
            L = cls(nv, prob_dists_q=qs, **{wkey: weights})
        else:
            L = cls(nv, prob_dists_q=qs, **{wkey: weights})
    else:  # setter: empty object, weights through the public setter, then data, then model (the wiring's order)
        L = cls(nv)
        if loss == "se":
            L.set_weight_matrices(weights)
        else:
            L.set_weights(weights)
        L.set_prob_dists_q(qs)
    L.set_func_prob_dists_from_standard_qt(qt)
    L.set_func_gradient_prob_dists_from_standard_qt(qt)
    if impl == "generic":
        L.set_func_hessian_prob_dists_from_standard_qt(qt)
    return L


def prepare_single(case, ctx):
    """common part of the value / gradient / Hessian facets: reference quantities + configured quara loss."""
    loss = case["loss"]
    data = data_from_counts(case["counts"])
    qs = [q for _, q in data]
    has_zero = any(bool(np.any(q == 0)) for q in qs)
    if case["route"] == "funcs":
        fm = funcs_model(case)
        var = fm["v"]
        J = case["J"]
        ps = [fm["p"](j, var) for j in range(J)]
        Js = [fm["jac"](j, var) for j in range(J)]
        Hs = [fm["hes"](j, var) for j in range(J)]
        pabs = [np.abs(fm["b"][j]) + np.abs(fm["A"][j]) @ np.abs(var)
                + 0.5 * np.einsum("a,xab,b->x", np.abs(var), np.abs(fm["C"][j]), np.abs(var)) for j in range(J)]
        within = within_threshold(ps, qs)
        outside = False
        qt = None
        ns, no = J, case["m"]
        ctx.label("route:funcs", f"outcomes:{no}", "curved" if case.get("curved") else "affine")
    else:
        fm = None
        model = affine_model(case)
        var, ps = point_of(case, model, need_positive=(loss == "re"))
        within = within_threshold(ps, qs)
        selfcheck_model(case, var, ps)
        Js = [A for A, _ in model]
        Hs = None
        pabs = [np.abs(A) @ np.abs(var) + np.abs(b) for A, b in model]
        outside, _ = outside_physical(case, var)
        qt = make_qt(case)
        ns, no = n_sched_of(case), n_out_of(case)
        ctx.label(case["tomo"], case["shape"], f"flag:{case['flag']}", f"outcomes:{no}", "route:" + case["route"],
                  "outside-physical" if outside else "inside-physical")
    weights = weights_for(loss, case["weights"], ns, no)
    ctx.label("loss:" + loss, "impl:" + case["impl"], "weighted" if weights is not None else "unweighted",
              ("wkind:" + case["weights"]["kind"]) if case["weights"] else None,
              "data:zero-entry" if has_zero else "data:positive")
    L = configure_single(case, qt, data, weights, fm)
    with np.errstate(all="ignore"):  # the within-threshold class evaluates log / division at p <= 0: discarded below
        if loss == "se":
            ref = ref_se(ps, Js, Hs, qs, weights)
            wq = 0.0
        else:
            ref = ref_re(ps, Js, Hs, qs, weights, pabs)
            wq = sum((1.0 if weights is None else weights[j]) * float(np.sum(q)) for j, q in enumerate(qs))
    skip = loss == "re" and within
    if skip:
        ctx.label("within-threshold")
        ctx.skip("model probability below 1e-6 (clipping region)")
    return {"L": L, "var": var, "ref": ref, "tols": tolerances(ref, wq), "skip": skip, "outside": outside,
            "weighted": weights is not None, "has_zero": has_zero, "ps": ps, "Js": Js, "qs": qs, "weights": weights,
            "fm": fm}


def _scalar(x):
    a = np.asarray(x)
    if a.size != 1:
        return a
    return float(a.reshape(-1)[0])


def check_value(case, ctx):
    pr = prepare_single(case, ctx)
    L, var, ref = pr["L"], pr["var"], pr["ref"]
    ctx.check(L.on_value is True, "on_value_flag", "configured loss reports on_value False")
    if pr["skip"]:
        # still must not crash in the clipping region
        v = L.value(var)
        ctx.check(np.isfinite(_scalar(v)), "value_finite_in_clipping_region", f"{v}")
        return
    tv, _, _ = pr["tols"]
    v = L.value(var)
    ctx.close(_scalar(v), ref["val"], tv, f"value_formula:{case['loss']}:{case['impl']}",
              f"route={case['route']} value={v} formula={ref['val']}")
    ctx.nontrivial(pr["weighted"] or pr["has_zero"] or pr["outside"])


def _fd_tools(L, var, col, h):
    e = np.zeros(var.size)
    e[col] = 1.0
    f = lambda s: _scalar(L.value(np.ascontiguousarray(var + s * e)))
    d1 = (f(h) - f(-h)) / (2 * h)
    d2 = (f(2 * h) - f(-2 * h)) / (4 * h)
    return d1, d2


def fd_step(case, pr):
    """finite-difference step: small against the distance to the clipping region (entropy), moderate otherwise."""
    if case["loss"] == "se":
        return 1e-3
    pmin = min(float(np.min(p[q > 0])) if np.any(q > 0) else 1.0 for p, q in zip(pr["ps"], pr["qs"]))
    amax = max(float(np.max(np.abs(J))) for J in pr["Js"]) + 1e-12
    return min(1e-3, 1e-3 * pmin / amax)


def check_gradient(case, ctx):
    pr = prepare_single(case, ctx)
    L, var, ref = pr["L"], pr["var"], pr["ref"]
    ctx.check(L.on_gradient is True, "on_gradient_flag", "configured loss reports on_gradient False")
    if pr["skip"]:
        g = np.asarray(L.gradient(var))
        ctx.check(g.shape == (var.size,) and bool(np.all(np.isfinite(g))), "gradient_finite_in_clipping_region")
        return
    _, tg, _ = pr["tols"]
    g = np.asarray(L.gradient(var), dtype=float)
    ctx.close(g, ref["grad"], tg, f"gradient_analytic:{case['loss']}:{case['impl']}", f"route={case['route']}")
    # the reported gradient is the derivative of the reported value (central differences, Richardson error estimate)
    h = fd_step(case, pr)
    pmin_ok = case["loss"] == "se" or h >= 1e-7
    if pmin_ok and g.shape == (var.size,):
        for c in case["fd_cols"]:
            col = c % var.size
            d1, d2 = _fd_tools(L, var, col, h)
            tol = 2 * abs(d1 - d2) + 1e3 * EPS * (1 + ref["s_abs"]) / h + 1e-7 * (1 + ref["g_abs"])
            ctx.close(g[col], d1, tol, f"gradient_fd:{case['loss']}:{case['impl']}", f"col={col} h={h:.1e}")
        ctx.label("fd:evaluated")
    else:
        ctx.label("fd:skipped-small-p")
    if case["loss"] == "se":
        # the same point handed over with an integer dtype (an integer-valued variable vector such as the identity gate's)
        # is the same point: value and gradient agree with the float64 representation
        vi = np.round(2.0 * var).astype(np.int64)
        vf = vi.astype(np.float64)
        with np.errstate(all="ignore"):
            gi, gf = np.asarray(L.gradient(vi), dtype=float), np.asarray(L.gradient(vf), dtype=float)
            li, lf = float(_scalar(L.value(vi))), float(_scalar(L.value(vf)))
        ctx.close(gi, gf, 1e-12 * (1 + float(np.max(np.abs(gf), initial=0.0))), f"gradient_integer_dtype_point:{case['loss']}:{case['impl']}")
        ctx.close(li, lf, 1e-12 * (1 + abs(lf)), f"value_integer_dtype_point:{case['loss']}:{case['impl']}")
    ctx.nontrivial((pr["weighted"] or pr["has_zero"] or pr["outside"]) and float(np.max(np.abs(ref["grad"]))) > 1e-9)


def check_hessian(case, ctx):
    pr = prepare_single(case, ctx)
    L, var, ref = pr["L"], pr["var"], pr["ref"]
    ctx.check(L.on_hessian is True, "on_hessian_flag", "configured loss reports on_hessian False")
    if pr["skip"]:
        return
    _, tg, th = pr["tols"]
    H = np.asarray(L.hessian(var), dtype=float)
    n = var.size
    ctx.close(H, ref["hess"], th, f"hessian_analytic:{case['loss']}", f"route={case['route']}")
    if H.shape == (n, n):
        ctx.close(H, H.T, th, f"hessian_symmetric:{case['loss']}")
        # Hessian column = derivative of the reported gradient
        h = 1e-3 if case["loss"] == "se" else fd_step(case, pr)
        if case["loss"] == "se" or h >= 1e-7:
            for c in case["fd_cols"][:1]:
                col = c % n
                e = np.zeros(n)
                e[col] = 1.0
                gp = lambda s: np.asarray(L.gradient(np.ascontiguousarray(var + s * e)), dtype=float)
                d1 = (gp(h) - gp(-h)) / (2 * h)
                d2 = (gp(2 * h) - gp(-2 * h)) / (4 * h)
                tol = 2 * float(np.max(np.abs(d1 - d2))) + 1e3 * EPS * (1 + ref["g_abs"]) / h + 1e-7 * (1 + ref["h_abs"])
                ctx.close(H[:, col], d1, tol, f"hessian_fd:{case['loss']}", f"col={col} h={h:.1e}")
            ctx.label("fd:evaluated")
        else:
            ctx.label("fd:skipped-small-p")
    ctx.nontrivial(pr["weighted"] or pr["has_zero"] or pr["outside"])


# ============================================================================= histories (wiring)
def step_intended_weights(loss, step, data, n_sched, n_out):
    """the weights the step's mode *means* (None = unweighted)."""
    mode = step["mode"]
    if mode == "identity":
        return None
    if mode == "custom":
        return weights_for(loss, step["weights"], n_sched, n_out)
    unbiased = mode != "inverse_sample_covariance"
    return [ref_invcov_weight(num, q, unbiased) for num, q in data]


def step_key(step):
    """what determines the stored weights after the step (data only for the data-dependent modes)."""
    mode = step["mode"]
    if mode == "identity":
        return ("identity",)
    if mode == "custom":
        return ("custom", repr(step["weights"]))
    return (mode, repr(step["counts"]))


def weights_equal(a, b, tol_rel=1e-9):
    if a is None or b is None:
        return a is None and b is None
    if len(a) != len(b):
        return False
    for x, y in zip(a, b):
        x, y = np.asarray(x, dtype=float), np.asarray(y, dtype=float)
        if x.shape != y.shape:
            return False
        if float(np.max(np.abs(x - y))) > tol_rel * (1e-300 + float(np.max(np.abs(y)))):
            return False
    return True


def is_identity_weights(w, loss):
    if w is None:
        return True
    try:
        if loss == "se":
            return all(np.array_equal(np.asarray(x), np.eye(np.asarray(x).shape[0])) for x in w)
        return all(float(x) == 1.0 for x in w)
    except Exception:
        return False


def run_history(case, ctx, impls):
    """generator over steps: yields dict with per-impl loss objects configured through the real wiring."""
    loss = case["loss"]
    model = affine_model(case)
    need_pos = loss == "re"
    var, ps = point_of(case, model, need_pos)
    selfcheck_model(case, var, ps)
    Js = [A for A, _ in model]
    pabs = [np.abs(A) @ np.abs(var) + np.abs(b) for A, b in model]
    qt = make_qt(case)
    ns, no = n_sched_of(case), n_out_of(case)
    outside, _ = outside_physical(case, var)
    ctx.label(case["tomo"], case["shape"], f"flag:{case['flag']}", f"outcomes:{no}", "loss:" + loss,
              f"steps:{len(case['steps'])}", "outside-physical" if outside else "inside-physical")
    objs = {}
    for impl in impls:
        cls, ocls = loss_classes(loss, impl)
        objs[impl] = (cls(qt.num_variables), ocls)
    if case.get("warmup"):
        alt = dict(case)
        alt.update({k: v for k, v in case["warmup"].items() if k in ("povms", "states")})
        qt_alt = make_qt(alt)
        data0 = data_from_counts(case["warmup"]["counts"])
        for impl in impls:
            L, ocls = objs[impl]
            L.set_from_standard_qtomography_option_data(qt_alt, make_option(ocls, "identity", None), data0, True, impl == "generic")
        ctx.label("warmup:other-tomography")
    prev_key = None
    shared_lists = {}
    for i, step in enumerate(case["steps"]):
        data = data_from_counts(step["counts"])
        qs = [q for _, q in data]
        intended = step_intended_weights(loss, step, data, ns, no)
        skip = need_pos and within_threshold(ps, qs)
        if skip:
            ctx.label("within-threshold")
            ctx.skip("model probability below 1e-6 at an outcome with data (clipping region)")
        key = step_key(step)
        if prev_key is None:
            klass = "fresh_identity" if step["mode"] == "identity" else "changed"
        else:
            klass = "repeat" if key == prev_key else "changed"
        prev_key = key
        ctx.label("mode:" + step["mode"], "step:" + klass)
        ok = True
        for impl in impls:
            L, ocls = objs[impl]
            wts = weights_for(loss, step["weights"], ns, no) if step["mode"] == "custom" else None
            if wts is not None and case.get("shared_weights"):
                kept = shared_lists.setdefault(impl, [])
                if kept:
                    ctx.label("weights:same-list-edited-in-place")
                kept[:] = list(wts)
                wts = kept
            try:
                opt = make_option(ocls, step["mode"], wts, step.get("implicit", False))
            except ValueError:
                if step["mode"] != "unbiased_inverse_covariance":
                    raise
                # the undocumented alias may legitimately be repaired by rejecting it in the option: then there is
                # nothing to take effect and the history ends here
                ctx.label("mode-rejected-by-option")
                return
            try:
                if step.get("via_setter") and i > 0:
                    ctx.label("configured:via_setters")
                    (L.set_weight_matrices if loss == "se" else L.set_weights)(wts)
                    L.set_prob_dists_q([q for _, q in data])
                else:
                    L.set_from_standard_qtomography_option_data(qt, opt, data, True, impl == "generic")
            except Exception as e:  # in-domain configuration must not raise
                oid = f"configure_raises:{loss}:{step['mode']}"
                if isinstance(e, ValueError) and "symmetric" in str(e) and step["mode"] in INVCOV_ALL:
                    oid = "configure_raises:se:invcov_not_symmetric"  # the computed weights fail quara's own validation
                ctx.check(False, oid, f"{impl}: {type(e).__name__}: {e} (mode={step['mode']} outcomes={no})")
                ok = False
                break
        if not ok:
            return
        # a reconfiguration the setter is documented to reject (a non-float weight / a non-symmetric or complex weight
        # matrix), caught by the caller: the loss keeps the weights it had
        if reps.pick(repr(step_key(step)) + str(i), 3) == 0:
            for impl in impls:
                L = objs[impl][0]
                if loss == "se":
                    if no > 1:  # float, not symmetric
                        bad = [np.arange(no * no, dtype=np.float64).reshape(no, no) + 1.0 for _ in range(ns)]
                    else:  # complex
                        bad = [np.ones((1, 1), dtype=np.complex128) for _ in range(ns)]
                    ctx.raises((ValueError,), lambda: L.set_weight_matrices(bad), "rejected_weights:se")
                else:
                    bad = [1] + [2.0] * (ns - 1)
                    ctx.raises((ValueError,), lambda: L.set_weights(bad), "rejected_weights:re")
            ctx.label("after-rejected-reconfiguration")
        with np.errstate(all="ignore"):
            if loss == "se":
                ref = ref_se(ps, Js, None, qs, intended)
                wq = 0.0
            else:
                ref = ref_re(ps, Js, None, qs, intended, pabs)
                wq = sum((1.0 if intended is None else intended[j]) * float(np.sum(q)) for j, q in enumerate(qs))
        yield {"i": i, "step": step, "klass": klass, "objs": objs, "var": var, "ref": ref, "intended": intended,
               "tols": tolerances(ref, wq), "skip": skip, "data": data, "no": no}


def check_fast_equals_generic(case, ctx):
    loss = case["loss"]
    nontriv = False
    for s in run_history(case, ctx, ("generic", "fast")):
        if s["skip"]:
            continue
        G, F = s["objs"]["generic"][0], s["objs"]["fast"][0]
        var, ref = s["var"], s["ref"]
        vg, vf = _scalar(G.value(var)), _scalar(F.value(var))
        gg, gf = np.asarray(G.gradient(var), dtype=float), np.asarray(F.gradient(var), dtype=float)
        tv, tg, _ = s["tols"]
        scale_v = abs(float(vg)) + abs(float(vf)) if np.ndim(vg) == 0 and np.ndim(vf) == 0 else 0.0
        scale_g = float(np.max(np.abs(gg))) + float(np.max(np.abs(gf))) if gg.shape == gf.shape else 0.0
        oid = f"{loss}:{s['klass']}"
        prefix = "fast_eq_generic"
        ctx.close(vf, vg, 10 * tv + 1e-10 * scale_v, f"{prefix}:value:{oid}",
                  f"step {s['i']} mode={s['step']['mode']} fast={vf} generic={vg}")
        ctx.close(gf, gg, 10 * tg + 1e-10 * scale_g, f"{prefix}:gradient:{oid}", f"step {s['i']} mode={s['step']['mode']}")
        if s["i"] > 0 or s["step"]["mode"] != "identity":
            nontriv = True
    ctx.nontrivial(nontriv)


def check_weights_take_effect(case, ctx):
    loss = case["loss"]
    nontriv = False
    for s in run_history(case, ctx, ("generic", "fast")):
        mode = s["step"]["mode"]
        intended = s["intended"]
        for impl in ("generic", "fast"):
            L = s["objs"][impl][0]
            eff = L.weight_matrices if loss == "se" else L.weights
            oid = f"mode_effect:{loss}:{mode}:{impl}"
            if intended is None:
                ctx.check(is_identity_weights(eff, loss), oid + ":weights",
                          f"step {s['i']}: mode identity but effective weights are {str(eff)[:200]}")
            else:
                ctx.check(eff is not None and weights_equal(eff, intended), oid + ":weights",
                          lambda: f"step {s['i']}: effective weights {str(eff)[:300]} != definition {str(intended)[:300]}")
            if s["skip"]:
                continue
            tv, tg, _ = s["tols"]
            v = _scalar(L.value(s["var"]))
            g = np.asarray(L.gradient(s["var"]), dtype=float)
            vid, gid = oid + ":value", oid + ":gradient"
            ctx.close(v, s["ref"]["val"], 10 * tv, vid, f"step {s['i']} value={v} definition={s['ref']['val']}")
            ctx.close(g, s["ref"]["grad"], 10 * tg, gid, f"step {s['i']}")
        if mode != "identity" or s["i"] > 0:
            nontriv = True
    ctx.nontrivial(nontriv)


# ============================================================================= helpers facet
@st.composite
def helper_case(draw, tier):
    m = draw(st.integers(2, 6))
    n = draw(st.integers(1, 4))
    clip = draw(st.sampled_from(["away", "away", "away", "q_tiny", "p_tiny", "p_neg", "p_neg_within_atol"]))
    case = {"m": m, "n": n, "clip": clip, "counts": draw(st.lists(COUNTS, min_size=m, max_size=m)),
            "p_raw": draw(gen.raw(m)), "p_scale": draw(st.sampled_from([1.0, 1.0, 0.5, 2.0])),
            "g_raw": draw(gen.raw(m * n)), "h_raw": draw(gen.raw(m * n * n)),
            "eps_q": draw(st.sampled_from([None, None, 1e-12, 1e-9])), "eps_p": draw(st.sampled_from([None, None, 1e-12, 1e-9])),
            "idx": draw(st.integers(0, 5)), "num": draw(st.integers(2, 100000)),
            "rp_eps": draw(st.sampled_from([None, None, 1e-8, 1e-6, 1e-3])),
            "tiny": draw(gen.log_uniform(1e-16, 5e-15))}
    return case


def check_helpers(case, ctx):
    from quara.math import entropy as ent
    from quara.utils import matrix_util as mu

    m, n, clip = case["m"], case["n"], case["clip"]
    cs = [int(c) for c in case["counts"]]
    if sum(cs) < 2:
        cs[0] += 2
    N = sum(cs)
    q = np.array(cs, dtype=np.float64) / N
    p = rm.simplex_from_raw(case["p_raw"][:m]) * float(case["p_scale"])
    p = np.maximum(p, 1e-4)
    G = (np.round(np.asarray(case["g_raw"], dtype=float) * 2.0 ** 20) / 2.0 ** 20).reshape(m, n)
    Hh = (np.round(np.asarray(case["h_raw"], dtype=float) * 2.0 ** 20) / 2.0 ** 20).reshape(m, n, n)
    Hh = (Hh + Hh.transpose(0, 2, 1)) / 2
    k = case["idx"] % m
    eq, ep = case["eps_q"], case["eps_p"]
    kw = {"eps_q": eq, "eps_p": ep}
    ctx.label("clip:" + clip, f"outcomes:{m}", "data:zero-entry" if np.any(q == 0) else "data:positive")
    valid_req = True
    if clip == "q_tiny":
        q = q.copy()
        q[k] = 1e-13 if (eq or 1e-10) > 1e-13 else 1e-14
    elif clip == "p_tiny":
        p = p.copy()
        p[k] = 0.0 if case["idx"] % 2 else 1e-13
    elif clip == "p_neg":
        p = p.copy()
        p[k] = -0.01
        valid_req = False
    elif clip == "p_neg_within_atol":
        p = p.copy()
        p[k] = -float(case["tiny"])  # a computational fluctuation, inside the absolute tolerance 1e-13
    p = np.ascontiguousarray(p, dtype=np.float64)

    # --- scalar / vector variants agree (all classes)
    sv = ent.relative_entropy(q, p, is_valid_required=valid_req, **kw)
    sg = ent.gradient_relative_entropy_2nd(q, p, G, is_valid_required=valid_req, **kw)
    scale = 1 + float(np.sum(np.abs(q) * 30)) + float(np.max(np.abs(sg))) if np.ndim(sg) == 1 else 1.0
    try:
        vv = ent.relative_entropy_vector(q, p, is_valid_required=valid_req, **kw)
        vg = ent.gradient_relative_entropy_2nd_vector(q, p, G, is_valid_required=valid_req, **kw)
    except ValueError as e:
        ctx.check(False, "entropy_vector_rejects_what_scalar_accepts", f"{type(e).__name__}: {str(e)[:200]}")
        vv = vg = None
    if vv is not None:
        ctx.close(float(np.sum(vv)), float(sv), 1e-11 * scale, "entropy_vector_vs_scalar:value", f"clip={clip}")
        vg = np.asarray(vg, dtype=float)
        ctx.check(vg.shape == (m, n), "entropy_vector_gradient_shape", f"{vg.shape}")
        if vg.shape == (m, n):
            ctx.close(np.sum(vg, axis=0), np.asarray(sg, dtype=float), 1e-11 * scale, "entropy_vector_vs_scalar:gradient",
                      f"clip={clip}")
    if clip == "p_neg" and q[k] > 0:  # the scalar variant only looks at outcomes that carry data
        ctx.raises((ValueError,), lambda: ent.relative_entropy(q, p, **kw), "entropy_rejects_negative_p:scalar")
        ctx.raises((ValueError,), lambda: ent.relative_entropy_vector(q, p, **kw), "entropy_rejects_negative_p:vector")

    # --- defining formulas away from the thresholds
    if clip == "away":
        pos = q > 0
        terms = np.zeros(m)
        terms[pos] = q[pos] * np.log(q[pos] / p[pos])
        sabs = 1 + float(np.sum(np.abs(terms)))
        ctx.close(float(sv), float(np.sum(terms)), 1e-12 * sabs, "relative_entropy_formula")
        ctx.close(np.asarray(vv, dtype=float), terms, 1e-12 * sabs, "relative_entropy_vector_formula")
        co = np.where(pos, q / p, 0.0)
        gref = -(G.T @ co)
        gabs = 1 + float(np.max(np.abs(G).T @ co))
        ctx.close(np.asarray(sg, dtype=float), gref, 1e-12 * gabs, "gradient_relative_entropy_formula")
        ctx.close(np.asarray(vg, dtype=float), -(G * co[:, None]), 1e-12 * gabs, "gradient_relative_entropy_vector_formula")
        hq = ent.hessian_relative_entropy_2nd(q, p, G, Hh, **kw)
        href = -np.einsum("x,xab->ab", co, Hh) + (G.T * np.where(pos, q / p ** 2, 0.0)) @ G
        habs = 1 + float(np.max(np.einsum("x,xab->ab", co, np.abs(Hh)) + (np.abs(G).T * np.where(pos, q / p ** 2, 0.0)) @ np.abs(G)))
        ctx.close(np.asarray(hq, dtype=float), href, 1e-12 * habs, "hessian_relative_entropy_formula")
        # derivative of the helper value along a direction (G plays dp/dv for p(v) = p + G v)
        h = 1e-4 * float(np.min(p)) / (float(np.max(np.abs(G))) + 1e-9)
        e = np.zeros(n)
        e[case["idx"] % n] = 1.0
        f = lambda s: float(ent.relative_entropy(q, np.ascontiguousarray(p + s * (G @ e)), **kw))
        d1 = (f(h) - f(-h)) / (2 * h)
        d2 = (f(2 * h) - f(-2 * h)) / (4 * h)
        ctx.close(float(np.asarray(sg)[case["idx"] % n]), d1, 2 * abs(d1 - d2) + 1e3 * EPS * sabs / h + 1e-7 * gabs,
                  "gradient_relative_entropy_fd")
        ctx.nontrivial(True)
    else:
        ctx.nontrivial(vv is not None)

    # --- matrix_util.replace_prob_dist / calc_covariance_mat
    eps = case["rp_eps"]
    qq = np.array(cs, dtype=np.float64) / N
    rep = mu.replace_prob_dist(qq) if eps is None else mu.replace_prob_dist(qq, eps=eps)
    e_ = 1e-8 if eps is None else eps
    if np.count_nonzero(qq < e_) < m:
        ctx.close(np.asarray(rep, dtype=float), ref_replace_prob_dist(qq, e_), 1e-15, "replace_prob_dist_reference")
        rep = np.asarray(rep, dtype=float)
        if rep.shape == (m,):
            # mass is conserved when the replaced entries were exact zeros (the use in the inverse-covariance weights);
            # positive entries below eps lose their own mass by construction of the routine: not asserted.
            if bool(np.all(qq[qq < e_] == 0)):
                ctx.close(float(np.sum(rep)), float(np.sum(qq)), 1e-14, "replace_prob_dist_keeps_sum")
            else:
                ctx.label("replace:positive-below-eps")
            ctx.check(bool(np.all(rep[qq < e_] == e_)), "replace_prob_dist_floor")
    num = int(case["num"])
    cov = mu.calc_covariance_mat(qq, num)
    ctx.close(np.asarray(cov, dtype=float), ref_cov(qq, num), 1e-15 / num * 10, "calc_covariance_mat_reference")


# ============================================================================= simple quadratic loss
@st.composite
def quad_case(draw, tier):
    n = draw(st.integers(1, 30))
    sc = draw(st.sampled_from([1.0, 1.0, 1e-3, 1e3]))
    return {"n": n, "scale": sc, "ref": draw(gen.raw(n)), "var": draw(gen.raw(n)), "col": draw(st.integers(0, 29)),
            "bad": draw(st.sampled_from([0, 1, 2]))}


def check_simple_quadratic(case, ctx):
    from quara.loss_function.simple_quadratic_loss_function import SimpleQuadraticLossFunction

    n, sc = case["n"], case["scale"]
    r = np.asarray(case["ref"], dtype=np.float64) * sc
    v = np.asarray(case["var"], dtype=np.float64) * sc
    L = SimpleQuadraticLossFunction(r.copy())
    ctx.label(f"scale:{sc}", "n>1" if n > 1 else "n=1")
    ctx.check(L.num_var == n and L.on_value and L.on_gradient and L.on_hessian, "quad_flags")
    val = float(np.sum((v - r) ** 2))
    tol = 1e-13 * (1 + val)
    ctx.close(_scalar(L.value(v)), val, tol, "quad_value")
    g = np.asarray(L.gradient(v), dtype=float)
    ctx.close(g, 2 * (v - r), 1e-13 * (1 + float(np.max(np.abs(v - r)))), "quad_gradient")
    H = np.asarray(L.hessian(v), dtype=float)
    ctx.close(H, 2 * np.eye(n), 0.0, "quad_hessian")
    col = case["col"] % n
    h = 1e-2 * sc
    e = np.zeros(n)
    e[col] = 1.0
    d1 = (_scalar(L.value(v + h * e)) - _scalar(L.value(v - h * e))) / (2 * h)
    ctx.close(g[col] if g.shape == (n,) else np.nan, d1, 1e3 * EPS * (1 + val) / h + 1e-9 * (1 + abs(d1)), "quad_gradient_fd")
    gd = (np.asarray(L.gradient(v + h * e), dtype=float) - np.asarray(L.gradient(v - h * e), dtype=float)) / (2 * h)
    ctx.close(H[:, col] if H.shape == (n, n) else np.nan, gd, 1e-9 * (1 + float(np.max(np.abs(v - r))) / h), "quad_hessian_fd")
    np_r = np.asarray(case["ref"], dtype=np.float64) * sc
    ctx.check(bool(np.array_equal(r, np_r)), "quad_reference_point_not_mutated")
    if case["bad"]:
        bad = np.zeros(n + case["bad"])
        ctx.raises((ValueError,), lambda: L.value(bad), "quad_rejects_wrong_shape:value")
        ctx.raises((ValueError,), lambda: L.gradient(bad), "quad_rejects_wrong_shape:gradient")
        ctx.raises((ValueError,), lambda: L.hessian(bad), "quad_rejects_wrong_shape:hessian")
    ctx.nontrivial(float(np.max(np.abs(v - r))) > 0)


# ============================================================================= facets
FACETS = {
    "value_formula": {
        "strategy": lambda tier: formula_case(tier, "value"),
        "check": check_value,
        "budget": {"quick": {"examples": 640, "shards": 4}, "thorough": {"examples": 16000, "shards": 16}},
        "nontrivial": "formula oracle evaluated (away from clipping) and the case is weighted, has a zero data entry or lies outside the physical set",
        "min_nontrivial": 40,
    },
    "gradient_fd": {
        "strategy": lambda tier: formula_case(tier, "gradient"),
        "check": check_gradient,
        "budget": {"quick": {"examples": 480, "shards": 4}, "thorough": {"examples": 10000, "shards": 16}},
        "nontrivial": "derivative oracles evaluated, non-zero gradient, and weighted / zero data entry / outside the physical set",
        "min_nontrivial": 30,
    },
    "hessian_fd": {
        "strategy": lambda tier: formula_case(tier, "hessian"),
        "check": check_hessian,
        "budget": {"quick": {"examples": 240, "shards": 4}, "thorough": {"examples": 5000, "shards": 16}},
        "nontrivial": "Hessian oracles evaluated and weighted / zero data entry / outside the physical set",
        "min_nontrivial": 20,
    },
    "fast_equals_generic": {
        "strategy": history_case,
        "check": check_fast_equals_generic,
        "budget": {"quick": {"examples": 400, "shards": 4}, "thorough": {"examples": 8000, "shards": 16}},
        "nontrivial": "history with a weighted step or a re-used loss object (>= 2 configurations)",
        "min_nontrivial": 30,
    },
    "weights_take_effect": {
        "strategy": history_case,
        "check": check_weights_take_effect,
        "budget": {"quick": {"examples": 400, "shards": 4}, "thorough": {"examples": 8000, "shards": 16}},
        "nontrivial": "history with a non-identity mode or a re-used loss object",
        "min_nontrivial": 30,
    },
    "helpers": {
        "strategy": helper_case,
        "check": check_helpers,
        "budget": {"quick": {"examples": 300, "shards": 2}, "thorough": {"examples": 3000, "shards": 8}},
        "nontrivial": "formula oracles evaluated, or the vector and scalar entropy variants were both evaluated in a clipping class",
        "min_nontrivial": 30,
    },
    "simple_quadratic": {
        "strategy": quad_case,
        "check": check_simple_quadratic,
        "budget": {"quick": {"examples": 100, "shards": 1}, "thorough": {"examples": 1000, "shards": 4}},
        "nontrivial": "point differs from the reference point",
        "min_nontrivial": 20,
    },
}
