"""C01 - Physicality verdicts match the mathematical definitions at the given tolerance."""
import math

import numpy as np
from hypothesis import strategies as st

from harness import build, reps, gen
from harness import refmodel as rm

RULE = (
    "Objects are generated physical by construction (Stinespring / Naimark / spectral recipes from Hypothesis-drawn "
    "Ginibre arrays, all rank classes) or physical + a defect of drawn size eps in a named direction (trace / identity-sum / "
    "first HS row / negative eigen-direction of rho, E_x or the Choi matrix); shapes 1q, qutrit, 2q, 2x3; atol log-uniform in "
    "[1e-13,1e-2] passed explicitly or through Settings.  The oracle recomputes the defect magnitudes from the real parameter "
    "vector with refmodel (no quara) and compares verdicts only outside the margin band (defect <= atol/10 must be True, "
    ">= 10*atol must be False).  Non-trivial = the realised defect lies within two decades of atol on either side, or the "
    "object is a boundary object (an exactly-zero eigenvalue: pure / rank-deficient / projective / unitary)."
)
ASSUMPTIONS = [
    "verdict semantics: |Tr rho - 1|, max|sum E - I|, max|HS[0]-e0| (or |Tr Phi(B)-Tr B|), -lambda_min; where the "
    "normalisation of a defect is conventional (Choi trace d vs 1, row vs trace defect) both readings must agree before a verdict is asserted",
]

TECHNIQUE = "property-based testing (Hypothesis): constructed physical / physical+known-defect objects vs refmodel defect magnitudes with verdict margins; metamorphic atol monotonicity"
LEVEL_TEXT = (
    "Generated-input search: thousands of constructed objects per run (all four types, four shapes, all rank classes, defects "
    "from 1e-3*atol to O(1) in named directions, atol in [1e-13,1e-2], explicit and global): every verdict, the constructor "
    "behaviour, origin/zero objects and the basis-generic branches are compared with defect magnitudes recomputed by an "
    "independent numpy model.  It cannot prove absence; it reaches the near-threshold and boundary region fixed examples miss."
)
LEVEL_NOTE = (
    "Trusted: numpy LAPACK (eigh/qr), harness/refmodel.py, and the verdict-margin rule (verdicts only asserted when the defect is "
    "<= atol/10 or >= 10*atol under both normalisation conventions)."
)

TYPES = ("state", "povm", "gate", "mprocess")


# ----------------------------------------------------------------------------- defect construction
def _unit_dir(raw, n):
    v = np.asarray(raw[:n], dtype=float)
    if np.linalg.norm(v) < 1e-9:
        v = np.zeros(n)
        v[0] = 1.0
    return v / np.linalg.norm(v)


def build_stacked(case):
    """real stacked vector of (physical object + defect), in the normalised refmodel basis of the shape."""
    shape = case["obj"]["shape"]
    basis = gen.ref_basis(shape)
    d = gen.dim_of(shape)
    n = d * d
    obj = case["obj"]
    t = obj["type"]
    x = gen.stacked_reference(obj, basis).copy()
    df = case.get("defect") or {"kind": "none"}
    eps = df.get("eps", 0.0)
    sgn = df.get("sign", 1.0)
    k = df["kind"]
    if k == "none":
        return x
    if t == "state":
        if k == "eq":  # trace defect: add eps*sgn * I/d  (vec coefficient 0 is Tr/sqrt(d))
            x[0] += sgn * eps / math.sqrt(d)
        else:  # negative eigenvalue -eps along a kernel (or smallest) eigenvector, trace kept
            rho = rm.unvec(basis, x)
            w, v = np.linalg.eigh(rm.herm(rho))
            u0, u1 = v[:, 0], v[:, -1]
            rho2 = rho - (w[0] + eps) * np.outer(u0, u0.conj()) + (w[0] + eps) * np.outer(u1, u1.conj())
            x = np.real(rm.vec(basis, rho2))
        return x
    if t == "povm":
        m = obj["m"]
        if k == "eq":
            j = df.get("elem", 0) % m
            dirv = _unit_dir(df["raw_dir"], n)
            # direction in coefficient space; defect measured on the matrix anyway
            x[j * n : (j + 1) * n] += sgn * eps * dirv
        else:
            j = df.get("elem", 0) % m
            e = rm.unvec(basis, x[j * n : (j + 1) * n])
            w, v = np.linalg.eigh(rm.herm(e))
            u0 = v[:, 0]
            j2 = (j + 1) % m  # keep the sum
            if df.get("whole") and m >= 2:
                e2 = -eps * np.outer(u0, u0.conj())
                moved = e - e2
            else:
                e2 = e - (w[0] + eps) * np.outer(u0, u0.conj())
                moved = (w[0] + eps) * np.outer(u0, u0.conj())
            x[j * n : (j + 1) * n] = np.real(rm.vec(basis, e2))
            e_other = rm.unvec(basis, x[j2 * n : (j2 + 1) * n]) + moved
            x[j2 * n : (j2 + 1) * n] = np.real(rm.vec(basis, e_other))
        return x
    if t in ("gate", "mprocess"):
        m = obj.get("m", 1)
        j = df.get("elem", 0) % m
        hs = x[j * n * n : (j + 1) * n * n].reshape(n, n).copy()
        if k == "eq":
            col = df.get("col", 0) % n
            hs[0, col] += sgn * eps
        else:
            choi = rm.choi_from_hs(basis, hs)
            w, v = np.linalg.eigh(rm.herm(choi))
            u0 = v[:, 0]
            if df.get("whole") and t == "mprocess" and m >= 2:
                choi2 = -eps * np.outer(u0, u0.conj())
                j2 = (j + 1) % m
                hs2 = x[j2 * n * n : (j2 + 1) * n * n].reshape(n, n) + np.real(rm.hs_from_choi(basis, choi - choi2))
                x[j2 * n * n : (j2 + 1) * n * n] = hs2.reshape(-1)
            else:
                choi2 = choi - (w[0] + eps) * np.outer(u0, u0.conj())
            hs = np.real(rm.hs_from_choi(basis, choi2))
        x[j * n * n : (j + 1) * n * n] = hs.reshape(-1)
        return x
    raise ValueError(t)


def defects(t, basis, x, m=None, orthonormal=True):
    """(eq_lo, eq_hi, ineq_lo, ineq_hi, boundary) recomputed from the stacked vector with refmodel."""
    d = basis[0].shape[0]
    n = len(basis)
    if t == "state":
        rho = rm.unvec(basis, x)
        tr = abs(np.trace(rho) - 1)
        w = np.linalg.eigvalsh(rm.herm(rho))
        neg = max(0.0, -float(w[0]))
        return float(tr), float(tr), neg, neg, bool(np.min(np.abs(w)) < 1e-9)
    if t == "povm":
        es = [rm.unvec(basis, x[i * n : (i + 1) * n]) for i in range(m)]
        s = sum(es) - np.eye(d)
        eq = float(np.max(np.abs(s)))
        ws = [np.linalg.eigvalsh(rm.herm(e)) for e in es]
        neg = max(0.0, -min(float(w[0]) for w in ws))
        return eq, eq, neg, neg, bool(min(np.min(np.abs(w)) for w in ws) < 1e-9)
    if t in ("gate", "mprocess"):
        mm = 1 if t == "gate" else m
        hss = [x[i * n * n : (i + 1) * n * n].reshape(n, n) for i in range(mm)]
        tot = sum(hss)
        tr_b = np.array([np.trace(b) for b in basis])
        trace_def = float(np.max(np.abs(tr_b @ tot - tr_b)))  # |Tr Phi(B_b) - Tr B_b|
        if orthonormal and abs(tr_b[0]) > 0 and np.allclose(tr_b[1:], 0):
            e0 = np.zeros(n)
            e0[0] = 1
            row_def = float(np.max(np.abs(tot[0] - e0)))
            eq_lo, eq_hi = min(row_def, trace_def), max(row_def, trace_def)
        else:
            eq_lo = eq_hi = trace_def
        negs, bnd = [], False
        for hs in hss:
            nb = np.array([np.real(np.vdot(b, b)) for b in basis])
            choi = rm.choi_from_hs(basis, hs / nb[None, :]) if not orthonormal else rm.choi_from_hs(basis, hs)
            w = np.linalg.eigvalsh(rm.herm(choi))
            negs.append(max(0.0, -float(w[0])))
            bnd = bnd or bool(np.min(np.abs(w)) < 1e-9)
        neg = max(negs)
        # Choi normalisation is conventional (Tr C = d here, 1 elsewhere)
        return eq_lo, eq_hi, neg / d, neg * (2.0 if not orthonormal else 1.0), bnd
    raise ValueError(t)


def expected(lo, hi, atol):
    """True / False / None (margin band)."""
    if hi <= atol / 10:
        return True
    if lo >= 10 * atol:
        return False
    return None


# ----------------------------------------------------------------------------- strategies
@st.composite
def defect_st(draw, t, atol):
    kind = draw(st.sampled_from(["none", "eq", "ineq", "eq", "ineq"]))
    if kind == "none":
        return {"kind": "none"}
    band = draw(st.sampled_from(["below", "above", "far"]))
    if band == "below":
        ratio = draw(gen.log_uniform(1e-3, 0.09))
    elif band == "above":
        ratio = draw(gen.log_uniform(11.0, 1e3))
    else:
        ratio = draw(gen.log_uniform(1e3, max(1e3 + 1, 1.0 / atol)))
    eps = min(ratio * atol, 1.0)
    df = {"kind": kind, "eps": float(eps), "band": band, "sign": draw(st.sampled_from([1.0, -1.0]))}
    df["elem"] = draw(st.integers(0, 11))
    df["col"] = draw(st.integers(0, 35))
    if t == "povm" and kind == "eq":
        df["raw_dir"] = draw(gen.raw(36))
    if t in ("povm", "mprocess") and kind == "ineq":
        # the violating element / outcome is, as a whole, of the size of the violation (-eps * projector); the rest of its
        # mass sits in the next one
        df["whole"] = draw(st.booleans())
    return df


def obj_st(t, shape_names):
    if t == "state":
        return gen.state_case(shape_names)
    if t == "povm":
        # (ten or more elements now and then - on the small systems, to keep the cost down: sizes at which a loop over the
        # elements may have been replaced by a stacked computation)
        small = tuple(s_ for s_ in shape_names if gen.dim_of(s_) <= 4) or shape_names
        return st.one_of(*([gen.povm_case(shape_names, (2, 5))] * 7 + [gen.povm_case(small, (9, 12))]))
    if t == "gate":
        return gen.gate_case(shape_names)
    return gen.mprocess_case(shape_names, (2, 4))


@st.composite
def verdict_case(draw, tier):
    t = draw(st.sampled_from(TYPES))
    if t in ("state", "povm"):
        shp = ("1q", "qutrit", "2q", "2x3")
    else:
        shp = ("1q", "1q", "qutrit", "2q") if tier == "quick" else ("1q", "qutrit", "2q", "2x3")
    obj = draw(obj_st(t, shp))
    atol = draw(gen.log_uniform(1e-13, 1e-2))
    atol2 = draw(gen.log_uniform(1e-13, 1e-2))
    return {
        "obj": obj,
        "atol_eq": atol,
        "atol_ineq": draw(st.sampled_from([atol, atol2])),
        "via_settings": draw(st.booleans()),
        "defect": draw(defect_st(t, atol)),
        # explicit-tolerance calls are made while the GLOBAL tolerance is something else (the explicit one is the only slack)
        "global_atol": draw(st.one_of(st.none(), gen.log_uniform(1e-13, 1e-2))),
    }


# ----------------------------------------------------------------------------- checks
def _tol_noise(d):
    return 50 * 2.2e-16 * d * d


def check_verdict(case, ctx):
    from quara.settings import Settings

    obj = case["obj"]
    t = obj["type"]
    shape = obj["shape"]
    basis = gen.ref_basis(shape)
    d = gen.dim_of(shape)
    x = build_stacked(case)
    m = obj.get("m")
    c_sys = build.c_sys_for(shape)
    q = build.make(c_sys, t, x, m=m, mshape=obj.get("mshape"))
    eq_lo, eq_hi, in_lo, in_hi, boundary = defects(t, basis, x, m)
    a_eq, a_in = case["atol_eq"], case["atol_ineq"]
    ctx.label(t, shape, "defect:" + case["defect"]["kind"], "kind:" + obj.get("kind", "generic"))

    # the type's own named sub-verdicts (and the module-level gate functions) answer the same two questions
    named_eq = {"state": ["is_trace_one"], "povm": ["is_identity_sum"], "gate": ["is_tp"], "mprocess": ["is_sum_tp"]}[t]
    named_in = {"state": ["is_positive_semidefinite"], "povm": ["is_positive_semidefinite"], "gate": ["is_cp"], "mprocess": ["is_cp"]}[t]
    named = {}
    if case["via_settings"] and a_eq == a_in:
        Settings.set_atol(float(a_eq))
        try:
            v_eq = q.is_eq_constraint_satisfied()
            v_in = q.is_ineq_constraint_satisfied()
            v_ph = q.is_physical()
            for nm in named_eq + named_in:
                named[nm] = getattr(q, nm)()
            if t == "gate":
                from quara.objects import gate as _G

                named["gate.is_tp()"] = _G.is_tp(c_sys, q.hs)
                named["gate.is_cp()"] = _G.is_cp(c_sys, q.hs)
        finally:
            Settings.set_atol(1e-13)
        ctx.label("atol:settings")
    else:
        g_atol = case.get("global_atol")
        if g_atol is not None:
            Settings.set_atol(float(g_atol))
            ctx.label("global_atol:" + ("looser" if g_atol > max(a_eq, a_in) else "tighter" if g_atol < min(a_eq, a_in) else "between"))
        try:
            v_eq = q.is_eq_constraint_satisfied(a_eq)
            v_in = q.is_ineq_constraint_satisfied(a_in)
            v_ph = q.is_physical(a_eq, a_in)
            for nm in named_eq:
                named[nm] = getattr(q, nm)(a_eq)
            for nm in named_in:
                named[nm] = getattr(q, nm)(a_in)
            if t == "gate":
                from quara.objects import gate as _G

                named["gate.is_tp()"] = _G.is_tp(c_sys, q.hs, a_eq)
                named["gate.is_cp()"] = _G.is_cp(c_sys, q.hs, a_in)
        finally:
            Settings.set_atol(1e-13)
        ctx.label("atol:explicit")
    for nm, v in named.items():
        want = v_eq if ("tp" in nm or "trace_one" in nm or "identity_sum" in nm) else v_in
        ctx.check(bool(v) == bool(want), f"named_sub_verdict_equals_generic:{t}",
                  lambda nm=nm, v=v, want=want: f"{nm} = {v} but the generic sub-verdict is {want} (atol eq={a_eq:.3e} ineq={a_in:.3e}, via_settings={case['via_settings']})")

    noise = _tol_noise(d)
    e_eq = expected(eq_lo, eq_hi + noise, a_eq)
    e_in = expected(in_lo, in_hi + noise, a_in)
    if e_eq is None or e_in is None:
        ctx.label("margin-band")
    if e_eq is not None:
        ctx.check(bool(v_eq) == e_eq, f"eq_verdict:{t}",
                  f"eq verdict {v_eq} but defect in [{eq_lo:.3e},{eq_hi:.3e}] at atol={a_eq:.3e}")
    if e_in is not None:
        ctx.check(bool(v_in) == e_in, f"ineq_verdict:{t}",
                  f"ineq verdict {v_in} but defect in [{in_lo:.3e},{in_hi:.3e}] at atol={a_in:.3e}")
    ctx.check(bool(v_ph) == (bool(v_eq) and bool(v_in)), f"is_physical_conjunction:{t}",
              f"is_physical={v_ph} eq={v_eq} ineq={v_in}")
    # each tolerance defaults to the GLOBAL setting independently of the other one (atol is the only slack):
    # is_physical(a) = eq at a AND ineq at the global atol; is_physical(atol_ineq_const=b) = eq at global AND ineq at b
    g = 1e-13
    v_eq_g, v_in_g = q.is_eq_constraint_satisfied(), q.is_ineq_constraint_satisfied()
    ph_eq_only = q.is_physical(a_eq)
    ph_in_only = q.is_physical(atol_ineq_const=a_in)
    ph_none = q.is_physical()
    ctx.check(bool(ph_eq_only) == (bool(v_eq) and bool(v_in_g)), f"is_physical_default_ineq_tolerance:{t}",
              f"is_physical({a_eq:.3e})={ph_eq_only} but eq@{a_eq:.1e}={v_eq}, ineq@global={v_in_g}")
    ctx.check(bool(ph_in_only) == (bool(v_eq_g) and bool(v_in)), f"is_physical_default_eq_tolerance:{t}",
              f"is_physical(atol_ineq_const={a_in:.3e})={ph_in_only} but eq@global={v_eq_g}, ineq@{a_in:.1e}={v_in}")
    ctx.check(bool(ph_none) == (bool(v_eq_g) and bool(v_in_g)), f"is_physical_default_both:{t}")
    # and against the independent model where the margins allow
    e_eq_g = expected(eq_lo, eq_hi + noise, g)
    e_in_g = expected(in_lo, in_hi + noise, g)
    if e_eq is not None and e_in_g is not None:
        ctx.check(bool(ph_eq_only) == (e_eq and e_in_g), f"is_physical_one_tolerance_vs_model:{t}",
                  f"is_physical({a_eq:.3e})={ph_eq_only}; eq defect {eq_hi:.3e}, ineq defect {in_hi:.3e} (ineq judged at the global 1e-13)")
    if e_eq_g is not None and e_in is not None:
        ctx.check(bool(ph_in_only) == (e_eq_g and e_in), f"is_physical_one_tolerance_vs_model:{t}",
                  f"is_physical(atol_ineq_const={a_in:.3e})={ph_in_only}; eq defect {eq_hi:.3e} (judged at 1e-13), ineq defect {in_hi:.3e}")

    near = False
    for lo, hi, a in ((eq_lo, eq_hi, a_eq), (in_lo, in_hi, a_in)):
        if hi > 0 and 1e-2 <= hi / a <= 1e2:
            near = True
    ctx.nontrivial(near or boundary)
    if near:
        ctx.label("near-threshold")
    if boundary:
        ctx.label("boundary")

    # monotonicity in atol (metamorphic, exact): True at atol1 => True at atol2 > atol1
    lo_a, hi_a = sorted([a_eq, a_in])
    if lo_a < hi_a:
        for name, fn in (("eq", q.is_eq_constraint_satisfied), ("ineq", q.is_ineq_constraint_satisfied)):
            if fn(lo_a):
                ctx.check(bool(fn(hi_a)), f"atol_monotone:{t}", f"{name} true at {lo_a:.3e}, false at {hi_a:.3e}")


def check_constructor(case, ctx):
    """constructing with is_physicality_required=True succeeds iff physical at the global atol."""
    from quara.settings import Settings

    obj = case["obj"]
    t, shape = obj["type"], obj["shape"]
    basis = gen.ref_basis(shape)
    d = gen.dim_of(shape)
    x = build_stacked(case)
    m = obj.get("m")
    c_sys = build.c_sys_for(shape)
    atol = case["atol_eq"]
    eq_lo, eq_hi, in_lo, in_hi, boundary = defects(t, basis, x, m)
    noise = _tol_noise(d)
    e_eq = expected(eq_lo, eq_hi + noise, atol)
    e_in = expected(in_lo, in_hi + noise, atol)
    ctx.label(t, shape, "defect:" + case["defect"]["kind"])
    if e_eq is None or e_in is None:
        ctx.label("margin-band")
        return
    exp = e_eq and e_in
    Settings.set_atol(float(atol))
    try:
        # a rejected update of the global tolerance (anything but a builtin float is documented to raise) leaves the
        # tolerance in force untouched: the verdicts below are still those at `atol`
        bad = [np.float64(1e-3), 1, "1e-3", None, np.float32(1e-3), np.float64(1e-6)][reps.pick(repr(x.tolist()) + t, 6)]
        ctx.raises((TypeError,), lambda: Settings.set_atol(bad), "set_atol:rejects_non_float")
        ctx.equal(Settings.get_atol(), float(atol), "set_atol:rejected_value_is_not_stored")
        ok, err = True, None
        try:
            q = build.make(c_sys, t, x, m=m, mshape=obj.get("mshape"), is_physicality_required=True)
        except ValueError as e:
            ok, err = False, e
        ctx.check(ok == exp, f"constructor:{t}",
                  f"constructor {'succeeded' if ok else 'raised ' + str(err)[:80]} but eq defect {eq_hi:.3e} ineq defect {in_hi:.3e} atol {atol:.3e}")
        # generate_from_var path
        tmpl = build.make(c_sys, t, x, m=m, mshape=obj.get("mshape"), is_physicality_required=False, on_para_eq_constraint=False)
        var = tmpl.to_var()
        ok2 = True
        try:
            tmpl.generate_from_var(var, is_physicality_required=True)
        except ValueError:
            ok2 = False
        ctx.check(ok2 == exp, f"generate_from_var_required:{t}", f"ok={ok2} expected={exp}")
    finally:
        Settings.set_atol(1e-13)
    near = any(hi > 0 and 1e-2 <= hi / atol <= 1e2 for hi in (eq_hi, in_hi))
    ctx.nontrivial(near or boundary)


def check_relative_slack(case, ctx):
    """the only slack is absolute: a defect of 5e-6 (relative to a value ~1) at atol<=1e-8 is a violation."""
    obj = case["obj"]
    t, shape = obj["type"], obj["shape"]
    basis = gen.ref_basis(shape)
    x = build_stacked(case)
    m = obj.get("m")
    c_sys = build.c_sys_for(shape)
    q = build.make(c_sys, t, x, m=m, mshape=obj.get("mshape"))
    eq_lo, eq_hi, _, _, _ = defects(t, basis, x, m)
    atol = case["atol_eq"]
    ctx.label(t, shape)
    if eq_lo >= 10 * atol:
        ctx.check(not q.is_eq_constraint_satisfied(atol), f"relative_slack:{t}",
                  f"eq defect {eq_lo:.3e} accepted at atol {atol:.3e}")
        ctx.nontrivial(eq_hi <= 1e-5)


@st.composite
def slack_case(draw, tier):
    t = draw(st.sampled_from(TYPES))
    obj = draw(obj_st(t, ("1q", "qutrit", "2q")))
    atol = draw(gen.log_uniform(1e-13, 1e-8))
    eps = draw(gen.log_uniform(1e-7, 9e-6))
    df = {"kind": "eq", "eps": eps, "sign": draw(st.sampled_from([1.0, -1.0])), "elem": draw(st.integers(0, 4)), "col": 0}
    if t == "povm":
        # diagonal direction (identity coefficient) so the defect sits on entries whose reference value is 1
        df["raw_dir"] = [1.0] + [0.0] * 35
    return {"obj": obj, "atol_eq": atol, "atol_ineq": atol, "via_settings": False, "defect": df}


def check_origin_zero(case, ctx):
    obj = case["obj"]
    t, shape = obj["type"], obj["shape"]
    basis = gen.ref_basis(shape)
    d = gen.dim_of(shape)
    n = d * d
    x = build_stacked(case)
    m = obj.get("m")
    c_sys = build.c_sys_for(shape)
    flag = case["flag"]
    q = build.make(c_sys, t, x, m=m, mshape=obj.get("mshape"), on_para_eq_constraint=flag)
    ctx.label(t, shape, f"flag:{flag}")
    o = q.generate_origin_obj()
    z = q.generate_zero_obj()
    ctx.check(type(o) is type(q) and type(z) is type(q), f"origin_type:{t}")
    ctx.check(o.on_para_eq_constraint == flag and z.on_para_eq_constraint == flag, f"origin_flags:{t}")
    xo = build.stacked_of(o)
    xz = build.stacked_of(z)
    ctx.close(xz, np.zeros_like(x), 0.0, f"zero_obj:{t}")
    # reference origin
    if t == "state":
        ref = np.real(rm.vec(basis, np.eye(d) / d))
    elif t == "povm":
        ref = np.concatenate([np.real(rm.vec(basis, np.eye(d) / m)) for _ in range(m)])
    else:
        dep = rm.hs_from_map(basis, lambda a: np.trace(a) * np.eye(d) / d)
        mm = 1 if t == "gate" else m
        ref = np.concatenate([np.real(dep).reshape(-1) / mm for _ in range(mm)])
    ctx.close(xo, ref, rm.algebraic_tol(d), f"origin_value:{t}")
    ctx.check(bool(o.is_physical(1e-13, 1e-13)), f"origin_physical:{t}")
    eq_lo, eq_hi, in_lo, in_hi, _ = defects(t, basis, xo, m)
    ctx.check(eq_hi <= 1e-13 and in_hi <= 1e-13, f"origin_physical_ref:{t}", f"{eq_hi} {in_hi}")
    # the in-place variant: after set_zero() the SAME object (already queried above and here) denotes the zero operator,
    # and every verdict is about the zero operator, exactly as for a fresh object built from zeros
    q2 = build.make(c_sys, t, x, m=m, mshape=obj.get("mshape"), on_para_eq_constraint=flag)
    before = (q2.is_eq_constraint_satisfied(), q2.is_ineq_constraint_satisfied(), q2.is_physical())
    _representations(q2, t)  # every derived representation has been asked for once before the object is reset
    q2.set_zero()
    ctx.close(build.stacked_of(q2), np.zeros_like(x), 0.0, f"set_zero_value:{t}")
    fresh_zero = build.make(c_sys, t, np.zeros_like(x), m=m, mshape=obj.get("mshape"), on_para_eq_constraint=flag)
    reps_used, reps_fresh = _representations(q2, t), _representations(fresh_zero, t)
    for nm in reps_fresh:
        a_used, a_fresh = reps_used.get(nm), reps_fresh[nm]
        same = isinstance(a_used, type(a_fresh)) and (a_used == a_fresh if isinstance(a_fresh, str) else
                                                      (np.shape(a_used) == np.shape(a_fresh) and np.array_equal(a_used, a_fresh)))
        ctx.check(same, f"set_zero_representations_equal_fresh_zero_object:{t}",
                  lambda nm=nm, a_used=a_used, a_fresh=a_fresh: f"{nm} after set_zero: {str(a_used)[:120]} but a fresh zero object gives {str(a_fresh)[:120]}")
        if not isinstance(a_fresh, str):
            ctx.check(not np.any(np.asarray(a_used)), f"set_zero_representations_are_zero:{t}", nm)
    for a in (None, 1e-13, 1e-6, 1e-2):
        got = (bool(q2.is_eq_constraint_satisfied(a)), bool(q2.is_ineq_constraint_satisfied(a)), bool(q2.is_physical(a, a)))
        want = (bool(fresh_zero.is_eq_constraint_satisfied(a)), bool(fresh_zero.is_ineq_constraint_satisfied(a)),
                bool(fresh_zero.is_physical(a, a)))
        ctx.check(got == want, f"set_zero_verdicts_equal_fresh_zero_object:{t}", f"atol={a}: used {got} fresh {want} (before set_zero: {before})")
        # the zero operator is positive semidefinite but violates every equality constraint (trace 0, sum 0, no e0 row)
        ctx.check(got == (False, True, False), f"set_zero_verdicts_are_those_of_the_zero_operator:{t}", f"atol={a}: {got}")
    ctx.nontrivial(case["defect"]["kind"] != "none" or (m or 0) >= 3)


def _representations(q, t):
    """name -> dense array (or 'raises:<type>') of every derived representation of the object."""
    calls = {
        "state": {"density": lambda: q.to_density_matrix(), "density_sparse": lambda: q.to_density_matrix_with_sparsity(),
                  "eigenvalues": lambda: q.calc_eigenvalues(), "var": lambda: q.to_var()},
        "povm": {"matrices": lambda: q.matrices(), "matrices_sparse": lambda: q.matrices_with_sparsity(),
                 "eigenvalues": lambda: q.calc_eigenvalues(), "var": lambda: q.to_var()},
        "gate": {"choi": lambda: q.to_choi_matrix(), "choi_dict": lambda: q.to_choi_matrix_with_dict(),
                 "choi_sparse": lambda: q.to_choi_matrix_with_sparsity(), "process": lambda: q.to_process_matrix(), "var": lambda: q.to_var()},
        "mprocess": {"choi0": lambda: q.to_choi_matrix(0), "choi0_dict": lambda: q.to_choi_matrix_with_dict(0),
                     "choi0_sparse": lambda: q.to_choi_matrix_with_sparsity(0), "process0": lambda: q.to_process_matrix(0),
                     "var": lambda: q.to_var()},
    }[t]
    out = {}
    for nm, fn in calls.items():
        try:
            v = fn()
            if hasattr(v, "toarray"):
                v = v.toarray()
            if isinstance(v, (list, tuple)):
                v = np.array([np.asarray(e.toarray() if hasattr(e, "toarray") else e) for e in v])
            out[nm] = np.array(v, copy=True)
        except Exception as e:  # noqa: the same call on a fresh zero object must then raise alike
            out[nm] = "raises:" + type(e).__name__
    return out


@st.composite
def origin_case(draw, tier):
    c = draw(verdict_case(tier))
    c["flag"] = draw(st.booleans())
    return c


# ---- basis-generic branches: unnormalised / non-identity-first bases (state, povm, gate)
@st.composite
def generic_basis_case(draw, tier):
    t = draw(st.sampled_from(["state", "povm", "gate"]))
    bk = draw(st.sampled_from(["unnormalized", "hermitian"]))
    shape = draw(st.sampled_from(["1q", "qutrit"]))
    obj = draw(obj_st(t, (shape,)))
    atol = draw(gen.log_uniform(1e-13, 1e-2))
    return {"obj": obj, "atol_eq": atol, "atol_ineq": atol, "basis_kind": bk, "defect": draw(defect_st(t, atol))}


def check_generic_basis(case, ctx):
    obj = case["obj"]
    t, shape = obj["type"], obj["shape"]
    d = gen.dim_of(shape)
    nb = gen.ref_basis(shape)
    x_n = build_stacked(case)  # coordinates in the normalised basis
    c_sys = build.c_sys_for(shape, kind=case["basis_kind"])
    qb = build.quara_basis_matrices(c_sys)
    ctx.check(not c_sys.is_orthonormal_hermitian_0thprop_identity, "basis_flag", "expected a basis-generic system")
    n = d * d
    m = obj.get("m")
    orthonormal = rm.is_orthonormal(qb)
    # change coordinates with refmodel
    if t == "state":
        x = np.real(rm.vec(qb, rm.unvec(nb, x_n), orthonormal))
    elif t == "povm":
        x = np.concatenate([np.real(rm.vec(qb, rm.unvec(nb, x_n[i * n:(i + 1) * n]), orthonormal)) for i in range(m)])
    else:
        hs_n = x_n.reshape(n, n)
        hs = rm.hs_from_map(qb, lambda a: rm.apply_hs(nb, hs_n, a), orthonormal)
        x = np.real(hs).reshape(-1)
    q = build.make(c_sys, t, x, m=m, mshape=obj.get("mshape"))
    # defects do not depend on the coordinate system: use the normalised representation,
    # except that the TP verdict of the generic branch is the trace test
    eq_lo, eq_hi, in_lo, in_hi, boundary = defects(t, nb, x_n, m)
    if t == "gate":
        tr_b = np.array([np.trace(b) for b in qb])
        eq_lo = eq_hi = float(np.max(np.abs(tr_b @ x.reshape(n, n) - tr_b)))
        in_lo, in_hi = in_lo / 2, in_hi * 2 * d  # Choi scale depends on the basis normalisation
    if t == "povm":
        pass
    a = case["atol_eq"]
    noise = _tol_noise(d) * 4
    e_eq = expected(eq_lo, eq_hi + noise, a)
    e_in = expected(in_lo, in_hi + noise, a)
    ctx.label(t, shape, case["basis_kind"])
    if e_eq is not None:
        ctx.check(bool(q.is_eq_constraint_satisfied(a)) == e_eq, f"eq_verdict_generic_basis:{t}",
                  f"defect [{eq_lo:.3e},{eq_hi:.3e}] atol {a:.3e}")
    if e_in is not None:
        ctx.check(bool(q.is_ineq_constraint_satisfied(a)) == e_in, f"ineq_verdict_generic_basis:{t}",
                  f"defect [{in_lo:.3e},{in_hi:.3e}] atol {a:.3e}")
    ctx.nontrivial(boundary or any(hi > 0 and 1e-2 <= hi / a <= 1e2 for hi in (eq_hi, in_hi)))
    if t == "gate":
        return
    # MProcess documents that it rejects such bases
    if case["basis_kind"] and t == "state":
        from quara.objects.mprocess import MProcess

        ctx.raises(ValueError, lambda: MProcess(c_sys, [np.eye(n), np.eye(n)], is_physicality_required=False),
                   "mprocess_rejects_generic_basis")


FACETS = {
    "verdict": {
        "strategy": verdict_case,
        "check": check_verdict,
        "budget": {"quick": {"examples": 2400, "shards": 8}, "thorough": {"examples": 48000, "shards": 16}},
        "nontrivial": "defect within two decades of atol, or boundary object",
        "min_nontrivial": 50,
    },
    "constructor": {
        "strategy": verdict_case,
        "check": check_constructor,
        "budget": {"quick": {"examples": 800, "shards": 4}, "thorough": {"examples": 30000, "shards": 16}},
        "nontrivial": "defect within two decades of atol, or boundary object",
        "min_nontrivial": 20,
    },
    "relative_slack": {
        "strategy": slack_case,
        "check": check_relative_slack,
        "budget": {"quick": {"examples": 400, "shards": 2}, "thorough": {"examples": 10000, "shards": 8}},
        "nontrivial": "equality defect in (10*atol, 1e-5], i.e. inside numpy's default relative slack",
        "min_nontrivial": 20,
    },
    "origin_zero": {
        "strategy": origin_case,
        "check": check_origin_zero,
        "budget": {"quick": {"examples": 600, "shards": 2}, "thorough": {"examples": 20000, "shards": 8}},
        "nontrivial": "source object non-physical, or >= 3 outcomes",
        "min_nontrivial": 20,
    },
    "generic_basis": {
        "strategy": generic_basis_case,
        "check": check_generic_basis,
        "budget": {"quick": {"examples": 600, "shards": 2}, "thorough": {"examples": 20000, "shards": 8}},
        "nontrivial": "defect within two decades of atol, or boundary object, in an unnormalised / non-identity-first basis",
        "min_nontrivial": 20,
    },
}
