"""C13 - Results depend only on arguments: no hidden state, no operand mutation (history property)."""
import copy as _copy

import numpy as np
from hypothesis import strategies as st

from harness import build, gen, tomo
from harness import refmodel as rm

RULE = (
    "Cases are PROGRAMS (operation sequences drawn by Hypothesis, shrunk as one value, replayed from JSON): a pool of states / POVMs / "
    "gates / measurement processes on three shared composite systems (two qubits A,B and a qutrit) built from drawn recipes; steps "
    "are queries, conversions (all implementations), projections (object and variable level, closures), arithmetic, compose, tensor "
    "product, copy-then-write, each cache deletion / cache access of the shared systems, and Settings.set_atol(x)+call+restore.  "
    "Model: after every step (1) the step's result equals the result of evaluating the same derivation from scratch on FRESH "
    "composite systems and fresh objects ('fresh twins'), (2) byte-level snapshots of every pooled object (arrays, flags, shapes) "
    "and of every argument array are unchanged.  A second program family re-uses one loss object and one algorithm object over "
    "several datasets / weighting modes / algorithm options / tomographies and compares every estimate with fresh objects.  "
    "Non-trivial history: a cache deletion between two uses of the same system, or a projection result / operand used again "
    "later, or >= 2 estimation steps that differ in weighting mode, option or tomography."
)
ASSUMPTIONS = [
    "fresh-vs-used comparison is exact up to 1e-12 relative (the same floating-point program runs in both; a non-bitwise match is counted in the class histogram)",
    "constructors adopt the arrays handed to them (stated exception of the property); MultinomialDistribution's constructor normalising its own argument is covered by that exception",
]
TECHNIQUE = "model-based stateful testing with Hypothesis (generated operation sequences / histories, fresh-twin reference model, byte-level operand snapshots after every step)"
LEVEL_TEXT = (
    "History exploration: thousands of generated operation sequences over a shared object pool, each step compared with a "
    "from-scratch evaluation on fresh systems and followed by byte-level snapshots of all operands; estimation histories with "
    "re-used loss / algorithm objects compared with fresh ones.  Order-dependence, stale caches and operand mutation are "
    "unobservable by single-call example tests; sequences are sampled, not enumerated."
)
LEVEL_NOTE = "Trusted: the interpreter in this module (derivation replay on fresh systems), numpy byte comparison."


# ----------------------------------------------------------------------------- canonical values
def canon(v):
    from quara.objects.multinomial_distribution import MultinomialDistribution
    from quara.objects.qoperation import QOperation
    from quara.objects.state_ensemble import StateEnsemble

    if isinstance(v, np.ndarray):
        return ("arr", v.dtype.str, v.shape, np.ascontiguousarray(v).tobytes())
    if isinstance(v, (bool, np.bool_)):
        return ("bool", bool(v))
    if isinstance(v, (int, np.integer)):
        return ("int", int(v))
    if isinstance(v, (float, np.floating)):
        return ("arr", "<f8", (), np.float64(v).tobytes())
    if isinstance(v, (complex, np.complexfloating)):
        return ("arr", "<c16", (), np.complex128(v).tobytes())
    if isinstance(v, (list, tuple)):
        return ("seq", tuple(canon(x) for x in v))
    if isinstance(v, StateEnsemble):
        return ("ens", tuple(canon(s) for s in v.states), canon(v.prob_dist))
    if isinstance(v, MultinomialDistribution):
        return ("dist", canon(np.asarray(v.ps)), tuple(v.shape))
    if isinstance(v, QOperation):
        extra = ()
        if hasattr(v, "shape") and type(v).__name__ == "MProcess":
            extra = (tuple(v.shape), bool(v.mode_sampling))
        if type(v).__name__ == "Povm":
            extra = (tuple(v.nums_local_outcomes),)
        return (
            "qop", type(v).__name__, canon(np.asarray(v.to_stacked_vector())),
            (bool(v.is_physicality_required), bool(v.is_estimation_object), bool(v.on_para_eq_constraint),
             bool(v.on_algo_eq_constraint), bool(v.on_algo_ineq_constraint), str(v.mode_proj_order), float(v.eps_proj_physical)),
            tuple(e.name for e in v.composite_system.elemental_systems), extra,
        )
    if v is None:
        return ("none",)
    if isinstance(v, str):
        return ("str", v)
    if hasattr(v, "toarray"):
        return canon(np.asarray(v.toarray()))
    return ("repr", repr(v))


def values_equal(a, b):
    """(equal_within_tolerance, bitwise_equal)."""
    if a == b:
        return True, True
    if a[0] != b[0]:
        return False, False
    if a[0] == "arr":
        if a[1] != b[1] or a[2] != b[2]:
            return False, False
        x = np.frombuffer(a[3], dtype=a[1])
        y = np.frombuffer(b[3], dtype=b[1])
        if x.size == 0:
            return True, True
        ok = bool(np.all(np.abs(x - y) <= 1e-12 * (1 + np.abs(y))))
        return ok, False
    if a[0] in ("seq",):
        if len(a[1]) != len(b[1]):
            return False, False
        oks = [values_equal(x, y) for x, y in zip(a[1], b[1])]
        return all(o[0] for o in oks), all(o[1] for o in oks)
    if a[0] in ("qop", "ens", "dist"):
        if len(a) != len(b):
            return False, False
        ok = True
        for x, y in zip(a[1:], b[1:]):
            if isinstance(x, tuple) and x and isinstance(x[0], str) and x[0] in ("arr", "seq", "qop", "ens", "dist"):
                o = values_equal(x, y)[0]
            elif isinstance(x, tuple) and x and isinstance(x[0], tuple):
                o = len(x) == len(y) and all(values_equal(p, q)[0] for p, q in zip(x, y))
            else:
                o = x == y
            ok = ok and o
        return ok, False
    return False, False


# ----------------------------------------------------------------------------- environment / derivations
SYSTEMS = {"A": ("1q", [0]), "B": ("1q", [1]), "Q": ("qutrit", [2]), "D": ("2q", [3, 4])}
SYS_KEYS = ["A", "B", "Q", "D"]
BASE_LAYOUT = [  # (system, type)
    ("A", "state"), ("A", "state"), ("A", "povm"), ("A", "povm"), ("A", "gate"), ("A", "gate"), ("A", "mprocess"),
    ("B", "state"), ("B", "povm"), ("B", "gate"), ("B", "mprocess"),
    ("Q", "state"), ("Q", "povm"), ("Q", "gate"),
    ("D", "state"), ("D", "povm"), ("D", "gate"), ("D", "gate"), ("D", "mprocess"),  # a composite of two elemental systems
]


class Env:
    """one set of composite systems + memoised evaluation of derivations."""

    def __init__(self, recipes):
        self.recipes = recipes
        self.sys = {k: build.c_sys_for(shape, names=names) for k, (shape, names) in SYSTEMS.items()}
        self.memo = {}

    def base(self, i):
        sysname, typ = BASE_LAYOUT[i]
        rec = self.recipes[i]
        c_sys = self.sys[sysname]
        basis = gen.ref_basis(SYSTEMS[sysname][0])
        x = gen.stacked_reference(rec["case"], basis)
        if rec.get("noise") is not None:
            nz = np.asarray(rec["noise"], dtype=float)[: x.size]
            x = x + rec["noise_size"] * np.resize(nz, x.size)
        return build.make(c_sys, typ, x, m=rec["case"].get("m"), mshape=rec["case"].get("mshape"), on_para_eq_constraint=rec["flag"])


def apply_op(name, objs, params, env):
    """the single quara call of a step.  objs: operand quara objects (in this env)."""
    from quara.objects.operators import compose_qoperations, tensor_product
    from quara.settings import Settings

    a = objs[0] if objs else None
    b = objs[1] if len(objs) > 1 else None
    if name == "is_physical":
        return a.is_physical()
    if name == "is_physical_atol":
        return (a.is_eq_constraint_satisfied(params["atol"]), a.is_ineq_constraint_satisfied(params["atol"]),
                a.is_physical(params["atol"], params["atol"]))
    if name == "set_atol_query":
        Settings.set_atol(float(params["atol"]))
        try:
            return (a.is_eq_constraint_satisfied(), a.is_ineq_constraint_satisfied(), a.is_physical())
        finally:
            Settings.set_atol(1e-13)
    if name == "to_var":
        return a.to_var()
    if name == "to_stacked_vector":
        return np.array(a.to_stacked_vector())
    if name == "eigenvalues":
        return [np.asarray(x) for x in np.atleast_1d(a.calc_eigenvalues())] if type(a).__name__ == "State" else a.calc_eigenvalues()
    if name == "density":
        return [a.to_density_matrix(), a.to_density_matrix_with_sparsity()]
    if name == "povm_matrices":
        return [a.matrices(), a.matrices_with_sparsity(), a.matrix(0), a.vec(0)]
    if name == "choi":
        return [a.to_choi_matrix(), a.to_choi_matrix_with_dict(), a.to_choi_matrix_with_sparsity()]
    if name == "kraus":
        return a.to_kraus_matrices()
    if name == "process_matrix":
        return a.to_process_matrix()
    if name == "convert_basis":
        return a.convert_basis(a.composite_system.comp_basis())
    if name == "to_comp_basis":
        return a.convert_to_comp_basis(params.get("mode", "row_major"))
    if name == "mprocess_views":
        return [a.to_povm(), a.to_choi_matrix(0), a.to_choi_matrix_with_dict(0), a.to_choi_matrix_with_sparsity(0),
                a.to_kraus_matrices(0), a.to_process_matrix(0), a.hs(0)]
    if name == "origin":
        return [a.generate_origin_obj(), a.generate_zero_obj()]
    if name == "gradient":
        return a.calc_gradient(params["k"] % max(1, len(a.to_var())))
    if name == "proj_eq":
        return a.calc_proj_eq_constraint()
    if name == "proj_ineq":
        return a.calc_proj_ineq_constraint()
    if name == "proj_physical":
        return a.calc_proj_physical()
    if name in ("proj_eq_var", "proj_ineq_var", "proj_physical_var", "closure_eq", "closure_ineq", "closure_physical"):
        flag = bool(params["flag"])
        tmpl = a.generate_from_var(a.to_var() if a.on_para_eq_constraint == flag else
                                   a.convert_stacked_vector_to_var(a.composite_system, np.array(a.to_stacked_vector(), dtype=float), on_para_eq_constraint=flag),
                                   on_para_eq_constraint=flag)
        var = np.array(tmpl.to_var(), dtype=np.float64)
        snap = var.tobytes()
        if name == "proj_eq_var":
            out = tmpl.calc_proj_eq_constraint_with_var(tmpl.composite_system, var, on_para_eq_constraint=flag)
        elif name == "proj_ineq_var":
            out = tmpl.calc_proj_ineq_constraint_with_var(tmpl.composite_system, var, on_para_eq_constraint=flag)
        elif name == "proj_physical_var":
            out = tmpl.calc_proj_physical_with_var(var, on_para_eq_constraint=flag)
        elif name == "closure_eq":
            out = [tmpl.func_calc_proj_eq_constraint(flag)(var), tmpl.func_calc_proj_eq_constraint_with_var(flag)(var)]
        elif name == "closure_ineq":
            out = [tmpl.func_calc_proj_ineq_constraint(flag)(var), tmpl.func_calc_proj_ineq_constraint_with_var(flag)(var)]
        else:
            out = [tmpl.func_calc_proj_physical(flag)(var), tmpl.func_calc_proj_physical_with_var(flag)(var)]
        out = _copy.deepcopy(out)
        return {"value": out, "arg_unchanged": var.tobytes() == snap}
    if name == "add":
        return a + b
    if name == "sub":
        return a - b
    if name == "mul":
        return a * float(params["s"])
    if name == "div":
        return a / float(params["s"])
    if name == "compose":
        return compose_qoperations(a, b)
    if name == "compose3":
        return compose_qoperations(objs[0], objs[1], objs[2])
    if name == "tensor":
        return tensor_product(a, b)
    if name == "copy":
        return a.copy()
    raise ValueError(name)


# operand type signatures per op: list of type-tuples (each operand) ; "same" = second operand like the first
OPS = {
    "is_physical": [("state", "povm", "gate", "mprocess")],
    "is_physical_atol": [("state", "povm", "gate", "mprocess")],
    "set_atol_query": [("state", "povm", "gate", "mprocess")],
    "to_var": [("state", "povm", "gate", "mprocess")],
    "to_stacked_vector": [("state", "povm", "gate", "mprocess")],
    "eigenvalues": [("state", "povm")],
    "density": [("state",)],
    "povm_matrices": [("povm",)],
    "choi": [("gate",)],
    "kraus": [("gate",)],
    "process_matrix": [("gate",)],
    "convert_basis": [("state", "povm", "gate", "mprocess")],
    "to_comp_basis": [("gate", "mprocess")],
    "mprocess_views": [("mprocess",)],
    "origin": [("state", "povm", "gate", "mprocess")],
    "gradient": [("state", "povm", "gate", "mprocess")],
    "proj_eq": [("state", "povm", "gate", "mprocess")],
    "proj_ineq": [("state", "povm", "gate", "mprocess")],
    "proj_physical": [("state", "povm", "gate", "mprocess")],
    "proj_eq_var": [("state", "povm", "gate", "mprocess")],
    "proj_ineq_var": [("state", "povm", "gate", "mprocess")],
    "proj_physical_var": [("state", "povm", "gate", "mprocess")],
    "closure_eq": [("state", "povm", "gate", "mprocess")],
    "closure_ineq": [("state", "povm", "gate", "mprocess")],
    "closure_physical": [("state", "povm", "gate")],
    "add": [("state", "povm", "gate", "mprocess"), "same"],
    "sub": [("state", "povm", "gate", "mprocess"), "same"],
    "mul": [("state", "povm", "gate", "mprocess")],
    "div": [("state", "povm", "gate", "mprocess")],
    "compose": "compose",
    "compose3": "compose3",
    "tensor": "tensor",
    "copy": [("state", "povm", "gate", "mprocess")],
}
DERIVING = {"proj_eq", "proj_ineq", "proj_physical", "add", "sub", "mul", "div", "compose", "tensor", "copy", "gradient"}
CACHE_ATTRS = ["dict_from_hs_to_choi", "dict_from_choi_to_hs", "basis_T_sparse", "basisconjugate_sparse",
               "basisconjugate_basis_sparse", "basis_basisconjugate_T_sparse", "basis_basisconjugate_T_sparse_from_1",
               "basishermitian_basis_T_from_1"]
COMPOSE_PAIRS = [("gate", "gate"), ("gate", "state"), ("povm", "state"), ("povm", "gate"), ("mprocess", "state"),
                 ("gate", "mprocess"), ("mprocess", "gate"), ("povm", "mprocess"), ("mprocess", "mprocess")]


class Machine:
    def __init__(self, case, ctx):
        self.case = case
        self.ctx = ctx
        self.env = Env(case["recipes"])
        self.pool = []  # entries: dict(expr, obj, typ, sys)
        # (replay files written before the layout was extended carry fewer recipes: the pool is the matching prefix)
        for i, (sysname, typ) in enumerate(BASE_LAYOUT[: len(case["recipes"])]):
            self.pool.append({"expr": ("base", i), "obj": self.env.base(i), "typ": typ, "sys": sysname, "uses": 0})
        self.snaps = [canon(e["obj"]) for e in self.pool]
        self.cache_deleted_since_use = {k: False for k in list(SYSTEMS) + ["AB"]}
        self.nontrivial = False
        self.n_bitwise_mismatch = 0

    # derivation replay on a fresh environment
    def fresh_eval(self, expr, fenv):
        key = repr(expr)
        if key in fenv.memo:
            return fenv.memo[key]
        if expr[0] == "base":
            v = fenv.base(expr[1])
        else:
            _, name, operands, params = expr
            objs = [self.fresh_eval(o, fenv) for o in operands]
            v = apply_op(name, objs, params, fenv)
        fenv.memo[key] = v
        return v

    def candidates(self, types, sysname=None, like=None):
        out = []
        for idx, e in enumerate(self.pool):
            if e["typ"] not in types:
                continue
            if sysname is not None and e["sys"] != sysname:
                continue
            if like is not None:
                o, l = e["obj"], like["obj"]
                if e["typ"] != like["typ"] or o.composite_system is not l.composite_system:
                    continue
                if np.asarray(o.to_stacked_vector()).shape != np.asarray(l.to_stacked_vector()).shape:
                    continue
                if (o.on_para_eq_constraint, o.is_physicality_required, o.is_estimation_object) != (
                        l.on_para_eq_constraint, l.is_physicality_required, l.is_estimation_object):
                    continue
            out.append(idx)
        return out

    def pick_operands(self, step):
        name = step["op"]
        sig = OPS[name]
        sel = step["sel"]
        if sig == "compose":
            t1, t2 = COMPOSE_PAIRS[sel[2] % len(COMPOSE_PAIRS)]
            c1 = self.candidates((t1,))
            if not c1:
                return None
            i1 = c1[sel[0] % len(c1)]
            c2 = [j for j in self.candidates((t2,), sysname=self.pool[i1]["sys"])
                  if self.pool[j]["obj"].composite_system is self.pool[i1]["obj"].composite_system]
            if not c2:
                return None
            return [i1, c2[sel[1] % len(c2)]]
        if sig == "compose3":
            chains = [("povm", "gate", "state"), ("gate", "gate", "state"), ("povm", "mprocess", "state"), ("mprocess", "gate", "state")]
            ch = chains[sel[2] % len(chains)]
            out = []
            sysname = SYS_KEYS[sel[0] % len(SYS_KEYS)]
            for k, t in enumerate(ch):
                c = [j for j in self.candidates((t,), sysname=sysname)
                     if self.pool[j]["obj"].composite_system is self.env.sys[sysname]]
                if not c:
                    return None
                out.append(c[sel[(k + 1) % 3] % len(c)])
            return out
        if sig == "tensor":
            t = ["state", "povm", "gate", "mprocess"][sel[2] % 4]
            c1 = [j for j in self.candidates((t,), sysname="A") if self.pool[j]["obj"].composite_system is self.env.sys["A"]]
            c2 = [j for j in self.candidates((t,), sysname="B") if self.pool[j]["obj"].composite_system is self.env.sys["B"]]
            if not c1 or not c2:
                return None
            pair = [c1[sel[0] % len(c1)], c2[sel[1] % len(c2)]]
            return pair if sel[2] % 8 < 4 else pair[::-1]
        c1 = self.candidates(sig[0])
        if not c1:
            return None
        i1 = c1[sel[0] % len(c1)]
        if len(sig) == 1:
            return [i1]
        c2 = self.candidates(sig[0], like=self.pool[i1])
        return [i1, c2[sel[1] % len(c2)]]

    def check_snapshots(self, where):
        for idx, e in enumerate(self.pool):
            now = canon(e["obj"])
            if now != self.snaps[idx]:
                self.ctx.check(False, "operand_unchanged",
                               f"pool[{idx}] ({e['typ']} on {e['sys']}, expr={str(e['expr'])[:80]}) changed during step {where}")

    def run(self):
        ctx = self.ctx
        for k, step in enumerate(self.case["program"]):
            name = step["op"]
            if name == "cache_delete":
                s = SYS_KEYS[step["sel"][0] % len(SYS_KEYS)]
                attr = CACHE_ATTRS[step["sel"][1] % len(CACHE_ATTRS)]
                getattr(self.env.sys[s], "delete_" + attr)()
                self.cache_deleted_since_use[s] = True
                ctx.label("step:cache_delete")
                continue
            if name == "cache_touch":
                s = SYS_KEYS[step["sel"][0] % len(SYS_KEYS)]
                fenv = Env(self.case["recipes"])
                tables = CACHE_ATTRS + ["comp_basis:row_major", "comp_basis:column_major", "basis"]
                attr = tables[step["sel"][1] % len(tables)]

                def table(env_):
                    c = env_.sys[s]
                    if attr.startswith("comp_basis:"):
                        return canon([np.asarray(x) for x in c.comp_basis(mode=attr.split(":")[1])])
                    if attr == "basis":
                        return canon([x for x in c.basis()])
                    return canon_cache(getattr(c, attr))

                v1, v2 = table(self.env), table(fenv)
                ctx.check(v1 == v2, "cache_table_equals_fresh", f"{attr} of system {s} at step {k}")
                if self.cache_deleted_since_use[s]:
                    self.nontrivial = True
                ctx.label("step:cache_touch")
                continue
            idxs = self.pick_operands(step)
            if idxs is None:
                ctx.label("step:skipped-no-operands")
                continue
            ctx.label("step:" + name)
            entries = [self.pool[i] for i in idxs]
            params = step.get("params", {})
            # used objects, shared systems
            res_shared = run_guarded(name, [e["obj"] for e in entries], params, self.env)
            # fresh twins on fresh systems
            fenv = Env(self.case["recipes"])
            res_fresh = run_guarded(name, [self.fresh_eval(e["expr"], fenv) for e in entries], params, fenv)
            ca, cb = canon_result(res_shared), canon_result(res_fresh)
            ok, bitwise = values_equal(ca, cb)
            if not bitwise:
                self.n_bitwise_mismatch += 1
            ctx.check(ok, "used_equals_fresh", lambda: f"step {k} op={name} operands={idxs} used!=fresh: {describe(ca)} vs {describe(cb)}")
            if isinstance(res_shared, dict) and "arg_unchanged" in res_shared:
                ctx.check(res_shared["arg_unchanged"], "argument_array_unchanged", f"step {k} op={name} params={params} operand {entries[0]['typ']}")
            self.check_snapshots(f"{k}:{name}")
            if name in SCRIBBLE_OPS and not (isinstance(res_shared, tuple) and len(res_shared) == 2 and res_shared[0] == "exc"):
                # the caller edits, in place, the raw arrays this conversion handed out: neither the operand nor the answer
                # to the same question asked again may move (no memoised result or internal table is handed out)
                # (mprocess_views ends with the accessor hs(0), which hands out the stored matrix itself like Gate.hs)
                n_edit = _scribble(res_shared[1:6] if name == "mprocess_views" else res_shared)
                if n_edit:
                    ctx.label("scribbled:" + name)
                    self.check_snapshots(f"{k}:{name}:caller-edited-result")
                    again = run_guarded(name, [e["obj"] for e in entries], params, self.env)
                    ok2, _ = values_equal(canon_result(again), ca)
                    ctx.check(ok2, "requery_after_caller_edit_unchanged",
                              lambda: f"step {k} op={name} operands={idxs}: asking again after the caller edited the first answer gives {describe(canon_result(again))} instead of {describe(ca)}")
            if name in ("add", "sub", "mul", "div") and hasattr(res_shared, "to_stacked_vector"):
                # the result of arithmetic is a new object: the caller zeroes / reconfigures / writes into a second result
                # of the same operation; neither the operands nor the first result may move
                twin = run_guarded(name, [e["obj"] for e in entries], params, self.env)
                if hasattr(twin, "to_stacked_vector"):
                    try:
                        twin.set_mode_proj_order("ineq_eq" if twin.mode_proj_order == "eq_ineq" else "eq_ineq")
                        twin.set_zero()
                    except Exception:
                        pass
                    for arr in ([getattr(twin, "_vec", None), getattr(twin, "_hs", None)]
                                + list(getattr(twin, "_vecs", None) or []) + list(getattr(twin, "_hss", None) or [])):
                        if isinstance(arr, np.ndarray) and arr.flags.writeable and arr.size:
                            arr.reshape(-1)[0] += 1.0
                    ctx.label("arith-result-edited")
                    self.check_snapshots(f"{k}:{name}:caller-edited-second-result")
                    ok3, _ = values_equal(canon_result(res_shared), ca)
                    ctx.check(ok3, "first_result_unchanged_after_editing_second", f"step {k} op={name}")
            for e in entries:
                if e["uses"] > 0 and (e["expr"][0] == "op" or name.startswith("proj")):
                    self.nontrivial = True
                if self.cache_deleted_since_use.get(e["sys"]):
                    self.nontrivial = True
                    self.cache_deleted_since_use[e["sys"]] = False
                e["uses"] += 1
            if name in DERIVING and not isinstance(res_shared, tuple) and hasattr(res_shared, "to_stacked_vector") and len(self.pool) < 40:
                typ = type(res_shared).__name__.lower()
                if typ in ("state", "povm", "gate", "mprocess"):
                    sysname = entries[0]["sys"] if name != "tensor" else "AB"
                    self.pool.append({"expr": ("op", name, [e["expr"] for e in entries], params), "obj": res_shared,
                                      "typ": typ, "sys": sysname, "uses": 0})
                    self.snaps.append(canon(res_shared))
                    if name == "copy":
                        # copies are independent of their originals: write into the copy, the original must not move
                        arr = res_shared.to_stacked_vector() if typ in ("state",) else None
                        if typ == "state":
                            res_shared.vec[0] += 1.0
                        elif typ == "gate":
                            res_shared.hs[0, 0] += 1.0
                        elif typ == "mprocess":
                            res_shared.hss[0][0, 0] += 1.0
                        self.snaps[-1] = canon(res_shared)
                        self.pool[-1]["expr"] = ("op", "copy_written", [entries[0]["expr"]], {})
                        self.check_snapshots(f"{k}:write-into-copy")
        if self.n_bitwise_mismatch:
            ctx.label("not-bitwise")
        ctx.nontrivial(self.nontrivial)


SCRIBBLE_OPS = {"eigenvalues", "density", "povm_matrices", "choi", "kraus", "process_matrix", "convert_basis",
                "to_comp_basis", "mprocess_views"}


def _scribble(r):
    """in-place edit of every writable dense array found in a raw result (lists / tuples / dict values searched)."""
    n = 0
    if isinstance(r, np.ndarray):
        if r.flags.writeable and r.size and r.dtype.kind in "fc":
            r *= 0.5
            r.flat[0] += 3.0
            return 1
        return 0
    if isinstance(r, dict):
        return sum(_scribble(v) for v in r.values())
    if isinstance(r, (list, tuple)):
        return sum(_scribble(v) for v in r)
    return n


def canon_cache(v):
    if isinstance(v, dict):
        return tuple(sorted((repr(k), repr([(a, b, complex(c)) for a, b, c in val])) for k, val in v.items()))
    return canon(v)


def run_guarded(name, objs, params, env):
    try:
        return apply_op(name, objs, params, env)
    except Exception as e:  # both sides must fail alike; the failure itself belongs to other properties
        return ("exc", type(e).__name__)


def canon_result(r):
    if isinstance(r, tuple) and len(r) == 2 and r[0] == "exc":
        return ("str", "exc:" + r[1])
    if isinstance(r, dict):
        return canon(r["value"])
    return canon(r)


def describe(c):
    s = repr(c)
    return s[:160]


# "copy_written" derivation for fresh replay
_orig_apply = apply_op


def apply_op(name, objs, params, env):  # noqa: F811
    if name == "copy_written":
        c = objs[0].copy()
        t = type(c).__name__
        if t == "State":
            c.vec[0] += 1.0
        elif t == "Gate":
            c.hs[0, 0] += 1.0
        elif t == "MProcess":
            c.hss[0][0, 0] += 1.0
        return c
    return _orig_apply(name, objs, params, env)


# ----------------------------------------------------------------------------- strategies
@st.composite
def recipe(draw, sysname, typ):
    shape = SYSTEMS[sysname][0]
    if typ == "state":
        c = draw(gen.state_case((shape,)))
    elif typ == "povm":
        c = draw(gen.povm_case((shape,), (2, 3)))
    elif typ == "gate":
        c = draw(gen.gate_case((shape,), max_rank=2))
    else:
        c = draw(gen.mprocess_case((shape,), (2, 3), max_per=1))
    r = {"case": c, "flag": draw(st.booleans())}
    if draw(st.booleans()):
        r["noise"] = draw(gen.raw(16))
        r["noise_size"] = draw(st.sampled_from([1e-3, 1e-1, 1.0]))
    else:
        r["noise"] = None
    return r


@st.composite
def step_st(draw):
    name = draw(st.sampled_from(list(OPS) + ["cache_delete"] * 5 + ["cache_touch"] * 4 + ["to_comp_basis"] * 3
                                + ["proj_eq_var", "proj_ineq_var", "compose", "tensor", "proj_physical", "process_matrix", "kraus"]))
    s = {"op": name, "sel": [draw(st.integers(0, 63)) for _ in range(3)]}
    p = {}
    if name in ("is_physical_atol", "set_atol_query"):
        p["atol"] = draw(st.sampled_from([1e-13, 1e-9, 1e-5, 1e-2]))
    if name in ("mul", "div"):
        p["s"] = draw(st.sampled_from([2.0, 0.5, -1.0, 3.0, 1.0, 1.0]))  # 1.0: normalising an already normalised object
    if name == "gradient":
        p["k"] = draw(st.integers(0, 500))
    if name == "to_comp_basis":
        p["mode"] = draw(st.sampled_from(["row_major", "column_major"]))
    if name.endswith("_var") or name.startswith("closure"):
        p["flag"] = draw(st.booleans())
    if p:
        s["params"] = p
    return s


@st.composite
def program_case(draw, tier):
    recipes = [draw(recipe(s, t)) for s, t in BASE_LAYOUT]
    n = 40 if tier == "quick" else 60
    prog = draw(st.lists(step_st(), min_size=4, max_size=n))
    return {"recipes": recipes, "program": prog}


def check_program(case, ctx):
    Machine(case, ctx).run()


def minimize_program(case, fails, key="program"):
    """greedy delta-debugging over the step list (then over recipe noise); `fails(case)` re-runs the interpreter."""
    import copy

    best = copy.deepcopy(case)
    chunk = max(1, len(best[key]) // 2)
    while chunk >= 1:
        i = 0
        while i < len(best[key]):
            trial = copy.deepcopy(best)
            del trial[key][i:i + chunk]
            if len(trial[key]) >= 1 and fails(trial):
                best = trial
            else:
                i += chunk
        chunk //= 2
    for r in best.get("recipes", []):
        if r.get("noise") is not None:
            trial = copy.deepcopy(best)
            idx = best["recipes"].index(r)
            trial["recipes"][idx]["noise"] = None
            if fails(trial):
                best = trial
    return best


# ----------------------------------------------------------------------------- estimation with re-used loss / algorithm objects
@st.composite
def est_program(draw, tier):
    from harness.checks import c10

    kind = draw(st.sampled_from(["qst", "povmt"]))
    base = draw(tomo.tomo_case((kind,), ("1q",), (2, 3)))
    other = draw(tomo.tomo_case((kind,), ("1q",), (2, 3)))
    other["flag"] = draw(st.sampled_from([base["flag"], not base["flag"]]))
    steps = []
    n = draw(st.integers(2, 4))
    d = 2
    for _ in range(n):
        which = draw(st.sampled_from(["base", "base", "other"]))
        src = base if which == "base" else other
        ns, no = c10._nsched_nout(src["tomo"], d, src["true"].get("m"), src)
        steps.append({
            "tomo": which,
            "datadesc": draw(tomo.data_for(ns, no, kinds=("fewshot", "far"))),
            "weight": draw(st.sampled_from(["identity", "custom", "inverse_sample_covariance", "inverse_unbiased_covariance"])),
            "wraw": draw(gen.raw(ns * no)),
            "order": draw(st.sampled_from(["eq_ineq", "ineq_eq"])),
            "constraints": draw(st.sampled_from([[True, True], [True, True], [True, False]])),
        })
    return {"base": base, "other": other, "steps": steps, "loss": draw(st.sampled_from(["se", "se_fast", "re", "re_fast"])),
            "algo": draw(st.sampled_from(["backtracking", "momentum", "fista"]))}


def _loss_option(name, weight, wraw, sizes):
    from harness.checks import c10

    loss, opt = c10.make_loss(name, 4)
    cls = type(opt)
    if weight == "identity" or (weight.startswith("inverse") and not name.startswith("se")):
        return cls("identity")
    if weight.startswith("inverse"):
        return cls(weight)  # weights derived from each dataset
    if name.startswith("se"):
        mats, i = [], 0
        for s in sizes:
            w = 0.5 + np.abs(np.asarray(wraw[i:i + s], dtype=float))
            mats.append(np.diag(w))
            i += s
        return cls("custom", weights=mats)
    ws = [0.5 + abs(float(wraw[j])) for j in range(len(sizes))]
    return cls("custom", weights=ws)


def check_est_program(case, ctx):
    from quara.protocol.qtomography.standard.loss_minimization_estimator import LossMinimizationEstimator
    from harness.checks import c10

    tomos = {}
    for key in ("base", "other"):
        qt, c_sys, info = tomo.build_tomo(case[key])
        tomos[key] = (qt, info, tomo.exact_dists(case[key], info))
    ctx.label(case["base"]["tomo"], case["loss"], case["algo"])
    loss_shared, _ = c10.make_loss(case["loss"], tomos["base"][0].num_variables)
    algo_shared, _ = c10.make_algo(case["algo"])
    prev = None
    differing = False
    singles, last_opts = {}, {}
    for k, stp in enumerate(case["steps"]):
        qt, info, exact = tomos[stp["tomo"]]
        empi = tomo.make_empi(stp["datadesc"], exact)
        sizes = [len(e[1]) for e in empi]
        lopt = _loss_option(case["loss"], stp["weight"], stp["wraw"], sizes)
        kw = dict(on_algo_eq_constraint=stp["constraints"][0], on_algo_ineq_constraint=stp["constraints"][1],
                  mode_proj_order=stp["order"], max_iteration_optimization=60, max_iteration_proj_physical=2000)
        _, aopt = c10.make_algo(case["algo"], **kw)

        def run(loss, algo):
            try:
                r = LossMinimizationEstimator().calc_estimate(qt, empi, loss, lopt, algo, aopt)
                return np.asarray(r.estimated_var, dtype=float)
            except (ValueError, np.linalg.LinAlgError, ZeroDivisionError, FloatingPointError) as e:  # aborts both alike
                return type(e).__name__

        used = run(loss_shared, algo_shared)
        loss_f, _ = c10.make_loss(case["loss"], qt.num_variables)
        algo_f, _ = c10.make_algo(case["algo"])
        fresh = run(loss_f, algo_f)
        key_now = (stp["tomo"], stp["weight"], stp["order"], tuple(stp["constraints"]))
        if prev is not None and key_now != prev:
            differing = True
        prev = key_now
        if isinstance(used, str) or isinstance(fresh, str):
            ctx.check(isinstance(used, str) and isinstance(fresh, str), "reused_objects_equal_fresh:exception",
                      f"step {k}: used={used if isinstance(used, str) else 'ok'} fresh={fresh if isinstance(fresh, str) else 'ok'}")
            continue
        ctx.close(used, fresh, 1e-12 * (1 + float(np.max(np.abs(fresh)))), "reused_objects_equal_fresh",
                  f"step {k} of {len(case['steps'])}: tomo={stp['tomo']} weight={stp['weight']} order={stp['order']} constraints={stp['constraints']}")
        singles.setdefault(stp["tomo"], []).append((empi, fresh))
        last_opts[stp["tomo"]] = (lopt, aopt, stp)

    # one calc_estimate_sequence call over the datasets of one tomography (re-used loss / algorithm objects, the options of
    # its last step): element k is the estimate of dataset k alone
    for key, (lopt, aopt, stp) in sorted(last_opts.items()):
        qt = tomos[key][0]
        data = [e for e, _ in singles[key]]
        if len(data) < 2:
            continue
        ctx.label("sequence:" + stp["weight"])
        alone = []
        for e in data:
            lf, _ = c10.make_loss(case["loss"], qt.num_variables)
            af, _ = c10.make_algo(case["algo"])
            try:
                alone.append(np.asarray(LossMinimizationEstimator().calc_estimate(qt, e, lf, lopt, af, aopt).estimated_var, dtype=float))
            except (ValueError, np.linalg.LinAlgError, ZeroDivisionError, FloatingPointError) as ex:
                alone.append(type(ex).__name__)
        if any(isinstance(a, str) for a in alone):
            continue
        try:
            seq = LossMinimizationEstimator().calc_estimate_sequence(qt, data, loss_shared, lopt, algo_shared, aopt).estimated_var_sequence
        except (ValueError, np.linalg.LinAlgError, ZeroDivisionError, FloatingPointError) as ex:
            ctx.check(False, "sequence_equals_each_dataset_alone:exception", f"{type(ex).__name__}: {ex}")
            continue
        if ctx.check(len(seq) == len(alone), "sequence_equals_each_dataset_alone:len", f"{len(seq)} vs {len(alone)}"):
            for k, (a, b) in enumerate(zip(seq, alone)):
                ctx.close(np.asarray(a, dtype=float), b, 1e-12 * (1 + float(np.max(np.abs(b)))), "sequence_equals_each_dataset_alone",
                          f"element {k} of {len(alone)}: tomo={key} weight={stp['weight']}")
    ctx.nontrivial(differing)


# ----------------------------------------------------------------------------- matrix bases cannot be modified
@st.composite
def basis_case(draw, tier):
    return {
        "basis": draw(st.sampled_from(["pauli", "npauli", "gellmann", "ngellmann", "hermitian2", "nhermitian3", "ggm3", "nggm2", "comp2", "comp3_col"])),
        "wrapper": draw(st.sampled_from(["MatrixBasis", "VectorizedMatrixBasis", "from_list"])),
        "elem": draw(st.integers(0, 8)),
        "pos": [draw(st.integers(0, 2)), draw(st.integers(0, 2))],
        "povm": draw(gen.povm_case(("1q", "qutrit"), (2, 4))),
    }


def _named_basis(name):
    from quara.objects import matrix_basis as mb

    return {
        "pauli": lambda: mb.get_pauli_basis(), "npauli": lambda: mb.get_normalized_pauli_basis(),
        "gellmann": lambda: mb.get_gell_mann_basis(), "ngellmann": lambda: mb.get_normalized_gell_mann_basis(),
        "hermitian2": lambda: mb.get_hermitian_basis(2), "nhermitian3": lambda: mb.get_normalized_hermitian_basis(3),
        "ggm3": lambda: mb.get_generalized_gell_mann_basis(dim=3), "nggm2": lambda: mb.get_normalized_generalized_gell_mann_basis(dim=2),
        "comp2": lambda: mb.get_comp_basis(2), "comp3_col": lambda: mb.get_comp_basis(3, mode="column_major"),
    }[name]()


def check_basis_immutable(case, ctx):
    from quara.objects.matrix_basis import MatrixBasis, VectorizedMatrixBasis

    b = _named_basis(case["basis"])
    ctx.label(case["basis"], case["wrapper"])
    src = None
    if case["wrapper"] == "from_list":
        src = [np.array(x, dtype=np.complex128) for x in b]
        b = MatrixBasis(src)
    elif case["wrapper"] == "VectorizedMatrixBasis":
        b = VectorizedMatrixBasis(b)
    k = case["elem"] % len(b)
    before = [np.array(x, copy=True) for x in b]
    elem = b[k]
    i, j = case["pos"][0] % elem.shape[0], case["pos"][1] % (elem.shape[1] if elem.ndim > 1 else elem.shape[0])

    def item_assign():
        b[k] = np.zeros_like(elem)

    def attr_item_assign():
        b.basis[k] = np.zeros_like(elem)

    def elem_write():
        if elem.ndim > 1:
            b[k][i, j] = 5.0
        else:
            b[k][i] = 5.0

    ctx.raises((TypeError,), item_assign, "basis_item_assignment_raises")
    ctx.raises((TypeError,), attr_item_assign, "basis_attr_item_assignment_raises")
    ctx.raises((ValueError,), elem_write, "basis_element_write_raises")
    if src is not None:
        src[k][i, j] += 7.0  # mutate the list handed to the constructor afterwards
        src[0] = np.zeros_like(src[0])
    after = [np.array(x, copy=True) for x in b]
    ctx.check(all(np.array_equal(x, y) for x, y in zip(before, after)), "basis_unchanged")
    # Povm stores read-only deep copies of its vecs
    pc = case["povm"]
    c_sys = build.c_sys_for(pc["shape"])
    x = gen.stacked_reference(pc, gen.ref_basis(pc["shape"]))
    n = c_sys.dim ** 2
    vecs = [x[t * n:(t + 1) * n].copy() for t in range(pc["m"])]
    p = build.make(c_sys, "povm", x, m=pc["m"])
    from quara.objects.povm import Povm

    p2 = Povm(c_sys, vecs, is_physicality_required=False)
    snap = canon(p2)
    vecs[0][0] += 3.0
    ctx.check(canon(p2) == snap, "povm_independent_of_constructor_argument")

    def povm_write():
        p2.vecs[0][0] = 9.0

    ctx.raises((ValueError,), povm_write, "povm_vecs_read_only")
    ctx.nontrivial(True)


# ----------------------------------------------------------------------------- helper operands (lists / arrays handed to utilities)
@st.composite
def helper_case(draw, tier):
    k = draw(st.integers(2, 4))
    names = draw(st.permutations(list(range(k))))
    offset = draw(st.sampled_from([0, 0, 3, -2]))
    gap = draw(st.sampled_from([1, 1, 2]))
    return {"names": [offset + gap * int(v) for v in names], "sizes": [draw(st.sampled_from([2, 2, 3])) for _ in range(k)]}


def check_helper_operands(case, ctx):
    """matrix_util.calc_permutation_matrix / convert_list_by_permutation_matrix: the answer depends on the values of the
    name and size sequences only (list, tuple-free array forms agree), the sequences handed in are left as they were, and
    asking again gives the same answer."""
    from quara.utils import matrix_util as mu

    names, sizes = list(case["names"]), list(case["sizes"])
    ctx.label(f"subsystems:{len(names)}", "sorted" if names == sorted(names) else "unsorted")
    ref = mu.calc_permutation_matrix(list(names), list(sizes))
    ref = np.array(ref, copy=True)
    # independent statement: the permutation maps the Kronecker product in argument order to the one in ascending name order
    vecs = [np.arange(1, s + 1, dtype=float) + 0.25 * i for i, s in enumerate(sizes)]
    arg_order = vecs[0]
    for v in vecs[1:]:
        arg_order = np.kron(arg_order, v)
    asc = None
    for i in np.argsort(names):
        asc = vecs[i] if asc is None else np.kron(asc, vecs[i])
    ctx.close(ref @ arg_order, asc, 1e-12, "permutation_matrix_sorts_kron_factors")
    for form in ("list", "int64_array", "tuple_sizes"):
        if form == "list":
            a, b = list(names), list(sizes)
        elif form == "int64_array":
            a, b = np.array(names, dtype=np.int64), np.array(sizes, dtype=np.int64)
        else:
            a, b = list(names), tuple(sizes)
        keep_a, keep_b = list(a), list(b)
        try:
            p1 = mu.calc_permutation_matrix(a, b)
            p2 = mu.calc_permutation_matrix(a, b)
        except TypeError:
            ctx.label("form_rejected:" + form)  # tuples are not promised
            continue
        ctx.check(list(a) == keep_a and list(b) == keep_b, "helper_operands_unchanged:" + form,
                  lambda: f"names {keep_a} -> {list(a)}, sizes {keep_b} -> {list(b)}")
        ctx.equal(np.asarray(p1), ref, "helper_same_answer_for_same_values:" + form)
        ctx.equal(np.asarray(p2), ref, "helper_repeat_call_same_answer:" + form)
    ctx.nontrivial(names != sorted(names) and len(set(sizes)) > 1)


FACETS = {
    "helper_operands": {
        "strategy": helper_case,
        "check": check_helper_operands,
        "budget": {"quick": {"examples": 300, "shards": 2}, "thorough": {"examples": 4000, "shards": 8}},
        "nontrivial": "names not in ascending order and unequal subsystem sizes",
        "min_nontrivial": 20,
    },
    "object_pool": {
        "strategy": program_case,
        "check": check_program,
        "minimize": minimize_program,
        "budget": {"quick": {"examples": 160, "shards": 16}, "thorough": {"examples": 12800, "shards": 16}},
        "nontrivial": "a cache deletion between two uses of the same system, or a projection / derived object used again later",
        "min_nontrivial": 40,
    },
    "estimation_reuse": {
        "strategy": est_program,
        "check": check_est_program,
        "minimize": lambda case, fails: minimize_program(case, fails, key="steps"),
        "budget": {"quick": {"examples": 96, "shards": 16}, "thorough": {"examples": 6400, "shards": 16}},
        "nontrivial": ">= 2 consecutive estimation steps that differ in tomography, weighting mode, projection order or constraint options",
        "min_nontrivial": 20,
    },
    "basis_immutable": {
        "strategy": basis_case,
        "check": check_basis_immutable,
        "budget": {"quick": {"examples": 300, "shards": 2}, "thorough": {"examples": 6000, "shards": 8}},
        "nontrivial": "every case (a named basis x wrapper x element position, and a constructed POVM)",
        "min_nontrivial": 50,
    },
}
