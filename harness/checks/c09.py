"""C09 - Linear estimation inverts the forward model exactly.

Oracles are pure numpy (refmodel): the forward model A_ref v + b_ref is rebuilt from the tester *matrices* and the documented
variable layout; exact distributions are Born-rule traces of matrices / Kraus operators; the least-squares solution is
numpy.linalg.lstsq on the reference model.  quara is only asked for the estimate.
"""
import math

import numpy as np
from hypothesis import strategies as st

from harness import build, gen
from harness import refmodel as rm

RULE = (
    "Configuration = tomography type (StandardQst/Povmt/Qpt/Qmpt) x on_para_eq_constraint flag x shape (1q, qutrit, 2q; 2q for "
    "QPT/QMPT in the thorough tier only) x tester set x schedule list ('all' or a permutation-with-repeats of it) x unknown outcome "
    "count m in 2..4.  Tester sets are informationally complete BY CONSTRUCTION: a fixed spanning family (d^2 pure states / "
    "1+d(d-1) projective bases) pushed through a drawn invertible channel (1-t)U.U^+ + t.Gamma (t<=0.2, so sigma_min>=0.4), "
    "an invertible stochastic post-processing of outcomes, optional outcome splitting (m=d+1), over-complete extras (generic "
    "drawn testers, duplicates) and a drawn order; or fully generic drawn testers whose completeness is decided numerically with a "
    "margin (cond<=1e3, otherwise inconclusive).  Incomplete sets are built by counting (too few testers), by confinement to a "
    "subspace with exact floating-point zeros (commuting POVMs, real states), or have fewer rows than variables.  True objects come "
    "from gen.* (interior, pure, rank-deficient, projective, unitary, identity...).  Data vectors: exact Born distributions, exact+noise, "
    "frequency vectors k/N, adversarial non-normalised reals (scales 1e-3..1e3, negative entries).  All schedules have equal outcome "
    "counts (precondition of LinearEstimator's np.vstack).  Non-trivial: exact_recovery - the true object is not the maximally "
    "symmetric one and the tester set is transformed/over-complete/generic; normal_equations - the data is off the model range "
    "(residual > 1e-3 |f|); sequence - >= 2 pairwise different datasets; count_independence - the two count lists differ; "
    "rank_guard - the set is clearly incomplete on the reference model and on quara's own matrix."
)
ASSUMPTIONS = [
    "variable layout as documented by the objects' to_var/to_stacked_vector (C03's subject): State vec[1:], Povm first m-1 elements, "
    "Gate HS rows 1.., MProcess all HS blocks with the first row of the last block removed",
    "outcome order of a QMPT schedule is (mprocess outcome, povm outcome) row-major, schedules 'all' are state-major (C08's subject)",
    "normal-equation error model: |v_hat - v*| <= C n eps cond(A)^2 (|f-b|/sigma_min + 1), C=200; configurations with cond(A) > 1e3 are inconclusive",
    "rank verdicts are only asserted when the reference singular value s_N is <= 0.05 x numpy's matrix_rank threshold (incomplete) or >= 1e-3 s_1 (complete)",
]
TECHNIQUE = (
    "property-based testing (Hypothesis): tester sets complete/incomplete by construction, exact Born data and arbitrary data "
    "vectors vs an independent numpy forward model + numpy.linalg.lstsq; bitwise metamorphic relations (sequence, counts)"
)
LEVEL_TEXT = (
    "Generated-input search over configurations and data vectors: exact recovery is checked for generated physical objects of every "
    "rank class, and - because the estimator is affine in the data - the normal equations are checked for arbitrary data vectors "
    "against an independent forward model, which together decide the inversion for every object of the model per configuration; "
    "sequence/count relations are bitwise.  It cannot prove absence over all configurations."
)
LEVEL_NOTE = (
    "Trusted: numpy LAPACK (svd, lstsq, qr), harness/refmodel.py, the documented variable layout and outcome order (checked by C03/C08), "
    "and the stated normal-equation error model."
)

EPS = 2.220446049250313e-16
TOMOS = ("qst", "povmt", "qpt", "qmpt")
TRUE_TYPE = {"qst": "state", "povmt": "povm", "qpt": "gate", "qmpt": "mprocess"}
COND_CAP = 1e3
C_TOL = 200.0


# ----------------------------------------------------------------------------- spanning families (pure numpy)
def _proj(v):
    v = np.asarray(v, dtype=complex)
    return np.outer(v, v.conj())


def _e(d, i):
    v = np.zeros(d, dtype=complex)
    v[i] = 1.0
    return v


def base_states(d):
    """d^2 pure states spanning operator space: |l>, (|j>+|k>)/sqrt2, (|j>+i|k>)/sqrt2."""
    out = [_proj(_e(d, l)) for l in range(d)]
    f = 1 / math.sqrt(2)
    for j in range(d):
        for k in range(j + 1, d):
            out.append(_proj(f * (_e(d, j) + _e(d, k))))
    for j in range(d):
        for k in range(j + 1, d):
            out.append(_proj(f * (_e(d, j) + 1j * _e(d, k))))
    return out


def real_states(d):
    """d(d+1)/2 real pure states: span = real symmetric matrices only (exact zeros on the antisymmetric directions)."""
    return base_states(d)[: d + d * (d - 1) // 2]


def base_povms(d):
    """1 + d(d-1) projective d-outcome measurements whose elements span operator space."""
    out = [[_proj(_e(d, l)) for l in range(d)]]
    f = 1 / math.sqrt(2)
    for ph in (1.0, 1j):
        for j in range(d):
            for k in range(j + 1, d):
                els = []
                for l in range(d):
                    if l == j:
                        els.append(_proj(f * (_e(d, j) + ph * _e(d, k))))
                    elif l == k:
                        els.append(_proj(f * (_e(d, j) - ph * _e(d, k))))
                    else:
                        els.append(_proj(_e(d, l)))
                out.append(els)
    return out


def stochastic_from_raw(raw, rows, cols):
    """rows x cols column-stochastic matrix (every column a probability vector), entries >= ~1e-3/rows."""
    a = np.abs(np.round(np.asarray(raw[: rows * cols], dtype=float) * 2.0 ** 24) / 2.0 ** 24)
    if a.size < rows * cols:
        a = np.concatenate([a, np.zeros(rows * cols - a.size)])
    a = a.reshape(rows, cols) + 1e-3
    return a / a.sum(axis=0, keepdims=True)


def channel_kraus(tf, d):
    """Kraus operators of (1-t) U.U^+ + t Gamma: invertible as a linear map for t <= 0.2, d <= 4."""
    u = rm.unitary_from_raw(tf["raw_u"], d) if tf.get("rot") else np.eye(d, dtype=complex)
    t = float(tf.get("t", 0.0))
    ks = [math.sqrt(1 - t) * u]
    if t > 0:
        ks += [math.sqrt(t) * k for k in rm.kraus_from_raw(tf["raw_ch"], d, tf["r"])]
    return ks


def _decorrelate(item, i):
    """generic tester i with a fixed index-dependent offset on its raw arrays, so that simple Hypothesis draws (all zeros,
    repeated arrays) still denote *different* testers.  Deterministic (no RNG); the case stays the plain drawn data."""
    out = dict(item)
    for key in ("raw", "raw_u", "raw_p"):
        if key in out:
            a = np.asarray(out[key], dtype=float)
            j = np.arange(a.size)
            out[key] = list(a + 0.37 * np.sin(1.7 * (i + 1) * (j + 1) + 0.3 * i))
    return out


def tester_state_mats(spec, shape):
    d = gen.dim_of(shape)
    mode = spec["mode"]
    if mode == "generic":
        return [rm.herm(gen.state_matrix(_decorrelate(c, i))) for i, c in enumerate(spec["items"])]
    if mode == "subspace":
        fam = real_states(d)
        mats = list(fam) + [fam[i % len(fam)] for i in spec.get("dups", [])]
        return [mats[i] for i in spec["perm"]]
    ks = channel_kraus(spec["tf"], d)
    fam = [rm.herm(rm.apply_kraus(ks, r)) for r in base_states(d)]
    if mode == "few":
        mats = [fam[i] for i in spec["pick"]]
        mats += [mats[i % len(mats)] for i in spec.get("dups", [])]
        return mats
    mats = list(fam) + [rm.herm(gen.state_matrix(c)) for c in spec.get("extra", [])]
    mats += [fam[i % len(fam)] for i in spec.get("dups", [])]
    return [mats[i] for i in spec["perm"]]


def _post_split(els, spec, idx, d):
    """invertible outcome post-processing, then optional split of the last outcome (span unchanged)."""
    m0 = len(els)
    s = float(spec.get("post_s", 0.0))
    if s > 0:
        tmat = (1 - s) * np.eye(m0) + s * stochastic_from_raw(spec["raw_post"], m0, m0)
        els = [sum(tmat[x, y] * els[y] for y in range(m0)) for x in range(m0)]
    if spec.get("split"):
        q = 0.1 + 0.8 * abs(float(spec["raw_q"][idx % len(spec["raw_q"])]))
        els = els[:-1] + [q * els[-1], (1 - q) * els[-1]]
    return [rm.herm(e) for e in els]


def tester_povm_mats(spec, shape):
    d = gen.dim_of(shape)
    mode = spec["mode"]
    m = spec["m"]
    if mode == "generic":
        return [[rm.herm(e) for e in gen.povm_matrices(_decorrelate(c, i))] for i, c in enumerate(spec["items"])]
    if mode == "subspace":
        comp = [_proj(_e(d, l)) for l in range(d)]
        out = []
        for raw in spec["raws"]:
            tmat = stochastic_from_raw(raw, m, d)
            out.append([sum(tmat[x, l] * comp[l] for l in range(d)) for x in range(m)])
        return out
    ks = channel_kraus(spec["tf"], d)
    fam = [_post_split([rm.heisenberg(ks, e) for e in els], spec, i, d) for i, els in enumerate(base_povms(d))]
    if mode == "few":
        mats = [fam[i] for i in spec["pick"]]
        mats += [mats[i % len(mats)] for i in spec.get("dups", [])]
        return mats
    mats = list(fam) + [[rm.herm(e) for e in gen.povm_matrices(c)] for c in spec.get("extra", [])]
    mats += [fam[i % len(fam)] for i in spec.get("dups", [])]
    return [mats[i] for i in spec["perm"]]


# ----------------------------------------------------------------------------- reference model
def num_vars(tomo, d, m, flag):
    n = d * d
    if tomo == "qst":
        return n - (1 if flag else 0)
    if tomo == "povmt":
        return (m - (1 if flag else 0)) * n
    if tomo == "qpt":
        return n * n - (n if flag else 0)
    return m * n * n - (n if flag else 0)


def embedding(tomo, d, m, flag):
    """(T, c): stacked = T v + c, the documented variable layout of the estimated object."""
    n = d * d
    if tomo == "qst":
        full = n
    elif tomo == "povmt":
        full = m * n
    elif tomo == "qpt":
        full = n * n
    else:
        full = m * n * n
    if not flag:
        return np.eye(full), np.zeros(full)
    nv = num_vars(tomo, d, m, True)
    t = np.zeros((full, nv))
    c = np.zeros(full)
    if tomo == "qst":
        c[0] = 1 / math.sqrt(d)
        t[1:, :] = np.eye(nv)
    elif tomo == "povmt":
        t[:nv, :] = np.eye(nv)
        c[nv] = math.sqrt(d)  # last element = I - sum of the others ; vec(I)= sqrt(d) e0
        for x in range(m - 1):
            t[nv:, x * n : (x + 1) * n] -= np.eye(n)
    elif tomo == "qpt":
        c[0] = 1.0  # first HS row = e0
        t[n:, :] = np.eye(nv)
    else:
        hs = n * n
        head = (m - 1) * hs
        t[:head, :head] = np.eye(head)
        c[head] = 1.0  # first row of the last block = e0 - sum of the first rows of the other blocks
        for x in range(m - 1):
            t[head : head + n, x * hs : x * hs + n] -= np.eye(n)
        t[head + n :, head:] = np.eye(hs - n)
    return t, c


def all_pairs(tomo, n_states, n_povms):
    if tomo == "qst":
        return [(None, j) for j in range(n_povms)]
    if tomo == "povmt":
        return [(k, None) for k in range(n_states)]
    return [(k, j) for k in range(n_states) for j in range(n_povms)]


class Model:
    """everything the oracles need, from the case alone (no quara)."""

    def __init__(self, case):
        self.case = case
        self.tomo = tomo = case["tomo"]
        self.shape = shape = case["shape"]
        self.flag = bool(case["flag"])
        self.d = d = gen.dim_of(shape)
        self.n = n = d * d
        self.m = case.get("m")
        self.basis = basis = gen.ref_basis(shape)
        self.state_mats = tester_state_mats(case["states"], shape) if case.get("states") else []
        self.povm_mats = tester_povm_mats(case["povms"], shape) if case.get("povms") else []
        self.S = np.array([np.real(rm.vec(basis, r)) for r in self.state_mats]).reshape(len(self.state_mats), n)
        self.P = [np.array([np.real(rm.vec(basis, e)) for e in els]) for els in self.povm_mats]
        self.mp = len(self.povm_mats[0]) if self.povm_mats else None
        allp = all_pairs(tomo, len(self.state_mats), len(self.povm_mats))
        sched = case.get("sched", "all")
        self.pairs = allp if sched == "all" else [allp[i] for i in sched]
        if tomo == "qst":
            self.outs = self.mp
        elif tomo == "povmt":
            self.outs = self.m
        elif tomo == "qpt":
            self.outs = self.mp
        else:
            self.outs = self.m * self.mp
        self.A_full = self._a_full()
        self.T, self.c = embedding(tomo, d, self.m, self.flag)
        self.A = self.A_full @ self.T
        self.b = self.A_full @ self.c
        self.N = self.A.shape[1]
        sv = np.linalg.svd(self.A, compute_uv=False)
        self.sv = np.concatenate([sv, np.zeros(max(0, self.N - sv.size))])[: self.N]
        self.s1 = float(self.sv[0])
        self.sN = float(self.sv[-1])

    def _a_full(self):
        n, tomo, m = self.n, self.tomo, self.m
        rows = []
        for (k, j) in self.pairs:
            if tomo == "qst":
                for x in range(self.mp):
                    rows.append(self.P[j][x])
            elif tomo == "povmt":
                for x in range(m):
                    r = np.zeros(m * n)
                    r[x * n : (x + 1) * n] = self.S[k]
                    rows.append(r)
            elif tomo == "qpt":
                for y in range(self.mp):
                    rows.append(np.outer(self.P[j][y], self.S[k]).reshape(-1))
            else:
                for x in range(m):
                    for y in range(self.mp):
                        r = np.zeros(m * n * n)
                        r[x * n * n : (x + 1) * n * n] = np.outer(self.P[j][y], self.S[k]).reshape(-1)
                        rows.append(r)
        return np.array(rows)

    # -- verdict margins
    def rank_threshold(self):
        return max(self.A.shape) * EPS * self.s1

    def clearly_complete(self):
        return self.A.shape[0] >= self.N and self.sN > 0 and self.sN >= self.s1 / COND_CAP

    def clearly_incomplete(self, a=None):
        if a is None:
            return self.A.shape[0] < self.N or self.sN <= 0.05 * self.rank_threshold()
        a = np.asarray(a, dtype=float)
        if a.shape[0] < a.shape[1]:
            return True
        sv = np.linalg.svd(a, compute_uv=False)
        return float(sv[-1]) <= 0.05 * max(a.shape) * EPS * float(sv[0])

    def cond(self):
        return self.s1 / self.sN if self.sN > 0 else float("inf")

    # -- true object
    def x_true(self, true):
        return gen.stacked_reference(true, self.basis)

    def v_true(self, true):
        x = self.x_true(true)
        if not self.flag:
            return x
        # T has orthonormal-selection structure on the free coordinates: pick them
        sel = np.array([int(np.argmax(self.T[:, i] == 1.0)) for i in range(self.T.shape[1])])
        return x[sel]

    def exact_f(self, true):
        """Born-rule distributions from matrices / Kraus operators (independent of vec/HS algebra)."""
        obj = gen.matrices(true)
        out = []
        for (k, j) in self.pairs:
            if self.tomo == "qst":
                out.append(rm.born(self.povm_mats[j], obj))
            elif self.tomo == "povmt":
                out.append(rm.born(obj, self.state_mats[k]))
            elif self.tomo == "qpt":
                out.append(rm.born(self.povm_mats[j], rm.apply_kraus(obj, self.state_mats[k])))
            else:
                ps = []
                for ks in obj:
                    ps.extend(rm.born(self.povm_mats[j], rm.apply_kraus(ks, self.state_mats[k])))
                out.append(np.array(ps))
        return np.array(out, dtype=float).reshape(len(self.pairs), self.outs)

    def lstsq(self, f):
        y = np.asarray(f, dtype=float).reshape(-1) - self.b
        v, *_ = np.linalg.lstsq(self.A, y, rcond=None)
        return v

    def tol_v(self, f):
        y = np.asarray(f, dtype=float).reshape(-1) - self.b
        k = self.cond()
        return C_TOL * self.N * EPS * k * k * (float(np.linalg.norm(y)) / self.sN + 1.0)


# ----------------------------------------------------------------------------- quara side
def build_qt(case, mdl, reverse=False, c_sys=None):
    from quara.protocol.qtomography.standard.standard_povmt import StandardPovmt
    from quara.protocol.qtomography.standard.standard_qmpt import StandardQmpt
    from quara.protocol.qtomography.standard.standard_qpt import StandardQpt
    from quara.protocol.qtomography.standard.standard_qst import StandardQst

    c_sys = build.c_sys_for(case["shape"]) if c_sys is None else c_sys
    states = [build.make(c_sys, "state", mdl.S[k]) for k in range(mdl.S.shape[0])]
    povms = [build.make(c_sys, "povm", p.reshape(-1), m=p.shape[0]) for p in mdl.P]
    tomo, flag = case["tomo"], bool(case["flag"])
    if reverse:  # another tomography of the same type and sizes: the same testers in the opposite order, every schedule
        states, povms = states[::-1], povms[::-1]
    if reverse or case.get("sched", "all") == "all":
        sched = "all"
    else:
        sched = []
        for (k, j) in mdl.pairs:
            if tomo == "qst":
                sched.append([("state", 0), ("povm", j)])
            elif tomo == "povmt":
                sched.append([("state", k), ("povm", 0)])
            elif tomo == "qpt":
                sched.append([("state", k), ("gate", 0), ("povm", j)])
            else:
                sched.append([("state", k), ("mprocess", 0), ("povm", j)])
    from harness import reps

    if isinstance(sched, list):  # the custom schedule list as list or tuple (of lists or tuples)
        inner = reps.pick(("inner", repr(sched)[:200]), 2)
        sched = reps.seq([tuple(x) if inner else list(x) for x in sched], "sched")
    flag = reps.flag(flag, tomo + case["shape"])
    if tomo == "qst":
        qt = StandardQst(povms, on_para_eq_constraint=flag, schedules=sched)
    elif tomo == "povmt":
        qt = StandardPovmt(states, num_outcomes=case["m"], on_para_eq_constraint=flag, schedules=sched)
    elif tomo == "qpt":
        qt = StandardQpt(states, povms, on_para_eq_constraint=flag, schedules=sched)
    else:
        qt = StandardQmpt(states, povms, num_outcomes=case["m"], on_para_eq_constraint=flag, schedules=sched)
    return qt, c_sys


def as_data(f, counts):
    f = np.asarray(f, dtype=np.float64)
    return [(int(counts[i % len(counts)]), np.array(f[i], dtype=np.float64)) for i in range(f.shape[0])]


def data_matrix(case, mdl, ds):
    """the data vector a dataset spec denotes, shape (n_schedules, outs).  Pure function of the case."""
    ns, outs = len(mdl.pairs), mdl.outs
    kind = ds["kind"]
    if kind in ("exact", "noisy"):
        f = mdl.exact_f(case["true"])
        if kind == "noisy":
            r = np.asarray(ds["raw"][: ns * outs], dtype=float).reshape(ns, outs)
            f = f + float(ds["eps"]) * r
        return f
    r = np.asarray(ds["raw"][: ns * outs], dtype=float).reshape(ns, outs)
    if kind == "freq":
        q = np.abs(r) + 1e-6
        q = q / q.sum(axis=1, keepdims=True)
        n_tot = int(ds["n"])
        out = np.zeros_like(q)
        for i in range(ns):  # largest-remainder rounding: integer counts that sum to n_tot
            fl = np.floor(q[i] * n_tot)
            rest = int(n_tot - fl.sum())
            order = np.argsort(-(q[i] * n_tot - fl), kind="stable")
            fl[order[:rest]] += 1
            out[i] = fl / n_tot
        return out
    if kind == "adversarial":
        return float(ds["scale"]) * r
    raise ValueError(kind)


def _estimator():
    from quara.protocol.qtomography.standard.linear_estimator import LinearEstimator

    return LinearEstimator()


def _labels(case, mdl, ctx):
    ctx.label(case["tomo"], case["shape"], f"flag:{bool(case['flag'])}")
    for side in ("states", "povms"):
        if case.get(side):
            ctx.label(f"{side}:{case[side]['mode']}")
    if case.get("m") is not None:
        ctx.label(f"m:{case['m']}")
    if mdl.mp is not None:
        ctx.label(f"m_povm:{mdl.mp}")
    ctx.label("sched:all" if case.get("sched", "all") == "all" else "sched:list")
    rows = mdl.A.shape[0]
    ctx.label("square" if rows == mdl.N else ("over-determined" if rows > mdl.N else "under-determined"))
    k = mdl.cond()
    if math.isfinite(k):
        ctx.label("cond:1e%d" % int(math.floor(math.log10(max(k, 1.0)))))


def _overcomplete(case):
    for side in ("states", "povms"):
        sp = case.get(side)
        if sp and (sp.get("extra") or sp.get("dups")):
            return True
    return case.get("sched", "all") != "all"


def _transformed(case):
    for side in ("states", "povms"):
        sp = case.get(side)
        if not sp:
            continue
        if sp["mode"] == "generic":
            return True
        tf = sp.get("tf") or {}
        if tf.get("rot") or tf.get("t", 0) > 0 or sp.get("post_s", 0) > 0 or sp.get("split"):
            return True
    return False


def _symmetric_true(true):
    k = true.get("kind")
    return (true["type"] == "state" and k == "mixed") or (true["type"] == "povm" and k == "trivial") or (
        true["type"] == "gate" and k in ("identity", "depol")
    )


def _complete_or_skip(mdl, qt, ctx):
    """True when the configuration is clearly complete; records the guard verdict.  Ill-conditioned => inconclusive."""
    if not mdl.clearly_complete():
        a_q = np.asarray(qt.calc_matA(), dtype=float)
        if a_q.shape == mdl.A.shape and mdl.clearly_incomplete() and mdl.clearly_incomplete(a_q):
            # a generic drawn set that happens to be degenerate (identical testers): the guard oracle applies
            ctx.label("degenerate-generic")
            f = np.zeros((len(mdl.pairs), mdl.outs))
            ctx.raises((Exception,), lambda: _estimator().calc_estimate(qt, as_data(f, [1])), f"rank_guard:{mdl.tomo}", lambda_detail(mdl))
            return False
        ctx.skip("ill-conditioned")
        return False
    ctx.check(bool(qt.is_fullrank_matA()), "fullrank_verdict_complete",
              lambda: f"is_fullrank_matA False but reference cond={mdl.cond():.3e}")
    return True


def _var_of(res, ctx, mdl, oid):
    v = np.asarray(res.estimated_var)
    ok = ctx.check(v.shape == (mdl.N,) and v.dtype.kind == "f", oid + ":shape", f"estimated_var shape {v.shape} dtype {v.dtype}, expected ({mdl.N},)")
    return v if ok and v.shape == (mdl.N,) else None


# ----------------------------------------------------------------------------- checks
def check_exact_recovery(case, ctx):
    from quara.simulation import consistency_check

    mdl = Model(case)
    _labels(case, mdl, ctx)
    true = case["true"]
    ctx.label("true:" + str(true.get("kind", "generic")))
    qt, c_sys = build_qt(case, mdl)
    if not _complete_or_skip(mdl, qt, ctx):
        return
    tomo = case["tomo"]
    f = mdl.exact_f(true)
    x_true = mdl.x_true(true)
    v_true = mdl.v_true(true)
    # self-consistency of the reference model itself (harness error if the model were wrong, not a quara verdict)
    assert np.max(np.abs(mdl.A @ v_true + mdl.b - f.reshape(-1))) < 1e-9, "reference forward model inconsistent"
    tol = mdl.tol_v(f)
    est = _estimator()
    # ONE estimator object serves several tomographies in a row (as in a loop over tester sets): a sibling tomography of
    # the same shape built and dropped inside a helper, then a freshly built copy of this case's tomography; whatever the
    # estimator keeps between calls, each answer belongs to the tomography given in that call
    true_obj0 = build.make(c_sys, TRUE_TYPE[tomo], x_true, m=true.get("m"))

    def _serve_sibling():
        qo, _ = build_qt(case, mdl, reverse=True, c_sys=c_sys)
        est.calc_estimate(qo, [(100, np.asarray(p, dtype=float)) for p in qo.calc_prob_dists(true_obj0)],
                          is_computation_time_required=True)

    for rnd in range(2):
        try:
            _serve_sibling()
        except (ValueError, np.linalg.LinAlgError) as e:
            ctx.label("shared-estimator:sibling-failed:" + type(e).__name__)
            break
        qt_again, _ = build_qt(case, mdl, c_sys=c_sys)
        res_again = est.calc_estimate(qt_again, as_data(f, case["counts"]), is_computation_time_required=True)
        v_again = _var_of(res_again, ctx, mdl, f"exact_var:{tomo}")
        if v_again is None:
            return
        ctx.close(v_again, v_true, tol, f"exact_var:{tomo}:estimator_shared_with_sibling_tomography", f"round {rnd}")
        del qt_again, res_again
        ctx.label("shared-estimator:rounds")
    res = est.calc_estimate(qt, as_data(f, case["counts"]), is_computation_time_required=bool(case.get("timed")))
    v = _var_of(res, ctx, mdl, f"exact_var:{tomo}")
    if v is None:
        return
    ctx.close(v, v_true, tol, f"exact_var:{tomo}")
    q = res.estimated_qoperation
    ctx.check(type(q).__name__.lower() == TRUE_TYPE[tomo], f"exact_object_type:{tomo}", f"got {type(q).__name__}")
    ctx.check(bool(q.on_para_eq_constraint) == mdl.flag, f"exact_object_flag:{tomo}")
    xs = build.stacked_of(q)
    # stacked = T v + c:  |dx|_inf <= |T|_inf |dv|,  |dx|_2 <= sqrt(|T|_1 |T|_inf) |dv|_2
    t_inf = max(1.0, float(np.max(np.abs(mdl.T).sum(axis=1))))
    t_2 = max(1.0, math.sqrt(t_inf * float(np.max(np.abs(mdl.T).sum(axis=0)))))
    ctx.close(xs, x_true, tol * t_inf + rm.algebraic_tol(mdl.d), f"exact_object:{tomo}")
    if case.get("timed"):
        ct = res.computation_times
        ctx.check(ct is not None and len(ct) == 1, "computation_times_len", f"{ct}")

    # the library's own consistency check: quara's circuit produces the data (truncation below 1e-8 is C08's documented behaviour;
    # its effect on the data is measured, not asserted, and propagated through |A^+|)
    true_obj = build.make(c_sys, TRUE_TYPE[tomo], x_true, m=true.get("m"))
    # (the same true-object instance has been through the consistency check of ANOTHER tomography before: the answer is
    # about the tomography given now)
    try:
        qt_other, _ = build_qt(case, mdl, reverse=True, c_sys=c_sys)
        consistency_check.calc_mse_of_true_estimated(true_obj, qt_other, _estimator())
        ctx.label("consistency:true_object_checked_before_on_other_tomography")
    except (ValueError, np.linalg.LinAlgError) as e:  # the other tomography is only a warm-up
        ctx.label("consistency:warmup_failed:" + type(e).__name__)
    mse, res2 = consistency_check.calc_mse_of_true_estimated(true_obj, qt, est)
    fq = qt.generate_prob_dists_sequence(true_obj)
    try:
        fq = np.array([np.asarray(p, dtype=float) for p in fq])
    except Exception:
        fq = None
    if fq is None or fq.shape != f.shape:
        ctx.check(False, f"circuit_data_shape:{tomo}", f"generate_prob_dists_sequence shape {None if fq is None else fq.shape} expected {f.shape}")
        return
    df = float(np.linalg.norm(fq - f))
    bound_v = (df / mdl.sN) * (1 + 1e-6) + tol  # |A^+ (f_q - f)| + rounding of the estimator
    bound_2 = t_2 * bound_v + 1e-14
    ctx.leq(math.sqrt(max(float(mse), 0.0)), bound_2, 1e-3 * bound_2, f"consistency_mse:{tomo}", f"data deviation {df:.3e}")
    if bound_2 * bound_2 < 1e-11:
        ctx.check(float(mse) < 1e-10, f"consistency_verdict:{tomo}", f"mse={mse}")
    else:
        ctx.label("consistency:margin")
    if df > 1e-12:
        ctx.label("circuit-truncation")
    xs2 = build.stacked_of(res2.estimated_qoperation)
    ctx.close(xs2, x_true, t_inf * bound_v + 1e-14, f"consistency_object:{tomo}")
    ctx.nontrivial((not _symmetric_true(true)) and (_transformed(case) or _overcomplete(case)))
    if _overcomplete(case):
        ctx.label("over-complete")


def check_normal_equations(case, ctx):
    mdl = Model(case)
    _labels(case, mdl, ctx)
    ds = case["data"][0]
    ctx.label("data:" + ds["kind"])
    qt, _ = build_qt(case, mdl)
    if not _complete_or_skip(mdl, qt, ctx):
        return
    tomo = case["tomo"]
    f = data_matrix(case, mdl, ds)
    res = _estimator().calc_estimate(qt, as_data(f, case["counts"]))
    v = _var_of(res, ctx, mdl, f"lstsq:{tomo}")
    if v is None:
        return
    tol = mdl.tol_v(f)
    v_ref = mdl.lstsq(f)
    ctx.close(v, v_ref, tol, f"lstsq:{tomo}")
    y = f.reshape(-1) - mdl.b
    g = mdl.A.T @ (mdl.A @ v - y)
    tol_g = mdl.s1 ** 2 * tol + 50 * mdl.N * EPS * mdl.s1 * (float(np.linalg.norm(y)) + 1.0)
    ctx.close(g, np.zeros_like(g), tol_g, f"residual_orthogonal:{tomo}")
    r = mdl.A @ v_ref - y
    off = float(np.linalg.norm(r)) > 1e-3 * (float(np.linalg.norm(f)) + 1e-300)
    ctx.nontrivial(off)
    ctx.label("off-model" if off else "on-model")
    # affine in the data: the estimate of the mean of two datasets is the mean of the estimates (second dataset when present)
    if len(case["data"]) > 1:
        f2 = data_matrix(case, mdl, case["data"][1])
        v2 = np.asarray(_estimator().calc_estimate(qt, as_data(f2, case["counts"])).estimated_var)
        vm = np.asarray(_estimator().calc_estimate(qt, as_data((f + f2) / 2, case["counts"])).estimated_var)
        if v2.shape == v.shape and vm.shape == v.shape:
            ctx.close(vm, (v + v2) / 2, tol + mdl.tol_v(f2), f"affine_in_data:{tomo}")


def check_sequence(case, ctx):
    mdl = Model(case)
    _labels(case, mdl, ctx)
    qt, _ = build_qt(case, mdl)
    if not _complete_or_skip(mdl, qt, ctx):
        return
    tomo = case["tomo"]
    fs = [data_matrix(case, mdl, ds) for ds in case["data"]]
    ctx.label(f"k:{len(fs)}")
    seq = [as_data(f, case["counts"]) for f in fs]
    est = _estimator()
    timed = bool(case.get("timed"))
    rs = est.calc_estimate_sequence(qt, seq, is_computation_time_required=timed)
    vs = rs.estimated_var_sequence
    if not ctx.check(len(vs) == len(fs), f"sequence_len:{tomo}", f"{len(vs)} estimates for {len(fs)} datasets"):
        return
    ct = rs.computation_times
    ctx.check((ct is not None and len(ct) == len(fs)) if timed else ct is None, f"sequence_times:{tomo}", f"{ct}")
    qs = rs.estimated_qoperation_sequence
    ctx.check(len(qs) == len(fs), f"sequence_qoperation_len:{tomo}")
    ctx.equal(np.asarray(rs.estimated_var), np.asarray(vs[0]), f"sequence_first:{tomo}")
    if len(qs) >= 1:
        ctx.equal(build.stacked_of(rs.estimated_qoperation), build.stacked_of(qs[0]), f"sequence_first_qoperation:{tomo}")
    for i, f in enumerate(fs):
        one = _estimator().calc_estimate(qt, as_data(f, case["counts"]))
        vi = np.asarray(one.estimated_var)
        ctx.equal(np.asarray(vs[i]), vi, f"sequence_equals_single:{tomo}", f"dataset {i}")
        if i < len(qs):
            ctx.equal(build.stacked_of(qs[i]), build.stacked_of(one.estimated_qoperation), f"sequence_qoperation_equals_single:{tomo}", f"dataset {i}")
        if np.asarray(vs[i]).shape == (mdl.N,):
            ctx.close(np.asarray(vs[i]), mdl.lstsq(f), mdl.tol_v(f), f"sequence_lstsq:{tomo}", f"dataset {i}")
    # the result keeps answering the same after the caller has handled what it returned (re-ordered the returned list,
    # reset a returned estimate): every read is derived from the estimated variables, not from objects handed out before
    snap_q = [build.stacked_of(q).copy() for q in qs]
    snap_v = [np.array(v, copy=True) for v in vs]
    if len(qs) >= 1:
        qs.reverse()
        qs[0].set_zero()
        first = rs.estimated_qoperation
        first_stacked = build.stacked_of(first).copy()
        first.set_zero()
        again = rs.estimated_qoperation_sequence
        if ctx.check(len(again) == len(snap_q), f"reread_len:{tomo}", f"{len(again)} vs {len(snap_q)}"):
            for i, q in enumerate(again):
                ctx.equal(build.stacked_of(q), snap_q[i], f"reread_sequence_unchanged:{tomo}", f"dataset {i}")
        ctx.equal(first_stacked, snap_q[0], f"reread_first_unchanged:{tomo}")
        ctx.equal(build.stacked_of(rs.estimated_qoperation), snap_q[0], f"reread_first_unchanged:{tomo}")
        for i, v in enumerate(rs.estimated_var_sequence):
            ctx.equal(np.asarray(v), snap_v[i], f"reread_var_unchanged:{tomo}", f"dataset {i}")
    distinct = len(fs) >= 2 and all(
        float(np.max(np.abs(fs[i] - fs[j]))) > 1e-6 for i in range(len(fs)) for j in range(i + 1, len(fs))
    )
    ctx.nontrivial(distinct)


def check_count_independence(case, ctx):
    mdl = Model(case)
    _labels(case, mdl, ctx)
    ds = case["data"][0]
    ctx.label("data:" + ds["kind"])
    qt, _ = build_qt(case, mdl)
    if not _complete_or_skip(mdl, qt, ctx):
        return
    tomo = case["tomo"]
    f = data_matrix(case, mdl, ds)
    c1, c2 = case["counts"], case["counts2"]
    r1 = _estimator().calc_estimate(qt, as_data(f, c1))
    r2 = _estimator().calc_estimate(qt, as_data(f, c2))
    ctx.equal(np.asarray(r1.estimated_var), np.asarray(r2.estimated_var), f"count_independence:{tomo}", f"counts {c1[:4]} vs {c2[:4]}")
    ctx.equal(build.stacked_of(r1.estimated_qoperation), build.stacked_of(r2.estimated_qoperation), f"count_independence_object:{tomo}")
    # inside a sequence with different counts per dataset
    rs = _estimator().calc_estimate_sequence(qt, [as_data(f, c1), as_data(f, c2)])
    if len(rs.estimated_var_sequence) == 2:
        ctx.equal(np.asarray(rs.estimated_var_sequence[0]), np.asarray(rs.estimated_var_sequence[1]), f"count_independence_sequence:{tomo}")
    v = np.asarray(r1.estimated_var)
    if v.shape == (mdl.N,):
        ctx.close(v, mdl.lstsq(f), mdl.tol_v(f), f"count_unweighted_lstsq:{tomo}")
    ns = len(mdl.pairs)
    e1 = [int(c1[i % len(c1)]) for i in range(ns)]
    e2 = [int(c2[i % len(c2)]) for i in range(ns)]
    ctx.nontrivial(e1 != e2 and (len(set(e1)) > 1 or len(set(e2)) > 1))


def check_rank_guard(case, ctx):
    mdl = Model(case)
    _labels(case, mdl, ctx)
    ctx.label("incomplete:" + case.get("why", "?"))
    qt, _ = build_qt(case, mdl)
    a_q = np.asarray(qt.calc_matA(), dtype=float)
    if not ctx.check(a_q.shape == mdl.A.shape, "matA_shape", f"{a_q.shape} vs reference {mdl.A.shape}"):
        return
    if not (mdl.clearly_incomplete() and mdl.clearly_incomplete(a_q)):
        ctx.skip("rank-borderline")
        return
    tomo = case["tomo"]
    ds = case["data"][0]
    f = data_matrix(case, mdl, ds)
    ctx.label("data:" + ds["kind"])
    est = _estimator()
    ctx.raises((Exception,), lambda: est.calc_estimate(qt, as_data(f, case["counts"])), f"rank_guard:{tomo}",
               lambda_detail(mdl))
    ctx.raises((Exception,), lambda: est.calc_estimate_sequence(qt, [as_data(f, case["counts"])] * 2), f"rank_guard_sequence:{tomo}",
               lambda_detail(mdl))
    ctx.nontrivial(True)


def lambda_detail(mdl):
    return f"A is {mdl.A.shape[0]}x{mdl.N}, s_N/s_1={mdl.sN / mdl.s1 if mdl.s1 else 0:.2e} (informationally incomplete by construction)"


# ----------------------------------------------------------------------------- known-finding predicates
def case_dims(case):
    """(rows, cols) of the forward model of a case, from the case alone."""
    d = gen.dim_of(case["shape"])
    tomo = case["tomo"]
    ns = case["states"]["n"] if case.get("states") else 0
    npv = case["povms"]["n"] if case.get("povms") else 0
    mp = case["povms"]["m"] if case.get("povms") else None
    m = case.get("m")
    sched = case.get("sched", "all")
    n_sched = len(all_pairs(tomo, ns, npv)) if sched == "all" else len(sched)
    outs = {"qst": mp, "povmt": m, "qpt": mp}.get(tomo) if tomo != "qmpt" else m * mp
    return n_sched * outs, num_vars(tomo, d, m, bool(case["flag"]))


def pred_fewer_rows_than_variables(case):
    rows, cols = case_dims(case)
    return rows < cols


# ----------------------------------------------------------------------------- strategies
def _shape_pool(tomo, tier, facet):
    if tomo in ("qst", "povmt"):
        return ["1q", "qutrit", "2q"]
    if tomo == "qpt":
        return ["1q", "1q", "qutrit"] if tier == "quick" else ["1q", "1q", "qutrit", "qutrit", "2q"]
    return ["1q", "1q", "1q", "qutrit"] if tier == "quick" else ["1q", "1q", "qutrit", "qutrit", "2q"]


@st.composite
def transform_st(draw, d):
    rot = draw(st.booleans())
    t = draw(st.sampled_from([0.0, -1.0, -1.0]))
    if t < 0:
        t = draw(st.floats(0.01, 0.2, allow_nan=False))
    tf = {"rot": rot, "t": float(t)}
    if rot:
        tf["raw_u"] = draw(gen.raw(2 * d * d))
    if t > 0:
        tf["r"] = draw(st.integers(1, 2))
        tf["raw_ch"] = draw(gen.raw(2 * d * tf["r"] * d))
    return tf


@st.composite
def states_spec_st(draw, shape, mode):
    d = gen.dim_of(shape)
    if mode == "generic":
        k = d * d + draw(st.integers(0, 2))
        items = [draw(gen.state_case((shape,))) for _ in range(k)]
        return {"mode": mode, "items": items, "n": k}
    if mode == "subspace":
        nf = d * (d + 1) // 2
        dups = draw(st.lists(st.integers(0, nf - 1), max_size=3))
        tot = nf + len(dups)
        return {"mode": mode, "dups": dups, "perm": list(draw(st.permutations(list(range(tot))))), "n": tot}
    tf = draw(transform_st(d))
    if mode == "few":
        k = draw(st.integers(1, d * d - 1))
        pick = list(draw(st.permutations(list(range(d * d)))))[:k]
        dups = draw(st.lists(st.integers(0, k - 1), max_size=2))
        return {"mode": mode, "tf": tf, "pick": pick, "dups": dups, "n": k + len(dups)}
    extra = [draw(gen.state_case((shape,))) for _ in range(draw(st.sampled_from([0, 0, 1, 2])))]
    dups = draw(st.lists(st.integers(0, d * d - 1), max_size=2))
    tot = d * d + len(extra) + len(dups)
    return {"mode": "base", "tf": tf, "extra": extra, "dups": dups, "perm": list(draw(st.permutations(list(range(tot))))), "n": tot}


@st.composite
def povms_spec_st(draw, shape, mode):
    d = gen.dim_of(shape)
    if mode == "generic":
        m = draw(st.integers(2, d + 1))
        need = -(-(d * d - 1) // (m - 1))
        k = need + draw(st.integers(0, 2))
        items = [draw(gen.povm_case((shape,), (m, m))) for _ in range(k)]
        return {"mode": mode, "items": items, "m": m, "n": k}
    if mode == "subspace":
        m = draw(st.integers(2, d + 1))
        k = draw(st.integers(1, 5))
        return {"mode": mode, "m": m, "raws": [draw(gen.raw(m * d)) for _ in range(k)], "n": k}
    tf = draw(transform_st(d))
    kb = 1 + d * (d - 1)
    spec = {"tf": tf, "m": d}
    s = draw(st.sampled_from([0.0, -1.0]))
    if s < 0:
        spec["post_s"] = draw(st.floats(0.01, 0.3, allow_nan=False))
        spec["raw_post"] = draw(gen.raw(d * d))
    if mode == "few":
        kmax = (d * d - 2) // (d - 1)
        k = draw(st.integers(1, kmax))
        spec.update({"mode": mode, "pick": list(draw(st.permutations(list(range(kb)))))[:k]})
        spec["dups"] = draw(st.lists(st.integers(0, k - 1), max_size=2))
        spec["n"] = k + len(spec["dups"])
        return spec
    if draw(st.booleans()):
        spec["split"] = True
        spec["raw_q"] = draw(gen.raw(kb))
        spec["m"] = d + 1
    extra = [draw(gen.povm_case((shape,), (spec["m"], spec["m"]))) for _ in range(draw(st.sampled_from([0, 0, 1, 2])))]
    dups = draw(st.lists(st.integers(0, kb - 1), max_size=2))
    tot = kb + len(extra) + len(dups)
    spec.update({"mode": "base", "extra": extra, "dups": dups, "perm": list(draw(st.permutations(list(range(tot))))), "n": tot})
    return spec


def _true_st(tomo, shape, m):
    if tomo == "qst":
        return gen.state_case((shape,))
    if tomo == "povmt":
        return gen.povm_case((shape,), (m, m))
    if tomo == "qpt":
        return gen.gate_case((shape,))
    return gen.mprocess_case((shape,), (m, m))


@st.composite
def dataset_st(draw, size, kinds):
    kind = draw(st.sampled_from(kinds))
    ds = {"kind": kind}
    if kind == "exact":
        return ds
    ds["raw"] = draw(gen.raw(size))
    if kind == "noisy":
        ds["eps"] = draw(gen.log_uniform(1e-6, 1e-1))
    elif kind == "freq":
        ds["n"] = draw(st.sampled_from([1, 2, 3, 10, 100, 1000]))
    elif kind == "adversarial":
        ds["scale"] = draw(st.sampled_from([1.0, 1.0, 1e-3, 1e3]))
    return ds


@st.composite
def config_st(draw, tier, facet, complete=True):
    tomo = draw(st.sampled_from(TOMOS))
    shape = draw(st.sampled_from(_shape_pool(tomo, tier, facet)))
    d = gen.dim_of(shape)
    flag = draw(st.booleans())
    case = {"tomo": tomo, "shape": shape, "flag": flag}
    if tomo in ("povmt", "qmpt"):
        hi = 4 if (tomo == "povmt" or d == 2) else (3 if d == 3 else 2)
        case["m"] = draw(st.integers(2, hi))
        # a measurement process with ONE outcome (a gate seen as an instrument) is a valid unknown of StandardQmpt
        if tomo == "qmpt" and draw(st.integers(0, 5)) == 0:
            case["m"] = 1
    good = ["base", "base", "base", "generic"]
    bad = ["few", "few", "subspace"]
    need_s = tomo != "qst"
    need_p = tomo != "povmt"
    if complete:
        ms = draw(st.sampled_from(good))
        mp_ = draw(st.sampled_from(good))
    else:
        which = draw(st.sampled_from(["s", "p", "sp"])) if (need_s and need_p) else ("s" if need_s else "p")
        ms = draw(st.sampled_from(bad if "s" in which else good))
        mp_ = draw(st.sampled_from(bad if "p" in which else good))
        case["why"] = "+".join(x for x in ((ms if "s" in which and need_s else None), (mp_ if "p" in which and need_p else None)) if x)
    if need_s:
        case["states"] = draw(states_spec_st(shape, ms))
    if need_p:
        case["povms"] = draw(povms_spec_st(shape, mp_))
    n_all = len(all_pairs(tomo, case["states"]["n"] if need_s else 0, case["povms"]["n"] if need_p else 0))
    if complete and n_all <= 40 and draw(st.sampled_from([False, False, True])):
        reps = draw(st.lists(st.integers(0, n_all - 1), max_size=2))
        idx = list(range(n_all)) + reps
        case["sched"] = [idx[i] for i in draw(st.permutations(list(range(len(idx)))))]
    else:
        case["sched"] = "all"
    case["true"] = draw(_true_st(tomo, shape, case.get("m")))
    case["counts"] = draw(st.lists(st.integers(1, 10 ** 7), min_size=1, max_size=6))
    return case


def _size(case):
    return case_dims(case)[0]


@st.composite
def exact_case(draw, tier):
    case = draw(config_st(tier, "exact"))
    case["timed"] = draw(st.booleans())
    return case


@st.composite
def normal_case(draw, tier):
    case = draw(config_st(tier, "normal"))
    kinds = ["adversarial", "adversarial", "freq", "noisy", "exact"]
    k = draw(st.sampled_from([1, 1, 2]))
    case["data"] = [draw(dataset_st(_size(case), kinds)) for _ in range(k)]
    return case


@st.composite
def sequence_case(draw, tier):
    case = draw(config_st(tier, "sequence"))
    kinds = ["adversarial", "freq", "noisy", "exact"]
    k = draw(st.sampled_from([2, 2, 3, 4, 1]))
    case["data"] = [draw(dataset_st(_size(case), kinds)) for _ in range(k)]
    case["timed"] = draw(st.booleans())
    return case


@st.composite
def count_case(draw, tier):
    case = draw(config_st(tier, "count"))
    case["data"] = [draw(dataset_st(_size(case), ["freq", "freq", "noisy", "adversarial", "exact"]))]
    case["counts2"] = draw(st.lists(st.integers(1, 10 ** 7), min_size=1, max_size=6))
    return case


@st.composite
def guard_case(draw, tier):
    case = draw(config_st(tier, "guard", complete=False))
    case["data"] = [draw(dataset_st(_size(case), ["freq", "adversarial", "exact"]))]
    return case


FACETS = {
    "exact_recovery": {
        "strategy": exact_case,
        "check": check_exact_recovery,
        "budget": {"quick": {"examples": 480, "shards": 4}, "thorough": {"examples": 9000, "shards": 16}},
        "nontrivial": "true object not maximally symmetric and tester set transformed / over-complete / generic",
        "min_nontrivial": 40,
    },
    "normal_equations": {
        "strategy": normal_case,
        "check": check_normal_equations,
        "budget": {"quick": {"examples": 400, "shards": 4}, "thorough": {"examples": 8000, "shards": 16}},
        "nontrivial": "data vector off the model range (least-squares residual > 1e-3 |f|)",
        "min_nontrivial": 40,
    },
    "sequence": {
        "strategy": sequence_case,
        "check": check_sequence,
        "budget": {"quick": {"examples": 200, "shards": 2}, "thorough": {"examples": 3500, "shards": 16}},
        "nontrivial": ">= 2 pairwise different datasets in the sequence",
        "min_nontrivial": 20,
    },
    "count_independence": {
        "strategy": count_case,
        "check": check_count_independence,
        "budget": {"quick": {"examples": 160, "shards": 2}, "thorough": {"examples": 2500, "shards": 16}},
        "nontrivial": "the two count lists differ and are not constant across schedules",
        "min_nontrivial": 20,
    },
    "rank_guard": {
        "strategy": guard_case,
        "check": check_rank_guard,
        "budget": {"quick": {"examples": 200, "shards": 2}, "thorough": {"examples": 2000, "shards": 16}},
        "nontrivial": "tester set clearly incomplete on the reference model and on quara's matrix (verdict asserted)",
        "min_nontrivial": 20,
    },
}
