"""C15 helper: build quara test settings from a JSON-able configuration, run a simulation flow into a scratch
directory, reduce the results to plain data ("digest"), compare digests exactly.

It is also the entry point of the *child interpreter* used by the flow_reproducible facet:

    python -m harness.checks.c15_flow <cfg.json> <out.pickle>

joblib's loky backend silently falls back to n_jobs=1 inside a daemonic multiprocessing worker (which is what the
runner's pool processes are), so worker-count variation is only real in a non-daemonic interpreter.  The child is an
ordinary `python` process as a user would start it; it inherits PYTHONPATH (repo under test + the scipy-kron shim).
"""
import io
import itertools
import json
import os
import pickle
import shutil
import sys
import tempfile
import traceback

import numpy as np

LEVELS = ("per_sample_unit", "per_data_generation", "per_estimator_unit", "per_estimator_execution")

STATE_TESTERS_BASE = ["x0", "y0", "z0"]
POVM_TESTERS = ["x", "y", "z"]


# ----------------------------------------------------------------------------- configuration -> quara settings
def tester_names(cfg):
    """informationally complete 1-qubit tester set for the unknown's type (catalogue names)."""
    t = cfg["type"]
    sts = [("state", n) for n in STATE_TESTERS_BASE + [cfg.get("tester_4th", "z1")]]
    pvs = [("povm", n) for n in POVM_TESTERS]
    if t == "state":
        return pvs
    if t == "povm":
        return sts
    return sts + pvs


def noise_setting(base, noise, role):
    from quara.simulation.standard_qtomography_simulation import NoiseSetting

    m = noise["method"]
    if m is None or (role == "tester" and noise.get("tester_plain")):
        return NoiseSetting(qoperation_base=base, method=None, para={})
    if m == "depolarized":
        p = noise["p_true"] if role == "true" else noise["p_tester"]
        return NoiseSetting(qoperation_base=base, method="depolarized", para={"error_rate": p})
    if m == "random_effective_lindbladian":
        return NoiseSetting(
            qoperation_base=base,
            method="random_effective_lindbladian",
            para={
                "lindbladian_base": noise["lindbladian_base"],
                "strength_h_part": noise["h"],
                "strength_k_part": noise["k"],
            },
        )
    raise ValueError(m)


def estimator_case(ec):
    """(name, estimator, (loss, loss_option), (algo, algo_option), para)"""
    from quara.loss_function.standard_qtomography_based_weighted_probability_based_squared_error import (
        StandardQTomographyBasedWeightedProbabilityBasedSquaredError as Loss,
        StandardQTomographyBasedWeightedProbabilityBasedSquaredErrorOption as LossOption,
    )
    from quara.minimization_algorithm.projected_gradient_descent_backtracking import (
        ProjectedGradientDescentBacktracking as Algo,
        ProjectedGradientDescentBacktrackingOption as AlgoOption,
    )
    from quara.protocol.qtomography.standard.linear_estimator import LinearEstimator
    from quara.protocol.qtomography.standard.loss_minimization_estimator import LossMinimizationEstimator
    from quara.protocol.qtomography.standard.projected_linear_estimator import ProjectedLinearEstimator

    e = ec["est"]
    name = f"{e}({ec['para']})"
    if e == "linear":
        return name, LinearEstimator(), (None, None), (None, None), ec["para"]
    if e == "plinear":
        return name, ProjectedLinearEstimator(), (None, None), (None, None), ec["para"]
    if e == "lossmin":
        ao = AlgoOption(
            on_algo_eq_constraint=ec.get("eq", True),
            on_algo_ineq_constraint=ec.get("ineq", True),
            max_iteration_optimization=ec.get("max_iter", 20),
        )
        return name, LossMinimizationEstimator(), (Loss(), LossOption("identity")), (Algo(), ao), ec["para"]
    raise ValueError(e)


def build_test_setting(cfg):
    from quara.objects.composite_system_typical import generate_composite_system
    from quara.simulation.standard_qtomography_simulation import EstimatorTestSetting

    c_sys = generate_composite_system("qubit", 1)
    cases = [estimator_case(ec) for ec in cfg["est_cases"]]
    return EstimatorTestSetting(
        true_object=noise_setting((cfg["type"], cfg["true_name"]), cfg["noise"], "true"),
        tester_objects=[noise_setting(b, cfg["noise"], "tester") for b in tester_names(cfg)],
        seed_qoperation=cfg["seed_qoperation"],
        seed_data=cfg["seed_data"],
        n_sample=cfg["n_sample"],
        n_rep=cfg["n_rep"],
        num_data=list(cfg["num_data"]),
        schedules="all",
        # "tied_names": every case is named after its estimator only, so two cases of one estimator share a name
        case_names=[ec["est"] for ec in cfg["est_cases"]] if cfg.get("tied_names") else [c[0] for c in cases],
        estimators=[c[1] for c in cases],
        eps_proj_physical_list=[cfg.get("eps_proj_physical", 1e-5)] * len(cases),
        eps_truncate_imaginary_part_list=[1e-5] * len(cases),
        algo_list=[c[3] for c in cases],
        loss_list=[c[2] for c in cases],
        parametrizations=[c[4] for c in cases],
        c_sys=c_sys,
    )


def exec_check_of(cfg):
    k = cfg.get("exec_check", "all")
    if k == "all":
        return None
    on = k == "phys_only"
    return {"consistency": False, "mse_of_estimators": False, "mse_of_empi_dists": False, "physicality_violation": on}


# ----------------------------------------------------------------------------- running
class scratch_dir:
    """tempfile.mkdtemp() directory removed on exit, whatever happens."""

    def __enter__(self):
        self.path = tempfile.mkdtemp(prefix="verif_c15_")
        return self.path

    def __exit__(self, *exc):
        shutil.rmtree(self.path, ignore_errors=True)
        return False


def run_flow(cfg, parallel_mode=None, root_dir=None, n_settings=1):
    """execute_simulation_test_settings on a fresh test setting; results + the setting."""
    from quara.simulation.standard_qtomography_simulation_flow import execute_simulation_test_settings

    ts = build_test_setting(cfg)

    def go(d):
        # the test settings as list / tuple / one-shot iterator (the flow iterates them once), decided by the configuration
        import hashlib
        import os

        h = hashlib.sha256(repr(sorted((k, repr(v)) for k, v in cfg.items())).encode()).digest()[0] % 4
        if os.environ.get("VERIF_REPS", "1") == "0":
            h = 0
        settings = [ts] if h <= 1 else ((ts,) if h == 2 else iter([ts]))
        if n_settings > 1:  # the same test setting listed n times: n numbered result directories
            settings = [ts] * n_settings
        return execute_simulation_test_settings(
            settings, d, pdf_mode="none", exec_sim_check=exec_check_of(cfg), parallel_mode=parallel_mode
        )

    if root_dir is not None:
        return go(root_dir), ts
    with scratch_dir() as d:
        return go(d), ts


def _stacked(q):
    return np.array(q.to_stacked_vector(), dtype=np.float64)


def digest(results):
    """plain data: everything the property says must be reproduced."""
    out = []
    for r in results:
        ss = r.simulation_setting
        d = {
            "index": (r.result_index["test_setting_index"], r.result_index["sample_index"], r.result_index["case_index"]),
            "name": ss.name,
            "true_type": type(ss.true_object).__name__,
            "true": _stacked(ss.true_object),
            "testers": [(type(t).__name__, _stacked(t)) for t in ss.tester_objects],
            "n_rep": int(ss.n_rep),
            "num_data": [int(n) for n in ss.num_data],
            "seed_data": int(ss.seed_data),
            "empi": [[[(int(n), np.array(p, dtype=np.float64)) for (n, p) in dists] for dists in rep] for rep in r.empi_dists_sequences],
            "est": [[np.array(v, dtype=np.float64) for v in er.estimated_var_sequence] for er in r.estimation_results],
            "check": None
            if r.check_result is None
            else (bool(r.check_result["total_result"]), [(c["name"], bool(c["result"])) for c in r.check_result["results"]]),
        }
        out.append(d)
    return out


def first_diff(a, b, path=""):
    """None if a and b are exactly equal (arrays bitwise, same shapes/lengths/types), else a description."""
    if isinstance(a, np.ndarray) or isinstance(b, np.ndarray):
        if not (isinstance(a, np.ndarray) and isinstance(b, np.ndarray)):
            return f"{path}: {type(a).__name__} vs {type(b).__name__}"
        if a.shape != b.shape:
            return f"{path}: shape {a.shape} vs {b.shape}"
        if not np.array_equal(a, b, equal_nan=True):
            i = int(np.argmax(np.abs(a - b).reshape(-1))) if a.size else 0
            return f"{path}: max|diff|={float(np.max(np.abs(a - b))):.3e} at flat index {i} ({a.reshape(-1)[i]!r} vs {b.reshape(-1)[i]!r})"
        return None
    if isinstance(a, dict) and isinstance(b, dict):
        if sorted(a) != sorted(b):
            return f"{path}: keys {sorted(a)} vs {sorted(b)}"
        for k in a:  # insertion order (true object, testers, data, estimates, checks)
            d = first_diff(a[k], b[k], f"{path}.{k}")
            if d:
                return d
        return None
    if isinstance(a, (list, tuple)) and isinstance(b, (list, tuple)):
        if len(a) != len(b):
            return f"{path}: length {len(a)} vs {len(b)}"
        for i, (x, y) in enumerate(zip(a, b)):
            d = first_diff(x, y, f"{path}[{i}]")
            if d:
                return d
        return None
    if type(a) is not type(b) or a != b:
        return f"{path}: {a!r} vs {b!r}"
    return None


def quara_frame(tb, repo):
    found = None
    for fs in traceback.extract_tb(tb):
        fn = os.path.realpath(fs.filename)
        if fn.startswith(repo + os.sep) and (os.sep + "quara" + os.sep) in fn:
            found = f"{os.path.relpath(fn, repo)}:{fs.name}"
    return found


def mode_list():
    """serial twice, then every level at 4 workers, then every level at 2 (grouped so that loky re-uses its pool)."""
    return [None, None] + [{lvl: n} for n in (4, 2) for lvl in LEVELS]


def mode_name(pm):
    if pm is None:
        return "serial"
    ((k, v),) = pm.items()
    return f"{k}:{v}"


# ----------------------------------------------------------------------------- child interpreter
def main(argv):
    cfg_path, out_path = argv
    with open(cfg_path) as f:
        job = json.load(f)
    cfg = job["cfg"]
    repo = os.path.realpath(job["repo"])
    out = {"runs": [], "error": None, "daemon": None, "jobs_effective": {}, "stopped_early": False}
    reference = None
    if job.get("reference"):
        with open(job["reference"], "rb") as f:
            reference = pickle.load(f)
    import multiprocessing as mp

    out["daemon"] = bool(mp.current_process().daemon)
    old = sys.stdout
    sys.stdout = io.StringIO()
    current = "setup"
    try:
        import joblib

        for pm in job["modes"]:
            current = mode_name(pm)
            if pm is not None:
                ((_, n),) = pm.items()
                # what joblib will really use here (1 would make the comparison vacuous)
                out["jobs_effective"][str(n)] = int(joblib.effective_n_jobs(n))
            res, _ = run_flow(cfg, pm)
            dg = digest(res)
            out["runs"].append((mode_name(pm), dg))
            if reference is not None and first_diff(dg, reference) is not None:
                out["stopped_early"] = True  # the parent reports this run; no need to pay for the remaining ones
                break
    except BaseException as e:  # relay to the parent, which classifies it
        out["error"] = {
            "type": type(e).__name__,
            "msg": str(e)[:500],
            "frame": quara_frame(e.__traceback__, repo),
            "trace": traceback.format_exc()[-3000:],
            "mode": current,
        }
    finally:
        sys.stdout = old
    with open(out_path, "wb") as f:
        pickle.dump(out, f)
    return 0


if __name__ == "__main__":
    sys.exit(main(sys.argv[1:]))
