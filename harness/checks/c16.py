"""C16 - Outcome-probability bookkeeping obeys probability theory."""
import contextlib
import io
import itertools
import math
import warnings

import numpy as np
from hypothesis import strategies as st

from harness import build, gen
from harness import refmodel as rm

RULE = (
    "A quarter of the ensemble cases use a hand-rotated orthonormal Hermitian identity-first basis (harness/covar.py). "
    "index_maps: every shape with 1..4 variables of 1..5 values (780 shapes) and every index of it, enumerated; oracle = "
    "numpy unravel_index / ravel_multi_index (row-major) plus both round trips.  multinomial / marginal / conditional: "
    "probability tensors stored verbatim in the case (1..4 variables, <= 120 entries, mostly non-square; entries drawn as "
    "big / exact zero / below the zero threshold / tiny negative; eps_zero default, explicit 1e-8, smaller or larger), "
    "checked against a pure-numpy model: the documented constructor rule (entries < eps_zero -> 0, renormalise iff "
    "something was zeroed), sums over removed axes for EVERY non-empty subset of variables in a drawn order, renormalised "
    "slices for EVERY proper subset and EVERY assignment, joint = marginal x conditional entrywise through the accessors.  "
    "validate: generated vectors with a negative entry / sum defect of drawn size relative to eps, verdict compared outside "
    "the margin band.  ensembles: Stinespring-generated (or projective, giving exact zero-probability outcomes) measurement "
    "processes with 2..4 outcomes (m1 != m2, optional multi-dimensional outcome shape) applied once and twice to a generated "
    "state (1q, qutrit, 2q), optionally followed by a POVM; probabilities and normalised post-measurement states of "
    "'outcome i then j' recomputed from the Kraus operators with refmodel.  Non-trivial = the layout matters: >= 2 "
    "variables with >= 2 values (index maps, tensors; for marginal/conditional additionally non-square or threshold "
    "entries), a defect within two decades of eps (validate), two measurements with different outcome counts (ensembles)."
)
ASSUMPTIONS = [
    "row-major means numpy's C order (np.unravel_index / np.ravel_multi_index / reshape)",
    "zero threshold semantics taken from the constructor docstring: entries < eps_zero (default 1e-8) become 0 and the rest "
    "is renormalised; marginalize/conditionalize build their result with the default threshold, so the oracle applies the "
    "default threshold to the exact marginal / conditional (cases with a value within 1e-6 relative of the threshold are "
    "counted as margin-band and not judged)",
    "marginalize: the ascending-axis layout and the requested-order layout are both accepted as long as shape and data agree",
    "conditioning on a zero-probability event, on all variables, and marginalising onto no variable are outside the domain "
    "(observed: ValueError / TypeError), only 'no silently returned non-normalised distribution' is asserted for the first",
    "ensemble probabilities are compared with tolerance algebraic + 3 x (reference mass of entries <= 1e-7), which bounds the "
    "effect of the documented eps_zero truncation; post-measurement states are compared for outcomes of probability >= 1e-6",
]
TECHNIQUE = (
    "exhaustive enumeration of the finite index-map space (780 shapes x all indices) vs numpy; property-based testing "
    "(Hypothesis) of probability tensors, all subsets/assignments per tensor, and measurement ensembles vs a numpy reference model"
)
LEVEL_TEXT = (
    "Index maps are decided completely on the quantified domain (all 780 shapes with <= 4 variables of 1..5 values, all 54 240 "
    "indices, both directions, exact).  The distribution algebra (constructor threshold, accessors, every subset/order of "
    "retained variables, every conditioning assignment, joint = marginal x conditional) and the ensemble layout after one or two "
    "measurements are explored by generated search on non-square tensors with zeros and sub-threshold entries against an "
    "independent numpy model; this cannot prove absence but reaches the shapes, orders and thresholds the pinned examples miss."
)
LEVEL_NOTE = (
    "Trusted: numpy (reshape, sum, unravel_index, ravel_multi_index), harness/refmodel.py (Kraus action, bases), and the "
    "reading of the zero-threshold rule stated in ASSUMPTIONS."
)

EPS_DEFAULT = 1e-8
MAX_TENSOR = 120


# ----------------------------------------------------------------------------- pure numpy model
def model_ctor(ps, eps=None):
    """documented constructor rule -> (ps, is_zero_dist)."""
    ps = np.array(ps, dtype=float).copy()
    eps = EPS_DEFAULT if eps is None else eps
    small = ps < eps
    if small.all():
        return np.zeros_like(ps), True
    ps[small] = 0.0
    if small.any():
        ps = ps / np.sum(ps)
    return ps, False


def near_threshold(values, eps, rel=1e-6):
    if eps == 0:
        return False  # 'x < 0' has no rounding ambiguity
    v = np.asarray(values, dtype=float).reshape(-1)
    return bool(np.any(np.abs(v - eps) <= rel * eps))


def prod(shape):
    out = 1
    for s in shape:
        out *= int(s)
    return out


def all_multi(shape):
    return list(itertools.product(*[range(int(s)) for s in shape]))


def is_layout_sensitive(shape):
    return sum(1 for s in shape if s >= 2) >= 2


def is_nonsquare(shape):
    big = [s for s in shape if s >= 2]
    return len(big) >= 2 and len(set(big)) >= 2


# ----------------------------------------------------------------------------- facet: index_maps (enumeration)
def index_items(tier):
    out = []
    for k in range(1, 5):
        for shp in itertools.product(range(1, 6), repeat=k):
            out.append({"shape": list(shp)})
    return out


def check_index_maps(case, ctx):
    from quara.utils.index_util import (
        index_multi_dimensional_from_index_serial as to_multi,
        index_serial_from_index_multi_dimensional as to_serial,
    )

    shape = [int(s) for s in case["shape"]]
    n = prod(shape)
    ctx.label(f"vars:{len(shape)}", "nonsquare" if is_nonsquare(shape) else "square-or-1d")
    ctx.nontrivial(is_layout_sensitive(shape))
    seen = set()
    for serial, multi_ref in enumerate(all_multi(shape)):  # itertools.product is row-major
        np_multi = tuple(int(x) for x in np.unravel_index(serial, tuple(shape)))
        if np_multi != multi_ref:  # harness self-check (never a violation)
            raise AssertionError("harness: itertools order is not row-major")
        for container in (list(shape), tuple(shape)):
            multi = to_multi(container, serial)
            ctx.check(isinstance(multi, tuple) and len(multi) == len(shape), "multi_is_tuple", f"{multi!r} for shape {shape}")
            ctx.check(all(isinstance(x, (int, np.integer)) for x in multi), "multi_entries_int", f"{multi!r}")
            ctx.check(all(0 <= x < s for x, s in zip(multi, shape)), "multi_in_range", f"{multi!r} shape {shape}")
            ctx.equal(tuple(int(x) for x in multi), np_multi, "serial_to_multi_row_major", f"shape {shape} serial {serial}")
            back = to_serial(container, multi)
            ctx.equal(int(back), serial, "serial_multi_serial_roundtrip", f"shape {shape} serial {serial} multi {multi}")
            s2 = to_serial(container, multi_ref)
            ctx.check(isinstance(s2, (int, np.integer)), "serial_is_int", f"{s2!r}")
            ctx.equal(int(s2), int(np.ravel_multi_index(multi_ref, tuple(shape))), "multi_to_serial_row_major",
                      f"shape {shape} multi {multi_ref}")
            ctx.equal(tuple(int(x) for x in to_multi(container, s2)), multi_ref, "multi_serial_multi_roundtrip",
                      f"shape {shape} multi {multi_ref}")
        seen.add(int(to_serial(shape, multi_ref)))
    ctx.equal(seen == set(range(n)), True, "serial_bijective", f"shape {shape}")
    # documented rejection: lengths differ
    first = tuple(0 for _ in shape)
    ctx.raises((ValueError,), lambda: to_serial(shape, first + (0,)), "length_mismatch_raises")
    ctx.raises((ValueError,), lambda: to_serial(shape, first[:-1]), "length_mismatch_raises")
    ctx.raises((ValueError,), lambda: to_serial(shape + [2], first), "length_mismatch_raises")


# ----------------------------------------------------------------------------- tensors
@st.composite
def shape_st(draw, min_vars=1, max_vars=4):
    k = draw(st.integers(min_vars, max_vars))
    shp = draw(st.lists(st.integers(1, 5), min_size=k, max_size=k))
    if k >= 2 and draw(st.integers(0, 3)) > 0:  # favour layouts where order matters
        shp = [max(2, s) for s in shp]
        if len(set(shp)) == 1:
            shp[0] = shp[0] + 1 if shp[0] < 5 else 2
    while prod(shp) > MAX_TENSOR:
        i = int(np.argmax(shp))
        shp[i] -= 1
    return [int(s) for s in shp]


@st.composite
def eps_st(draw, allow_zero=False):
    kind = draw(st.sampled_from(["none", "none", "explicit_default", "small", "large"] * (2 if allow_zero else 1) + (["zero"] if allow_zero else [])))
    if kind == "none":
        return None
    if kind == "zero":
        return 0.0  # "never treat a positive probability as zero"
    if kind == "explicit_default":
        return EPS_DEFAULT
    if kind == "small":
        return draw(gen.log_uniform(1e-12, 1e-9))
    return draw(gen.log_uniform(1e-7, 1e-2))


@st.composite
def tensor_st(draw, min_vars=1, max_vars=4, allow_zero_dist=True, eps=True, neg=True, allow_eps0=False):
    shape = draw(shape_st(min_vars, max_vars))
    n = prod(shape)
    e = draw(eps_st(allow_eps0)) if eps else None
    e_eff = e if e else EPS_DEFAULT
    if e == 0.0:
        allow_zero_dist = False  # an all-zero vector is not a zero distribution under the threshold 0: not generated
        e_eff = 1e-9  # 'sub' entries: positive, above the requested threshold 0, below the default one
    palette = ["big", "big", "big", "zero", "sub"] + (["neg"] if neg else [])
    if e is not None and e < 1e-9:
        palette += ["mid", "mid"]  # kept by the custom threshold but below the default one used by derived distributions
    mode = draw(st.sampled_from(["mixed", "mixed", "mixed", "dense", "zero_dist"] if allow_zero_dist else ["mixed", "mixed", "dense"]))
    if mode == "dense":
        cats = ["big"] * n
    elif mode == "zero_dist":
        cats = draw(st.lists(st.sampled_from(["zero", "zero", "zero", "sub"]), min_size=n, max_size=n))
    else:
        cats = draw(st.lists(st.sampled_from(palette), min_size=n, max_size=n))
        if "big" not in cats:
            cats[draw(st.integers(0, n - 1))] = "big"
    w = draw(gen.raw(n, 0.05, 1.0))
    r = draw(gen.raw(n, 0.01, 0.5))
    ps = np.zeros(n)
    for i, c in enumerate(cats):
        if c == "sub":
            ps[i] = r[i] * e_eff
        elif c == "neg":
            ps[i] = -r[i] * 1e-9
        elif c == "mid":
            lo, hi = 2.0 * e_eff, 5e-9
            ps[i] = lo * (hi / lo) ** ((r[i] - 0.01) / 0.49)
    big = [i for i, c in enumerate(cats) if c == "big"]
    if big:
        rest = 1.0 - float(np.sum(ps))
        tot = sum(w[i] for i in big)
        for i in big:
            ps[i] = w[i] / tot * rest
    return {"shape": shape, "ps": [float(x) for x in ps], "eps_zero": e, "as_list": draw(st.booleans())}


def _make_dist(case):
    from quara.objects.multinomial_distribution import MultinomialDistribution

    ps = [float(x) for x in case["ps"]]
    arg = list(ps) if case.get("as_list") else np.array(ps, dtype=np.float64)
    shape = tuple(int(s) for s in case["shape"])
    if case.get("eps_zero") is None:
        return MultinomialDistribution(arg, shape)
    return MultinomialDistribution(arg, shape, eps_zero=float(case["eps_zero"]))


def _tensor_labels(case, ctx):
    shape = case["shape"]
    e = case.get("eps_zero")
    e_eff = EPS_DEFAULT if e is None else e
    ps = np.asarray(case["ps"], dtype=float)
    ctx.label(f"vars:{len(shape)}", "nonsquare" if is_nonsquare(shape) else "square-or-1d",
              "eps:default" if e is None else ("eps:0" if e == 0 else ("eps:1e-8" if e == EPS_DEFAULT else ("eps:small" if e < EPS_DEFAULT else "eps:large"))))
    if np.any(ps == 0):
        ctx.label("has-zero")
    if np.any((ps > 0) & (ps < e_eff)):
        ctx.label("has-subthreshold")
    if np.any((ps >= e_eff) & (ps < EPS_DEFAULT)):
        ctx.label("has-entry-between-custom-and-default-threshold")
    if np.any(ps < 0):
        ctx.label("has-tiny-negative")
    return e_eff


def _valid_dist_obj(d, ctx, tag):
    """shape/ps structural validity before indexing into what quara returned."""
    ok = isinstance(d.shape, tuple) and all(isinstance(s, (int, np.integer)) for s in d.shape)
    ctx.check(ok, f"{tag}:shape_is_int_tuple", f"{d.shape!r}")
    ps = np.asarray(d.ps)
    ctx.check(ps.ndim == 1 and ps.dtype.kind == "f", f"{tag}:ps_is_1d_float", f"ndim={ps.ndim} dtype={ps.dtype}")
    ctx.equal(int(ps.size), prod(d.shape) if ok else -1, f"{tag}:size_matches_shape", f"size {ps.size} shape {d.shape!r}")
    return ok and ps.ndim == 1 and ps.size == prod(d.shape)


# ----------------------------------------------------------------------------- facet: multinomial
def is_explicit_zero_threshold(case):
    """predicate of known finding C16-F1: eps_zero=0.0 passed explicitly (falsy, replaced by the default 1e-8)."""
    e = case.get("eps_zero")
    return e is not None and float(e) == 0.0


@st.composite
def multinomial_case(draw, tier):
    c = draw(tensor_st(allow_eps0=True))
    c["reject"] = draw(st.sampled_from(["size", "negative", "sum", "sum_ok"]))
    c["reject_ratio"] = draw(gen.log_uniform(10.0, 1e6))
    c["accept_ratio"] = draw(gen.log_uniform(1e-4, 0.1))
    c["pos"] = draw(st.integers(0, MAX_TENSOR))
    c["shape_none"] = draw(st.booleans())
    return c


def check_multinomial(case, ctx):
    from quara.objects.multinomial_distribution import MultinomialDistribution
    from quara.objects.prob_dist import ProbDist

    shape = tuple(int(s) for s in case["shape"])
    n = prod(shape)
    e_eff = _tensor_labels(case, ctx)
    ps_in = np.array(case["ps"], dtype=float)
    if near_threshold(ps_in, e_eff):
        ctx.skip("entry-at-threshold")
        return
    exp, exp_zero = model_ctor(ps_in, case.get("eps_zero"))
    d = _make_dist(case)
    if not _valid_dist_obj(d, ctx, "ctor"):
        return
    ctx.equal(tuple(int(s) for s in d.shape), shape, "ctor:shape")
    ctx.equal(bool(d.is_zero_dist), exp_zero, "ctor:is_zero_dist")
    ctx.equal(float(d.eps_zero), float(e_eff), "ctor:eps_zero_property")
    got = np.asarray(d.ps, dtype=float)
    if case.get("eps_zero") == 0:
        # ctx.check (not ctx.close) so that the known deviation does not enter the residual statistics
        dev = float(np.max(np.abs(got - exp)))
        ctx.check(dev <= 4e-16, "ctor:zero_and_renormalise", f"max|diff|={dev:.3e} with the explicit threshold 0.0")
    else:
        ctx.close(got, exp, 4e-16, "ctor:zero_and_renormalise")
    if case.get("eps_zero") == 0:
        # explicit threshold 0 (see known finding C16-F1): the remaining oracles are evaluated on the other classes
        ctx.nontrivial(bool(np.any((ps_in > 0) & (ps_in < EPS_DEFAULT))))
        return
    # exact zeros exactly where the rule says so; untouched when nothing is below the threshold
    ctx.equal([bool(x) for x in (got == 0)], [bool(x) for x in (ps_in < e_eff)] if not exp_zero else [True] * n, "ctor:zero_pattern")
    if not np.any(ps_in < e_eff):
        ctx.equal(got.tolist(), ps_in.tolist(), "ctor:untouched_without_subthreshold")
        ctx.label("untouched")
    if exp_zero:
        ctx.label("zero-dist")
        ctx.equal(float(np.sum(got)), 0.0, "ctor:zero_dist_all_zero")
    else:
        ctx.close(float(np.sum(got)), 1.0, 1e-8 if not np.any(ps_in < e_eff) else 1e-14, "ctor:normalised")
        ctx.check(bool(np.all(got >= 0)), "ctor:non_negative")
    # accessors
    tensor = exp.reshape(shape)
    for serial, multi in enumerate(all_multi(shape)):
        ctx.close(d[serial], exp[serial], 4e-16, "getitem_int")
        ctx.close(d[multi], tensor[multi], 4e-16, "getitem_tuple_row_major", f"shape {shape} idx {multi}")
    ctx.raises((TypeError,), lambda: d[0.0], "getitem_rejects_float")
    ctx.raises((TypeError,), lambda: d[[0] * len(shape)], "getitem_rejects_list")
    ctx.raises((ValueError,), lambda: d[tuple([0] * (len(shape) + 1))], "getitem_tuple_length_mismatch")
    # shape=None -> one variable
    if case.get("shape_none"):
        d1 = MultinomialDistribution(np.array(case["ps"], dtype=np.float64), eps_zero=case.get("eps_zero"))
        ctx.equal(tuple(int(s) for s in d1.shape) if isinstance(d1.shape, tuple) else d1.shape, (n,), "ctor:default_shape")
        ctx.close(np.asarray(d1.ps, dtype=float), exp, 4e-16, "ctor:default_shape_ps")

    # ProbDist (plain container): accessors agree with the row-major reshape of what was stored
    pd = ProbDist(ps_in.copy(), shape)
    ctx.equal(tuple(pd.shape), shape, "probdist:shape")
    ctx.equal(np.asarray(pd.ps).tolist(), ps_in.tolist(), "probdist:ps_stored")
    for serial, multi in enumerate(all_multi(shape)):
        ctx.equal(float(pd[serial]), float(ps_in[serial]), "probdist:getitem_int")
        ctx.equal(float(pd[multi]), float(ps_in.reshape(shape)[multi]), "probdist:getitem_tuple_row_major")
    ctx.raises((TypeError,), lambda: pd[0.5], "probdist:rejects_float")
    ctx.raises((ValueError,), lambda: ProbDist(ps_in.copy())[(0,)], "probdist:tuple_without_shape")

    # documented rejections
    kind = case["reject"]
    if kind == "size":
        bad = list(shape)
        bad[case["pos"] % len(bad)] += 1
        ctx.raises((ValueError,), lambda: MultinomialDistribution(ps_in.copy(), tuple(bad)), "ctor:size_mismatch_raises")
        ctx.raises((ValueError,), lambda: MultinomialDistribution(np.append(ps_in, 0.0), shape), "ctor:size_mismatch_raises")
    elif kind == "negative":
        bad = ps_in.copy()
        i = case["pos"] % n
        bad[i] = -case["reject_ratio"] * 1e-8
        ctx.raises((ValueError,), lambda: MultinomialDistribution(bad, shape), "ctor:negative_raises", f"entry {bad[i]:.3e}")
    elif kind in ("sum", "sum_ok") and not exp_zero:
        # only judged when no entry is below the threshold: then nothing is renormalised and the sum must be 1 within 1e-8
        base = np.where(ps_in < max(e_eff, 4e-8), 0.0, ps_in)
        base = base[base > 0]
        base = base / base.sum()
        if base.size and np.min(base) >= 4 * max(e_eff, 1e-8):
            delta = (case["reject_ratio"] if kind == "sum" else case["accept_ratio"]) * 1e-8
            delta = min(delta, 0.5)
            sgn = -1.0 if case["pos"] % 2 else 1.0
            bad = base * (1.0 + sgn * delta)
            defect = abs(float(np.sum(bad)) - 1.0)
            eps_arg = case.get("eps_zero")
            if not np.any(bad < e_eff):
                if kind == "sum" and defect >= 1e-7:
                    ctx.raises((ValueError,), lambda: MultinomialDistribution(bad.copy(), (bad.size,), eps_zero=eps_arg),
                               "ctor:sum_not_one_raises", f"sum-1={defect:.3e}")
                    ctx.label("reject:sum")
                elif kind == "sum_ok" and defect <= 1e-9:
                    dd = MultinomialDistribution(bad.copy(), (bad.size,), eps_zero=eps_arg)
                    ctx.equal(np.asarray(dd.ps).tolist(), bad.tolist(), "ctor:sum_within_tolerance_accepted_untouched")
                    ctx.label("accept:sum")
    ctx.label("reject:" + kind)
    ctx.nontrivial(is_nonsquare(shape) or bool(np.any(ps_in < e_eff)))


# ----------------------------------------------------------------------------- facet: validate (validate_prob_dist)
@st.composite
def validate_case(draw, tier):
    n = draw(st.integers(1, 8))
    w = draw(gen.raw(n, 0.05, 1.0))
    eps_kind = draw(st.sampled_from(["none", "value"]))
    eps = None if eps_kind == "none" else draw(gen.log_uniform(1e-12, 1e-3))
    kind = draw(st.sampled_from(["neg", "sum", "neg", "sum", "none"]))
    band = draw(st.sampled_from(["below", "above", "below", "above", "far"]))
    ratio = draw(gen.log_uniform(1e-3, 0.09) if band == "below" else (gen.log_uniform(11.0, 1e3) if band == "above" else gen.log_uniform(1e3, 1e6)))
    return {
        "w": w, "eps": eps, "kind": kind, "ratio": ratio, "pos": draw(st.integers(0, 7)),
        "sign": draw(st.sampled_from([1.0, -1.0])), "validate_sum": draw(st.sampled_from([True, True, False])),
        "raise_error": draw(st.sampled_from([True, True, False])), "as_list": draw(st.booleans()),
        "message": draw(st.sampled_from(["", "msg"])),
    }


def check_validate(case, ctx):
    from quara.math.probability import validate_prob_dist

    w = np.array(case["w"], dtype=float)
    n = w.size
    eps = case["eps"]
    e_eff = EPS_DEFAULT if eps is None else float(eps)
    p = w / w.sum()
    i = case["pos"] % n
    size = min(case["ratio"] * e_eff, 0.5)
    if case["kind"] == "neg":
        if n == 1:
            p = np.array([1.0 + size, -size])
            i = 1
        else:
            j = (i + 1) % n
            p[j] += p[i] + size
            p[i] = -size
    elif case["kind"] == "sum":
        p = p * (1.0 + case["sign"] * size)
    neg_def = max(0.0, -float(np.min(p)))
    sum_def = abs(float(np.sum(p)) - 1.0)

    def verdict(defect):
        if defect <= e_eff / 10 + 1e-15:
            return True
        if defect >= 10 * e_eff:
            return False
        return None

    v_neg = verdict(neg_def)
    v_sum = verdict(sum_def) if case["validate_sum"] else True
    ctx.label("kind:" + case["kind"], "eps:default" if eps is None else "eps:value", f"validate_sum:{case['validate_sum']}",
              f"raise_error:{case['raise_error']}")
    if v_neg is None or v_sum is None:
        ctx.skip("margin-band")
        return
    ok = v_neg and v_sum
    arg = [float(x) for x in p] if case["as_list"] else p
    kw = {"validate_sum": case["validate_sum"], "raise_error": case["raise_error"], "message": case["message"]}
    if eps is not None:
        kw["eps"] = float(eps)
    buf = io.StringIO()
    raised = None
    ret = "unset"
    with contextlib.redirect_stdout(buf):
        try:
            ret = validate_prob_dist(arg, **kw)
        except ValueError as e:
            raised = e
    if case["raise_error"]:
        ctx.check((raised is None) == ok, "validate:verdict",
                  f"raised={raised!r} but neg defect {neg_def:.3e} sum defect {sum_def:.3e} eps {e_eff:.3e} validate_sum={case['validate_sum']}")
    else:
        ctx.check(raised is None, "validate:no_raise_when_raise_error_false", f"{raised!r}")
        ctx.check(("Warning" in buf.getvalue()) == (not ok), "validate:warning_iff_invalid",
                  f"printed={buf.getvalue()[:80]!r} expected invalid={not ok}")
    if raised is None:
        ctx.check(ret is None, "validate:returns_none")
    worst = max(neg_def, sum_def if case["validate_sum"] else 0.0)
    ctx.nontrivial(worst > 0 and 1e-2 <= worst / e_eff <= 1e2)


# ----------------------------------------------------------------------------- facet: marginal
@st.composite
def marginal_case(draw, tier):
    c = draw(tensor_st(min_vars=1, neg=False))
    c["order"] = draw(st.permutations(list(range(4))))
    c["bad_index"] = draw(st.sampled_from([-1, len(c["shape"]), len(c["shape"]) + 2, -3]))
    return c


def _ordered(subset, order):
    rank = {v: k for k, v in enumerate(order)}
    return sorted(subset, key=lambda v: rank[v])


def _expected_marginal(parent_tensor, keep_sorted):
    nvar = parent_tensor.ndim
    removed = tuple(a for a in range(nvar) if a not in keep_sorted)
    raw_marg = parent_tensor.sum(axis=removed) if removed else parent_tensor.copy()
    return raw_marg  # ascending layout, before the threshold rule


def _match_layouts(ctx, result, exp_asc_tensor, remain, tol, tag, detail):
    """ascending-axis layout or requested-order layout; shape and data must agree with each other."""
    keep_sorted = sorted(remain)
    perm = [keep_sorted.index(v) for v in remain]
    exp_req_tensor = np.transpose(exp_asc_tensor, perm)
    got = np.asarray(result.ps, dtype=float)
    shp = tuple(int(s) for s in result.shape)
    ok_asc = shp == exp_asc_tensor.shape and got.shape == (exp_asc_tensor.size,) and np.max(np.abs(got - exp_asc_tensor.reshape(-1)), initial=0.0) <= tol
    ok_req = shp == exp_req_tensor.shape and got.shape == (exp_req_tensor.size,) and np.max(np.abs(got - exp_req_tensor.reshape(-1)), initial=0.0) <= tol
    ctx.check(ok_asc or ok_req, tag,
              lambda: f"{detail}: returned shape {shp} ps {got.tolist()[:12]}; ascending layout expects shape {exp_asc_tensor.shape} "
                      f"ps {exp_asc_tensor.reshape(-1).tolist()[:12]}; requested-order layout expects shape {exp_req_tensor.shape}")
    return "asc" if ok_asc else ("req" if ok_req else None)


def check_marginal(case, ctx):
    shape = tuple(int(s) for s in case["shape"])
    nvar = len(shape)
    e_eff = _tensor_labels(case, ctx)
    ps_in = np.array(case["ps"], dtype=float)
    if near_threshold(ps_in, e_eff):
        ctx.skip("entry-at-threshold")
        return
    parent, parent_zero = model_ctor(ps_in, case.get("eps_zero"))
    d = _make_dist(case)
    if not _valid_dist_obj(d, ctx, "parent"):
        return
    ctx.close(np.asarray(d.ps, dtype=float), parent, 4e-16, "parent_matches_model")
    pt = parent.reshape(shape)
    tol = 1e-14
    order = [v for v in case["order"] if v < nvar]
    threshold_active = False
    for size in range(1, nvar + 1):
        for subset in itertools.combinations(range(nvar), size):
            variants = [list(subset)]
            if _ordered(subset, order) != list(subset):
                variants.append(_ordered(subset, order))
            for remain in variants:
                raw_marg = _expected_marginal(pt, sorted(remain))
                if near_threshold(raw_marg, EPS_DEFAULT):
                    ctx.label("margin-band-subset")
                    threshold_active = True
                    continue
                exp_flat, exp_zero = model_ctor(raw_marg.reshape(-1), None)
                if np.any((raw_marg > 0) & (raw_marg < EPS_DEFAULT)):
                    threshold_active = True
                exp_asc = exp_flat.reshape(raw_marg.shape)
                r = d.marginalize(list(remain))
                if not _valid_dist_obj(r, ctx, "marginal"):
                    return
                lay = _match_layouts(ctx, r, exp_asc, remain, tol, "marginal:sum_over_removed_axes",
                                     f"shape {shape} remain {remain}")
                ctx.equal(bool(r.is_zero_dist), exp_zero, "marginal:is_zero_dist")
                if not exp_zero:
                    ctx.close(float(np.sum(r.ps)), 1.0, 1e-13, "marginal:normalised")
                # accessor view: r[(values of the retained variables)] is the sum over the removed ones
                if lay is not None:
                    var_order = sorted(remain) if lay == "asc" else remain
                    for multi in all_multi([shape[v] for v in var_order]):
                        idx = [slice(None)] * nvar
                        for v, val in zip(var_order, multi):
                            idx[v] = val
                        ref = float(np.sum(pt[tuple(idx)]))
                        if exp_zero:
                            ref_t = 0.0
                        else:
                            ref_t = float(exp_asc[tuple(multi[var_order.index(v)] for v in sorted(remain))])
                        ctx.close(r[tuple(multi)], ref_t, tol, "marginal:accessor_is_sum_over_removed")
                        # against pure probability theory (threshold may remove at most the sub-threshold mass)
                        ctx.close(r[tuple(multi)], ref, tol + 2.0 * EPS_DEFAULT * raw_marg.size, "marginal:accessor_vs_exact_sum")
                if list(remain) != sorted(remain):
                    ctx.label("order:non-ascending")
                    if tuple(shape[v] for v in remain) != tuple(shape[v] for v in sorted(remain)):
                        ctx.label("order:non-ascending-shape-distinguishes")
                if lay:
                    ctx.label("layout:" + lay)
    # identity: keeping every variable in ascending order returns the distribution itself
    # tower property: marginalising in two steps equals marginalising at once (ascending orders, no layout ambiguity)
    if nvar >= 3 and not threshold_active:
        a = sorted(order[: nvar - 1]) if len(order) >= nvar - 1 else list(range(nvar - 1))
        b = a[:-1] if case["order"][0] % 2 else a[1:]
        step1 = d.marginalize(list(a))
        if _valid_dist_obj(step1, ctx, "tower") and tuple(int(s) for s in step1.shape) == tuple(shape[v] for v in a):
            step2 = step1.marginalize([a.index(v) for v in b])
            direct = d.marginalize(list(b))
            if _valid_dist_obj(step2, ctx, "tower") and _valid_dist_obj(direct, ctx, "tower"):
                ctx.equal(tuple(int(s) for s in step2.shape), tuple(int(s) for s in direct.shape), "marginal:tower_shape")
                ctx.close(np.asarray(step2.ps, dtype=float), np.asarray(direct.ps, dtype=float), tol, "marginal:tower_property")
                ctx.label("tower")
    # documented rejection
    bad = int(case["bad_index"])
    ctx.raises((ValueError,), lambda: d.marginalize([bad]), "marginal:out_of_range_raises", f"index {bad} shape {shape}")
    if nvar >= 2:
        ctx.raises((ValueError,), lambda: d.marginalize([0, bad]), "marginal:out_of_range_raises", f"index {bad} shape {shape}")
    if threshold_active:
        ctx.label("threshold-active")
    ctx.nontrivial(is_layout_sensitive(shape) and (is_nonsquare(shape) or bool(np.any(ps_in < e_eff))))


# ----------------------------------------------------------------------------- facet: conditional
@st.composite
def conditional_case(draw, tier):
    c = draw(tensor_st(min_vars=2, neg=False, allow_zero_dist=False))
    c["order"] = draw(st.permutations(list(range(4))))
    c["bad"] = draw(st.sampled_from(["length", "neg_index", "neg_value", "value_out_of_range", "index_out_of_range"]))
    c["pos"] = draw(st.integers(0, 3))
    return c


def check_conditional(case, ctx):
    shape = tuple(int(s) for s in case["shape"])
    nvar = len(shape)
    e_eff = _tensor_labels(case, ctx)
    ps_in = np.array(case["ps"], dtype=float)
    if near_threshold(ps_in, e_eff):
        ctx.skip("entry-at-threshold")
        return
    parent, parent_zero = model_ctor(ps_in, case.get("eps_zero"))
    d = _make_dist(case)
    if not _valid_dist_obj(d, ctx, "parent"):
        return
    ctx.close(np.asarray(d.ps, dtype=float), parent, 4e-16, "parent_matches_model")
    pt = parent.reshape(shape)
    order = [v for v in case["order"] if v < nvar]
    tol = 1e-14
    n_pos = n_zero_event = 0
    clean = not bool(np.any((parent > 0) & (parent < 1e-7)))  # no value the default threshold could touch
    for size in range(1, nvar):
        for subset in itertools.combinations(range(nvar), size):
            cond_vars = _ordered(subset, order)  # drawn order of the conditioning variables
            rest = [v for v in range(nvar) if v not in subset]
            rest_shape = tuple(shape[v] for v in rest)
            # marginal of the conditioning variables (ascending, no layout ambiguity) through quara's own accessor
            marg = d.marginalize(sorted(subset))
            marg_ok = _valid_dist_obj(marg, ctx, "cond_marginal") and tuple(int(s) for s in marg.shape) == tuple(shape[v] for v in sorted(subset))
            for values in all_multi([shape[v] for v in cond_vars]):
                assign = dict(zip(cond_vars, values))
                idx = tuple(assign.get(v, slice(None)) for v in range(nvar))
                sl = pt[idx]  # remaining variables, ascending
                p_event = float(np.sum(sl))
                call = lambda: d.conditionalize(list(cond_vars), [int(x) for x in values])
                if p_event <= 0.0:
                    # outside the domain: must not silently return a non-normalised / NaN distribution
                    n_zero_event += 1
                    with warnings.catch_warnings():
                        warnings.simplefilter("ignore")
                        try:
                            r0 = call()
                        except ValueError:
                            continue
                    ok0 = bool(getattr(r0, "is_zero_dist", False)) or (
                        bool(np.all(np.isfinite(r0.ps))) and abs(float(np.sum(r0.ps)) - 1.0) <= 1e-8)
                    ctx.check(ok0, "conditional:zero_event_not_silently_garbage", f"ps={np.asarray(r0.ps).tolist()[:8]}")
                    continue
                if p_event < 1e-7:
                    ctx.label("tiny-event-not-judged")
                    continue
                n_pos += 1
                raw_cond = sl / p_event
                if near_threshold(raw_cond, EPS_DEFAULT):
                    ctx.label("margin-band-assignment")
                    continue
                exp_flat, _ = model_ctor(raw_cond.reshape(-1), None)
                r = call()
                if not _valid_dist_obj(r, ctx, "conditional"):
                    return
                ctx.equal(tuple(int(s) for s in r.shape), rest_shape, "conditional:shape_is_remaining_variables",
                          f"shape {shape} given {assign}")
                ctx.close(np.asarray(r.ps, dtype=float), exp_flat, tol, "conditional:renormalised_slice", f"shape {shape} given {assign}")
                ctx.close(float(np.sum(r.ps)), 1.0, 1e-13, "conditional:normalised")
                ctx.equal(bool(r.is_zero_dist), False, "conditional:not_zero_dist")
                # joint = marginal x conditional, entrywise, through the accessors
                if marg_ok and tuple(int(s) for s in r.shape) == rest_shape:
                    m_val = marg[tuple(assign[v] for v in sorted(subset))]
                    jt = tol if clean else tol + 4.0 * EPS_DEFAULT * parent.size
                    for multi in all_multi(rest_shape):
                        full = [0] * nvar
                        for v, val in assign.items():
                            full[v] = val
                        for v, val in zip(rest, multi):
                            full[v] = val
                        ctx.close(m_val * r[tuple(multi)], d[tuple(full)], jt, "joint_equals_marginal_times_conditional",
                                  f"shape {shape} given {assign} index {tuple(full)}")
    # documented rejections (ValueError); undocumented out-of-range arguments must at least not return silently
    bad = case["bad"]
    v0 = case["pos"] % nvar
    if bad == "length":
        ctx.raises((ValueError,), lambda: d.conditionalize([v0], [0, 0]), "conditional:length_mismatch_raises")
        ctx.raises((ValueError,), lambda: d.conditionalize([v0, (v0 + 1) % nvar], [0]), "conditional:length_mismatch_raises")
    elif bad == "neg_index":
        ctx.raises((ValueError,), lambda: d.conditionalize([-1 - v0], [0]), "conditional:negative_index_raises")
    elif bad == "neg_value":
        ctx.raises((ValueError,), lambda: d.conditionalize([v0], [-1]), "conditional:negative_value_raises")
    elif bad == "value_out_of_range":
        ctx.raises((ValueError, IndexError), lambda: d.conditionalize([v0], [shape[v0]]), "conditional:value_out_of_range_raises")
    else:
        ctx.raises((ValueError, IndexError), lambda: d.conditionalize([nvar + v0], [0]), "conditional:index_out_of_range_raises")
    ctx.label("bad:" + bad, "clean" if clean else "threshold-active")
    if n_zero_event:
        ctx.label("has-zero-probability-event")
    ctx.nontrivial(n_pos > 0 and is_layout_sensitive(shape) and (is_nonsquare(shape) or bool(np.any(ps_in < e_eff))))


# ----------------------------------------------------------------------------- facet: ensembles
FACTORISATIONS = {2: [[2], [1, 2], [2, 1]], 3: [[3], [1, 3], [3, 1]], 4: [[4], [2, 2], [2, 2], [1, 4], [4, 1]]}


@st.composite
def instrument_st(draw, shape, m, allow_projective=True):
    d = gen.dim_of(shape)
    kind = draw(st.sampled_from(["generic", "generic", "generic", "projective"] if (allow_projective and m <= d) else ["generic"]))
    c = {"type": "mprocess", "shape": shape, "m": m, "kind": kind, "out_shape": draw(st.sampled_from(FACTORISATIONS[m]))}
    if kind == "generic":
        counts = draw(st.lists(st.integers(1, 2), min_size=m, max_size=m))
        c["counts"] = counts
        c["raw"] = draw(gen.raw(2 * d * sum(counts) * d))
    else:
        c["own_basis"] = draw(st.booleans())  # False: same eigenbasis as the (pure) state -> exact zero-probability outcomes
        if c["own_basis"]:
            c["raw"] = draw(gen.raw(2 * d * d))
    return c


@st.composite
def ensemble_case(draw, tier):
    shape = draw(st.sampled_from(["1q", "qutrit", "qutrit", "2q"] if tier == "quick" else ["1q", "qutrit", "2q", "2q"]))
    d = gen.dim_of(shape)
    zero_class = draw(st.integers(0, 4)) == 0  # pure eigenstate of a projective first measurement: exact zero outcomes
    if zero_class:
        state = {"type": "state", "shape": shape, "kind": "pure", "raw_u": draw(gen.raw(2 * d * d)),
                 "raw_p": draw(gen.raw(d)), "zero_mask": [False] + [True] * (d - 1)}
        m1 = draw(st.integers(2, min(4, d)))
        i1 = {"type": "mprocess", "shape": shape, "m": m1, "kind": "projective", "own_basis": False,
              "out_shape": draw(st.sampled_from(FACTORISATIONS[m1]))}
    else:
        state = draw(gen.state_case((shape,)))
        m1 = draw(st.integers(2, 4))
        i1 = draw(instrument_st(shape, m1))
    m2 = draw(st.sampled_from([m for m in (2, 3, 4) if m != m1]))
    c = {
        "shape": shape, "state": state,
        "m1": i1, "m2": draw(instrument_st(shape, m2)),
        "povm": draw(st.one_of(st.none(), gen.povm_case((shape,), (2, 3)))),
        "flat_call": draw(st.booleans()),
        "with_product": draw(st.integers(0, 2)) == 0,
    }
    if draw(st.integers(0, 3)) == 0:
        # the same operators over a hand-rotated (orthonormal, Hermitian, identity-first) basis: harness/covar.py
        c["rot"] = draw(gen.raw(64))
    return c


def _kraus_sets(ic, state_case):
    d = gen.dim_of(ic["shape"])
    if ic["kind"] == "generic":
        return rm.instrument_from_raw(ic["raw"], d, ic["counts"])
    if ic.get("own_basis") or "raw_u" not in state_case:
        raw = ic.get("raw") or [0.0] * (2 * d * d)
        u = rm.unitary_from_raw(raw, d) if ic.get("raw") else np.eye(d, dtype=complex)
    else:
        u = rm.unitary_from_raw(state_case["raw_u"], d)
    m = ic["m"]
    out = []
    for x in range(m):
        k = np.zeros((d, d), dtype=complex)
        for i in range(d):
            if i % m == x:
                k = k + np.outer(u[:, i], u[:, i].conj())
        out.append([k])
    return out


def _quara_mprocess(c_sys, basis, kraus_sets, out_shape):
    from quara.objects.mprocess import MProcess

    hss = [np.ascontiguousarray(np.real(rm.hs_from_kraus(basis, ks)), dtype=np.float64) for ks in kraus_sets]
    return MProcess(c_sys, hss, shape=tuple(int(s) for s in out_shape), is_physicality_required=False)


def check_ensembles(case, ctx):
    from quara.objects.multinomial_distribution import MultinomialDistribution
    from quara.objects.operators import compose_qoperations
    from quara.objects.state import State
    from quara.objects.state_ensemble import StateEnsemble

    shape = case["shape"]
    d = gen.dim_of(shape)
    basis = gen.ref_basis(shape)
    c_sys = build.c_sys_for(shape)
    if case.get("rot") is not None:
        from harness import covar

        c_sys, _o, basis = covar.rotated_env(shape, case["rot"])
        ctx.label("basis:rotated")
    rho = gen.state_matrix(case["state"])
    ks1 = _kraus_sets(case["m1"], case["state"])
    ks2 = _kraus_sets(case["m2"], case["state"])
    m1, m2 = len(ks1), len(ks2)
    sh1 = tuple(int(s) for s in case["m1"]["out_shape"])
    sh2 = tuple(int(s) for s in case["m2"]["out_shape"])
    state = build.make(c_sys, "state", np.real(rm.vec(basis, rho)))
    q1 = _quara_mprocess(c_sys, basis, ks1, sh1)
    q2 = _quara_mprocess(c_sys, basis, ks2, sh2)
    alg = rm.algebraic_tol(d)
    ctx.label(shape, f"m1:{m1}", f"m2:{m2}", "kind1:" + case["m1"]["kind"], "kind2:" + case["m2"]["kind"],
              "state:" + case["state"].get("kind", "generic"),
              "multi-dim-outcome-shape" if (len(sh1) > 1 or len(sh2) > 1) else "flat-outcome-shape")

    # ---- reference
    a = [rm.apply_kraus(ks, rho) for ks in ks1]  # unnormalised post-states
    p1 = np.array([float(np.real(np.trace(x))) for x in a])
    ab = [[rm.apply_kraus(kj, ai) for kj in ks2] for ai in a]
    joint = np.array([[float(np.real(np.trace(x))) for x in row] for row in ab])

    def ptol(ref):
        ref = np.asarray(ref, dtype=float).reshape(-1)
        return alg + 3.0 * float(np.sum(ref[ref <= 1e-7].clip(min=0.0))) + 3.0 * float(np.sum(np.abs(ref[ref < 0])))

    def check_state(st_obj, ref_unnorm, p, tag, detail):
        ctx.check(type(st_obj) is State, tag + ":is_state", f"{type(st_obj)}")
        if type(st_obj) is not State:
            return
        vec = np.asarray(st_obj.vec, dtype=float)
        if p >= 1e-6:
            ctx.close(vec, np.real(rm.vec(basis, ref_unnorm / p)), alg / p, tag + ":normalised_post_state", detail)
            ctx.close(float(vec[0]) * math.sqrt(d), 1.0, alg / p, tag + ":post_state_trace_one", detail)

    # ---- one measurement
    ens1 = compose_qoperations(q1, state)
    ctx.check(type(ens1) is StateEnsemble, "ens1:type", f"{type(ens1)}")
    if type(ens1) is not StateEnsemble:
        return
    pd1 = ens1.prob_dist
    ctx.check(type(pd1) is MultinomialDistribution, "ens1:prob_dist_type", f"{type(pd1)}")
    if type(pd1) is not MultinomialDistribution or not _valid_dist_obj(pd1, ctx, "ens1"):
        return
    ctx.equal(tuple(int(s) for s in pd1.shape), sh1, "ens1:shape_is_outcome_shape")
    ctx.equal(len(ens1.states), m1, "ens1:number_of_states")
    if tuple(int(s) for s in pd1.shape) != sh1 or len(ens1.states) != m1:
        return
    ctx.close(np.asarray(pd1.ps, dtype=float), p1, ptol(p1), "ens1:probabilities")
    if not pd1.is_zero_dist:
        ctx.close(float(np.sum(pd1.ps)), 1.0, 1e-12, "ens1:normalised")
    for i, multi in enumerate(all_multi(sh1)):
        ctx.close(pd1[multi], p1[i], ptol(p1), "ens1:prob_by_tuple", f"outcome {multi}")
        ctx.close(pd1[i], p1[i], ptol(p1), "ens1:prob_by_int", f"outcome {i}")
        ctx.check(ens1.state(multi) is ens1.state(i), "ens1:state_tuple_is_state_int", f"outcome {multi}")
        ctx.check(ens1.state(i) is ens1.states[i], "ens1:state_int_is_states_entry", f"outcome {i}")
        check_state(ens1.state(multi), a[i], p1[i], "ens1", f"outcome {multi} p={p1[i]:.3e}")
        if p1[i] < 1e-12:
            ctx.equal(float(pd1[multi]), 0.0, "ens1:zero_probability_outcome_is_zero")
            ctx.label("zero-probability-outcome")
    ctx.raises((TypeError,), lambda: ens1.state([0] * len(sh1)), "ens:state_rejects_list")
    ctx.raises((TypeError,), lambda: ens1.state(0.0), "ens:state_rejects_float")
    ctx.raises((TypeError,), lambda: ens1.state("0"), "ens:state_rejects_str")

    # ---- two measurements: outcome i of m1, then outcome j of m2
    ens2 = compose_qoperations(q2, q1, state) if case["flat_call"] else compose_qoperations(q2, ens1)
    ctx.check(type(ens2) is StateEnsemble, "ens2:type", f"{type(ens2)}")
    if type(ens2) is not StateEnsemble:
        return
    pd2 = ens2.prob_dist
    if type(pd2) is not MultinomialDistribution or not _valid_dist_obj(pd2, ctx, "ens2"):
        ctx.check(type(pd2) is MultinomialDistribution, "ens2:prob_dist_type", f"{type(pd2)}")
        return
    sh12 = sh1 + sh2
    ctx.equal(tuple(int(s) for s in pd2.shape), sh12, "ens2:shape_is_first_then_second")
    ctx.equal(len(ens2.states), m1 * m2, "ens2:number_of_states")
    if tuple(int(s) for s in pd2.shape) != sh12 or len(ens2.states) != m1 * m2:
        return
    jt = ptol(joint)
    ctx.close(np.asarray(pd2.ps, dtype=float), joint.reshape(-1), jt, "ens2:joint_probabilities_row_major")
    if not pd2.is_zero_dist:
        ctx.close(float(np.sum(pd2.ps)), 1.0, 1e-12, "ens2:normalised")
    multis1, multis2 = all_multi(sh1), all_multi(sh2)
    for i in range(m1):
        for j in range(m2):
            multi = tuple(multis1[i]) + tuple(multis2[j])
            serial = i * m2 + j
            ctx.close(pd2[multi], joint[i, j], jt, "ens2:prob_by_tuple", f"outcome {multi}")
            ctx.check(ens2.state(multi) is ens2.state(serial), "ens2:state_tuple_is_state_int", f"outcome {multi}")
            ctx.check(ens2.state(serial) is ens2.states[serial], "ens2:state_int_is_states_entry")
            check_state(ens2.state(multi), ab[i][j], joint[i, j], "ens2", f"outcome {multi} p={joint[i, j]:.3e}")
            if joint[i, j] < 1e-12:
                ctx.equal(float(pd2[multi]), 0.0, "ens2:zero_probability_outcome_is_zero")
                ctx.label("zero-probability-outcome")
    # ---- link to the distribution algebra: marginal over the second measurement = first measurement,
    #      conditional on the first outcome = statistics of the second measurement on the post-state
    if not pd2.is_zero_dist:
        first = pd2.marginalize(list(range(len(sh1))))
        if _valid_dist_obj(first, ctx, "ens2_marginal"):
            ctx.equal(tuple(int(s) for s in first.shape), sh1, "ens2:marginal_first_shape")
            if tuple(int(s) for s in first.shape) == sh1:
                ctx.close(np.asarray(first.ps, dtype=float), p1, jt + ptol(p1), "ens2:marginal_is_first_measurement")
                # zeroing a sub-threshold joint outcome re-normalises inside its own branch: the statistics of the first
                # measurement, as the ensemble of the first measurement reports them, are untouched by the second one
                # ... unless EVERY joint outcome of a branch is below the threshold: then the documented zeroing removes
                # the whole branch and its mass (at most m2 * eps_zero per branch) is re-distributed.
                pd1_ps = np.asarray(pd1.ps, dtype=float)
                gone = [i for i in range(m1) if pd1_ps[i] > 0 and np.max(joint[i]) <= 2 * EPS_DEFAULT]
                if gone:
                    ctx.label("whole-branch-below-threshold")
                ctx.close(np.asarray(first.ps, dtype=float), pd1_ps, 1e-13 + 2 * float(sum(pd1_ps[i] for i in gone)),
                          "ens2:first_marginal_equals_first_ensemble_exactly")
        second = pd2.marginalize(list(range(len(sh1), len(sh12))))
        if _valid_dist_obj(second, ctx, "ens2_marginal"):
            ctx.equal(tuple(int(s) for s in second.shape), sh2, "ens2:marginal_second_shape")
            if tuple(int(s) for s in second.shape) == sh2:
                ctx.close(np.asarray(second.ps, dtype=float), joint.sum(axis=0), jt * m1 + alg, "ens2:marginal_is_second_measurement")
        for i in range(m1):
            if p1[i] >= 1e-4 and np.all((joint[i] >= 1e-5 * p1[i]) | (np.abs(joint[i]) < 1e-14)):
                cond = pd2.conditionalize(list(range(len(sh1))), [int(x) for x in multis1[i]])
                if _valid_dist_obj(cond, ctx, "ens2_conditional"):
                    ctx.equal(tuple(int(s) for s in cond.shape), sh2, "ens2:conditional_shape")
                    if tuple(int(s) for s in cond.shape) == sh2:
                        ctx.close(np.asarray(cond.ps, dtype=float), joint[i] / p1[i], (jt + alg) / p1[i] * 4, "ens2:conditional_is_second_given_first")
    # ---- independent parties: the ensemble of one measurement on this system (x) the ensemble of two measurements on a
    #      second system; p(i; k, j) = p1[i] * joint[k, j], states and probabilities in the row-major layout of the shape
    if case.get("with_product") and d <= 3 and m1 * m1 * m2 <= 48:
        from quara.objects.operators import tensor_product

        names_b = [10 + k for k in range(len(gen.SHAPES[shape]))]
        c_sys_b = build.c_sys_for(shape, names=names_b)
        if case.get("rot") is not None:
            c_sys_b = covar.rotated_env(shape, case["rot"], names_b)[0]
        state_b = build.make(c_sys_b, "state", np.real(rm.vec(basis, rho)))
        ens_b = compose_qoperations(_quara_mprocess(c_sys_b, basis, ks2, sh2), _quara_mprocess(c_sys_b, basis, ks1, sh1), state_b)
        if type(ens_b) is StateEnsemble and not ens_b.prob_dist.is_zero_dist and not pd1.is_zero_dist:
            prod = tensor_product(ens1, ens_b)
            ctx.check(type(prod) is StateEnsemble, "ens_product:type", f"{type(prod)}")
            if type(prod) is StateEnsemble and _valid_dist_obj(prod.prob_dist, ctx, "ens_product"):
                pdp = prod.prob_dist
                shp = sh1 + sh1 + sh2
                ctx.equal(tuple(int(v) for v in pdp.shape), shp, "ens_product:shape_is_left_then_right")
                ref_p = np.multiply.outer(np.asarray(pd1.ps, dtype=float), np.asarray(ens_b.prob_dist.ps, dtype=float).reshape(m1, m2))
                if tuple(int(v) for v in pdp.shape) == shp and len(prod.states) == m1 * m1 * m2:
                    tp = ptol(ref_p) + alg
                    ctx.close(np.asarray(pdp.ps, dtype=float), ref_p.reshape(-1), tp, "ens_product:probabilities_row_major")
                    for i in range(m1):
                        for k in range(m1):
                            for j in range(m2):
                                multi = tuple(multis1[i]) + tuple(multis1[k]) + tuple(multis2[j])
                                serial = (i * m1 + k) * m2 + j
                                ctx.close(pdp[multi], ref_p[i, k, j], tp, "ens_product:prob_by_tuple", f"outcome {multi}")
                                ctx.check(prod.state(multi) is prod.states[serial], "ens_product:state_tuple_is_row_major_entry", f"outcome {multi}")
                                want = tensor_product(ens1.states[i], ens_b.states[k * m2 + j])
                                ctx.close(np.asarray(prod.states[serial].vec, dtype=float), np.asarray(want.vec, dtype=float), 1e-10,
                                          "ens_product:state_is_product_of_the_members", f"outcome {multi}")
                    ctx.label("ensemble-product")
    # ---- POVM on the ensemble: p(i, j, k) = Tr E_k B_j A_i rho
    if case.get("povm") is not None:
        es = gen.povm_matrices(case["povm"])
        qp = build.make(c_sys, "povm", np.concatenate([np.real(rm.vec(basis, e)) for e in es]), m=len(es))
        # the certain ensemble {rho with probability 1}, its weight written as the integer 1 (as the library's own typical
        # ensembles write theirs) or as 1.0: the POVM statistics are the Born rule of rho either way
        born = np.array([float(np.real(np.trace(e @ rho))) for e in es])
        for wtag, w in (("int", [1]), ("float", [1.0])):
            certain = StateEnsemble([state], MultinomialDistribution(w))
            pdc = compose_qoperations(qp, certain)
            if ctx.check(type(pdc) is MultinomialDistribution, f"povm_on_certain_ensemble:type:{wtag}", f"{type(pdc)}"):
                ctx.equal(tuple(int(v) for v in pdc.shape), (1, len(es)), f"povm_on_certain_ensemble:shape:{wtag}")
                if np.asarray(pdc.ps).size == len(es):
                    ctx.close(np.asarray(pdc.ps, dtype=float), born, ptol(born) + alg, f"povm_on_certain_ensemble:born_rule:{wtag}")
        ref3 = np.array([[[float(np.real(np.trace(e @ x))) for e in es] for x in row] for row in ab])
        pd3 = compose_qoperations(qp, ens2)
        ctx.check(type(pd3) is MultinomialDistribution, "povm_on_ens:type", f"{type(pd3)}")
        if type(pd3) is MultinomialDistribution and _valid_dist_obj(pd3, ctx, "povm_on_ens"):
            ctx.equal(tuple(int(s) for s in pd3.shape), sh12 + (len(es),), "povm_on_ens:shape")
            if tuple(int(s) for s in pd3.shape) == sh12 + (len(es),):
                t3 = ptol(ref3) + 3.0 * float(np.sum(joint[joint <= 1e-7].clip(min=0.0)))
                ctx.close(np.asarray(pd3.ps, dtype=float), ref3.reshape(-1), t3, "povm_on_ens:probabilities_row_major")
                for i in range(m1):
                    for j in range(m2):
                        for k in range(len(es)):
                            multi = tuple(multis1[i]) + tuple(multis2[j]) + (k,)
                            ctx.close(pd3[multi], ref3[i, j, k], t3, "povm_on_ens:prob_by_tuple", f"outcome {multi}")
        ctx.label("with-povm")
    ctx.label("flat-call" if case["flat_call"] else "nested-call")
    ctx.nontrivial(m1 != m2)


# ----------------------------------------------------------------------------- facets
FACETS = {
    "index_maps": {
        "kind": "enumeration",
        "items": index_items,
        "check": check_index_maps,
        "budget": {"quick": {"examples": 0, "shards": 4}, "thorough": {"examples": 0, "shards": 8}},
        "nontrivial": "shape has >= 2 variables with >= 2 values (row- and column-major differ)",
        "min_nontrivial": 600,
    },
    "multinomial": {
        "strategy": multinomial_case,
        "check": check_multinomial,
        "budget": {"quick": {"examples": 3200, "shards": 8}, "thorough": {"examples": 32000, "shards": 16}},
        "nontrivial": "non-square shape with >= 2 variables of >= 2 values, or at least one entry below the zero threshold",
        "min_nontrivial": 100,
    },
    "validate": {
        "strategy": validate_case,
        "check": check_validate,
        "budget": {"quick": {"examples": 1600, "shards": 4}, "thorough": {"examples": 16000, "shards": 8}},
        "nontrivial": "negative-entry or sum defect within two decades of eps (outside the margin band)",
        "min_nontrivial": 40,
    },
    "marginal": {
        "strategy": marginal_case,
        "check": check_marginal,
        "budget": {"quick": {"examples": 2400, "shards": 8}, "thorough": {"examples": 24000, "shards": 16}},
        "nontrivial": ">= 2 variables with >= 2 values and (non-square shape or entries below the zero threshold)",
        "min_nontrivial": 100,
    },
    "conditional": {
        "strategy": conditional_case,
        "check": check_conditional,
        "budget": {"quick": {"examples": 2400, "shards": 8}, "thorough": {"examples": 24000, "shards": 16}},
        "nontrivial": ">= 2 variables with >= 2 values, a positive-probability event, and (non-square shape or threshold entries)",
        "min_nontrivial": 100,
    },
    "ensembles": {
        "strategy": ensemble_case,
        "check": check_ensembles,
        "budget": {"quick": {"examples": 2400, "shards": 8}, "thorough": {"examples": 24000, "shards": 16}},
        "nontrivial": "two measurement processes with different outcome counts applied in sequence",
        "min_nontrivial": 100,
    },
}
