"""C14 - Sampled data and empirical distributions are valid and reproducible."""
import math

import numpy as np
from hypothesis import strategies as st

from harness import reps, build, gen
from harness import refmodel as rm
from harness.checks import c14_model as M

RULE = (
    "data_validity: probability vectors (2..16 outcomes; classes generic / exact zeros incl. first and last / tiny entries "
    "1e-300..1e-17 / decimal k/10 and 1/m vectors whose float cumulative sum stops below 1 / dyadic / sum off by <= 1e-14) "
    "sampled through an int seed, a real Generator (MT19937, PCG64), None, or a np.random.Generator subclass whose random() "
    "returns scripted values on the 2**-53 grid (0, 1-2**-53, each float partial sum of p and its grid neighbours); oracle: "
    "every datum is an int in range with p[d] > 0 and brackets the inverse CDF recomputed with math.fsum; equal to the numpy "
    "reference inversion of a twin stream away from partial sums.  Non-trivial = p has an exact zero or a tiny entry, or a "
    "scripted value sits within 2 grid steps of a partial sum.  "
    "empi_prefix: generated data / strictly increasing num_sums against bincount(data[:n])/n (bitwise), consecutive count "
    "differences, and the documented ValueErrors (one violation per case).  Non-trivial = >= 2 prefixes or a rejection class.  "
    "reproducibility: a case is a generated *program*: steps 'seed global state', 'draw k numbers from np.random', 'draw k "
    "from shared generator g', 'Experiment.reset_seed_data / QTomography.reset_seed', 'call entry point E with args a and an int "
    "seed / shared generator g / None' over 12 entry points (data_generator functions, MultinomialDistribution."
    "execute_random_sampling, Experiment.generate_*, generate_empi_dist / _dists / _dists_sequence of StandardQst / Povmt / "
    "Qpt / Qmpt on 1 qubit with generated true objects and testers).  The model keeps a mirror RandomState of the global "
    "stream, a twin of every shared generator and a table (entry,args,seed)->result; after every step the global state and all "
    "generator states must equal the model's bit for bit and every result must equal the numpy reference sampling of the "
    "model's stream and the recorded result.  Non-trivial = the program repeats an int-seed call with something in between, or "
    "uses a shared generator twice, or calls with None.  "
    "distribution: n = 200000 samples, |f - p| <= 0.012 per outcome (Hoeffding: 2exp(-57.6) = 2e-25 per comparison), p from the "
    "case (plain entries) or from refmodel Born probabilities (tomography entries); zeros exactly zero.  Non-trivial = p has a zero "
    "or two reference probabilities differ by > 0.05 (so that a permuted / wrong distribution is visible)."
)
ASSUMPTIONS = [
    "np.random.Generator.random() returns multiples of 2**-53 in [0, 1-2**-53]; scripted streams return only such values",
    "reference sampler: numpy Generator/RandomState .random / .multinomial called on a twin stream (scipy multinomial.rvs "
    "delegates to random_state.multinomial); multi-block entry points consume one stream schedule-major, then num_sums "
    "(the order of generate_empi_dists_sequence_from_prob_dists through which every multi-schedule entry point funnels)",
    "for tomography-level reproducibility the probability vectors handed to the reference sampler are Experiment.calc_prob_dists "
    "of the same objects (deterministic, no random state; their correctness is C08); the distribution facet uses refmodel "
    "Born probabilities instead; cases whose quara-computed p is off normalisation by > 2e-15 (rejected by this scipy) are skipped",
    "empirical distribution of 0 samples is undefined: sample sizes >= 1 for multinomial entry points and num_sums",
]
TECHNIQUE = (
    "property-based testing (Hypothesis): generated probability vectors incl. scripted Generator subclasses at the "
    "cumulative-sum boundary; generated call-history programs against a stream model (mirror RandomState, twin generators, "
    "result table); bincount reference for prefixes; fixed Hoeffding bound vs refmodel probabilities"
)
LEVEL_TEXT = (
    "Generated-input and generated-history search: thousands of probability vectors with every stream kind including scripted "
    "boundary values real streams hit with probability 2**-53, thousands of data/num_sums combinations against bincount, "
    "hundreds of call-history programs (4..16 steps after the initial seeding) over 12 entry points and 4 tomography types with the complete random state (global and "
    "every shared generator) compared with a model after every step, and a fixed-bound distribution test against independent "
    "Born probabilities.  It cannot prove absence of a history dependence longer than the generated programs (<= 17 steps)."
)
LEVEL_NOTE = (
    "Trusted: numpy's bit generators and multinomial/random samplers (used as twins), scipy.multinomial.rvs delegating to them, "
    "harness/refmodel.py for Born probabilities; the stream-consumption order assumption stated above."
)

GRID = 2.0 ** -53
RMAX = 1.0 - GRID
SEED_MAX = 2 ** 32 - 1


# ============================================================================= probability vectors
def _normalise(w):
    w = [float(x) for x in w]
    s = math.fsum(w)
    return [x / s for x in w]


@st.composite
def prob_vector(draw, m_range=(2, 16), for_multinomial=False):
    """{'p': [...], 'cls': name}.  for_multinomial: |sum-1| small enough for scipy, no sum_off class."""
    classes = ["generic", "zeros", "zeros", "tiny", "decimal", "dyadic"]
    if not for_multinomial:
        classes += ["sum_off", "decimal"]
    cls = draw(st.sampled_from(classes))
    m = draw(st.integers(*m_range))
    if cls == "decimal":
        # k/10-type and 1/m-type vectors: float cumulative sums famously stop short of 1 ([0.1]*10 -> 0.9999999999999999)
        base = draw(st.sampled_from(["tenths", "uniform", "tenths_zero_last", "uniform_zero_last"]))
        if base.startswith("tenths"):
            parts = draw(st.lists(st.integers(1, 4), min_size=1, max_size=10))
            tot, ks = 0, []
            for k in parts:
                if tot + k > 10:
                    break
                ks.append(k)
                tot += k
            if tot < 10:
                ks.append(10 - tot)
            p = [k / 10 for k in ks]
        else:
            mm = draw(st.integers(2, 15))
            p = [1.0 / mm] * mm
        if base.endswith("zero_last"):
            p = p + [0.0] * draw(st.integers(1, 2))
        if len(p) < 2:
            p = p + [0.0]
        return {"p": p[:17], "cls": cls}
    if cls == "dyadic":
        ks = draw(st.lists(st.integers(0, 8), min_size=m, max_size=m))
        if sum(ks) == 0:
            ks[0] = 1
        tot = sum(ks)
        # scale to a power of two denominator by padding the first non-zero entry
        den = 1
        while den < tot:
            den *= 2
        i0 = next(i for i, k in enumerate(ks) if k > 0)
        ks[i0] += den - tot
        return {"p": [k / den for k in ks], "cls": cls}
    w = draw(st.lists(st.floats(1e-3, 1.0, allow_nan=False), min_size=m, max_size=m))
    if cls in ("zeros",):
        mask = draw(st.lists(st.booleans(), min_size=m, max_size=m))
        where = draw(st.sampled_from(["any", "last", "first", "first_last"]))
        if where in ("last", "first_last"):
            mask[-1] = True
        if where in ("first", "first_last"):
            mask[0] = True
        if all(mask):
            mask[m // 2] = False
        if not any(mask):
            mask[-1] = True
            if all(mask):
                mask[0] = False
        w = [0.0 if z else x for x, z in zip(w, mask)]
    if cls == "tiny":
        tiny = draw(st.lists(st.sampled_from([None, None, 1e-300, 1e-200, 1e-30, 1e-17, 1e-12, 5e-324]), min_size=m, max_size=m))
        if all(t is None for t in tiny):
            tiny[draw(st.integers(0, m - 1))] = 1e-300
        if all(t is not None for t in tiny):
            tiny[0] = None
        w = [x if t is None else t for x, t in zip(w, tiny)]
    p = _normalise(w)
    if cls == "sum_off":
        delta = draw(st.sampled_from([-1e-14, -3e-15, -1e-15, 1e-15, 1e-14]))
        p = [x * (1.0 + delta) for x in p]
        if draw(st.booleans()):
            p[-1] = 0.0
            s = math.fsum(p)
            if s <= 0:
                p[0] = 1.0
                s = 1.0
            p = [x / s * (1.0 + delta) for x in p]
    return {"p": p, "cls": cls}


def seq_cumsum(p):
    """left-to-right float cumulative sums (what any sequential implementation computes)."""
    out, c = [], 0.0
    for x in p:
        c += float(x)
        out.append(c)
    return out


def _to_grid(x):
    """largest multiple of 2**-53 <= x, clipped into [0, 1-2**-53]."""
    x = min(max(float(x), 0.0), RMAX)
    k = math.floor(x * 2.0 ** 53)
    return min(max(k, 0), 2 ** 53 - 1) * GRID


@st.composite
def scripted_values(draw, p):
    cum = seq_cumsum(p)
    n = draw(st.integers(1, 12))
    rs = []
    for _ in range(n):
        t = draw(st.sampled_from(["zero", "max", "partial", "partial", "partial", "frac"]))
        if t == "zero":
            r = 0.0
        elif t == "max":
            r = RMAX
        elif t == "partial":
            k = draw(st.integers(0, len(p) - 1))
            off = draw(st.sampled_from([-2, -1, 0, 0, 1, 2]))
            r = _to_grid(_to_grid(cum[k]) + off * GRID)
        else:
            r = _to_grid(draw(st.floats(0.0, 1.0, allow_nan=False, exclude_max=True)))
        rs.append(r)
    return rs


def stream_desc(kinds=("int", "gen", "none")):
    return st.one_of(
        *[
            {
                "int": st.builds(lambda s: {"kind": "int", "seed": s}, st.integers(0, SEED_MAX)),
                "gen": st.builds(lambda b, s: {"kind": "gen", "bitgen": b, "seed": s},
                                 st.sampled_from(["mt", "pcg"]), st.integers(0, SEED_MAX)),
                "none": st.builds(lambda s: {"kind": "none", "global_seed": s}, st.integers(0, SEED_MAX)),
            }[k]
            for k in kinds
        ]
    )


# ============================================================================= facet data_validity
@st.composite
def data_validity_case(draw, tier):
    mode = draw(st.sampled_from(["scripted", "scripted", "scripted", "real", "real", "invalid"]))
    if mode == "invalid":
        pv = draw(prob_vector(for_multinomial=True))
        p = list(pv["p"])
        bad = draw(st.sampled_from(["negative", "sum_low", "sum_high", "dataset_len", "dataset_seeds_len"]))
        if bad == "negative":
            i = draw(st.integers(0, len(p) - 1))
            j = (i + 1) % len(p)
            p[j] += p[i] + 0.1
            p[i] = -0.1
        elif bad == "sum_low":
            p = [x * 0.999 for x in p]
        elif bad == "sum_high":
            p = [x * 1.001 for x in p]
        return {"mode": mode, "bad": bad, "p": p, "cls": pv["cls"], "n": draw(st.integers(0, 5)),
                "seed": draw(st.integers(0, SEED_MAX))}
    pv = draw(prob_vector())
    case = {"mode": mode, "p": pv["p"], "cls": pv["cls"], "atol": None}
    if pv["cls"] == "sum_off":
        case["atol"] = draw(st.sampled_from([None, 1e-10]))
    if mode == "scripted":
        case["rs"] = draw(scripted_values(pv["p"]))
        case["n"] = len(case["rs"])
    else:
        case["stream"] = draw(stream_desc())
        case["n"] = draw(st.sampled_from([0, 1, 2, 7, 50, 400]))
        case["pre_draws"] = draw(st.integers(0, 3))
    return case


def _check_data_list(ctx, data, p, n, tag):
    """range / type / non-zero probability.  returns True when data is a well-formed list."""
    ok = ctx.check(isinstance(data, list) and len(data) == n, f"data_length:{tag}",
                   lambda: f"type {type(data).__name__} len {len(data) if hasattr(data, '__len__') else '?'} expected {n}")
    if not ok or not isinstance(data, list):
        return False
    good = all(isinstance(d, (int, np.integer)) and not isinstance(d, bool) for d in data)
    if not ctx.check(good, f"data_int:{tag}", lambda: f"non-int outcome in {data[:20]}"):
        return False
    in_range = all(0 <= int(d) < len(p) for d in data)
    if not ctx.check(in_range, f"data_range:{tag}", lambda: f"outcome outside [0,{len(p)}) in {data[:20]}"):
        return False
    zero_hit = [(i, int(d)) for i, d in enumerate(data) if not p[int(d)] > 0]
    ctx.check(not zero_hit, f"data_nonzero_prob:{tag}",
              lambda: f"outcome(s) of probability zero returned: (position, outcome) {zero_hit[:5]} for p={p}")
    return True


def _bracket_ok(p, r, d, tol):
    lo = math.fsum(p[:d])
    hi = math.fsum(p[: d + 1])
    return lo - tol <= r <= hi + tol


def is_fallthrough_onto_zero_last(case):
    """known finding C14-F1: a scripted value >= the float cumulative total of p while p[-1] == 0."""
    if case.get("mode") != "scripted":
        return False
    p = case["p"]
    if p[-1] != 0.0:
        return False
    tot = seq_cumsum(p)[-1]
    return any(r >= tot for r in case["rs"])


def check_data_validity(case, ctx):
    from quara.qcircuit import data_generator as dg

    p = [float(x) for x in case["p"]]
    parr = np.array(p, dtype=np.float64)
    n = case["n"]
    mode = case["mode"]
    ctx.label("mode:" + mode, "cls:" + case["cls"], f"m:{'2-4' if len(p) <= 4 else '5-16'}")

    if mode == "invalid":
        bad = case["bad"]
        ctx.label("bad:" + bad)
        if bad in ("negative", "sum_low", "sum_high"):
            ctx.raises((ValueError,), lambda: dg.generate_data_from_prob_dist(parr, n, case["seed"]), "rejects:" + bad)
        elif bad == "dataset_len":
            ctx.raises((ValueError,), lambda: dg.generate_dataset_from_prob_dists([parr, parr], [n], None), "rejects:" + bad)
        else:
            ctx.raises((ValueError,), lambda: dg.generate_dataset_from_prob_dists([parr, parr], [n, n], [case["seed"]]),
                       "rejects:" + bad)
        ctx.nontrivial(True)
        return

    tol = 4 * len(p) * 2.3e-16 + abs(1.0 - math.fsum(p))
    cum = seq_cumsum(p)
    has_zero = any(x == 0.0 for x in p)
    has_tiny = any(0.0 < x < 1e-10 for x in p)
    if has_zero:
        ctx.label("p:has_zero")
    if p[-1] == 0.0:
        ctx.label("p:zero_last")
    if cum[-1] < 1.0:
        ctx.label("p:cumsum_below_1")

    g_before = M.global_state()
    p_before = parr.copy()

    if mode == "scripted":
        rs = [float(r) for r in case["rs"]]
        for r in rs:  # harness sanity: only values a real Generator can return
            if not (0.0 <= r <= RMAX and (r * 2.0 ** 53) == math.floor(r * 2.0 ** 53)):
                raise AssertionError(f"scripted value {r!r} is not on the 2**-53 grid")
        stream = M.ScriptedGenerator(rs)
        data = dg.generate_data_from_prob_dist(parr, n, stream, case.get("atol"))
        ctx.check(stream.calls == [n], "scripted_stream_use", lambda: f"random() called with sizes {stream.calls}, expected [{n}]")
        near = any(abs(r - c) <= 2 * GRID for r in rs for c in cum)
        if near:
            ctx.label("r:at_partial_sum")
        if any(r >= cum[-1] for r in rs):
            ctx.label("r:beyond_total")
        if any(r == 0.0 for r in rs) and p[0] == 0.0:
            ctx.label("r:zero_with_p0_zero")
        if _check_data_list(ctx, data, p, n, "scripted"):
            bad = [(r, int(d)) for r, d in zip(rs, data) if p[int(d)] > 0 and not _bracket_ok(p, r, int(d), tol)]
            ctx.check(not bad, "inverse_cdf_bracket:scripted", lambda: f"(r, outcome) outside its CDF bracket: {bad[:4]} p={p}")
        ctx.check(M.states_equal(M.global_state(), g_before), "global_state_untouched:scripted")
        ctx.nontrivial(has_zero or has_tiny or near)
    else:
        sd = case["stream"]
        ctx.label("stream:" + sd["kind"])
        # unrelated draws from the global state first
        if sd["kind"] == "none":
            np.random.seed(sd["global_seed"])
            twin = np.random.RandomState(sd["global_seed"])
            np.random.random(case["pre_draws"])
            twin.random_sample(case["pre_draws"])
            arg = None
            ref_r = twin.random_sample(n)
        elif sd["kind"] == "int":
            np.random.random(case["pre_draws"])
            g_before = M.global_state()
            arg = int(sd["seed"])
            ref_r = np.random.Generator(np.random.MT19937(arg)).random(n)
        else:
            np.random.random(case["pre_draws"])
            g_before = M.global_state()
            arg = M.make_generator(sd)
            twin = M.make_generator(sd)
            ref_r = twin.random(n)
        data = dg.generate_data_from_prob_dist(parr, n, arg, case.get("atol"))
        if _check_data_list(ctx, data, p, n, sd["kind"]):
            bad = [(float(r), int(d)) for r, d in zip(ref_r, data) if p[int(d)] > 0 and not _bracket_ok(p, float(r), int(d), tol)]
            ctx.check(not bad, "inverse_cdf_bracket:" + sd["kind"], lambda: f"(r, outcome) outside its CDF bracket: {bad[:4]} p={p}")
            ref = M.ref_inverse_cdf(p, ref_r)
            clear = [i for i, r in enumerate(ref_r) if ref[i] is not None and all(abs(float(r) - c) > 4 * GRID for c in cum)]
            ctx.check(all(int(data[i]) == ref[i] for i in clear), "data_equals_reference:" + sd["kind"],
                      lambda: f"data {data[:12]} reference {ref[:12]}")
        if sd["kind"] == "none":
            ctx.check(M.states_equal(M.global_state(), twin.get_state()), "global_state_advances_like_mirror")
        else:
            ctx.check(M.states_equal(M.global_state(), g_before), "global_state_untouched:" + sd["kind"])
        if sd["kind"] == "gen":
            ctx.check(M.gen_states_equal(arg, twin), "generator_advances_like_twin")
        ctx.nontrivial((has_zero or has_tiny) and n > 0)
    ctx.check(np.array_equal(parr, p_before), "prob_dist_not_mutated")


# ============================================================================= facet empi_prefix
@st.composite
def _empi_item(draw, allow_short=True):
    m = draw(st.integers(1, 16))
    n = draw(st.integers(1, 60))
    skew = draw(st.booleans())
    if skew:  # few distinct outcomes: long runs, empty bins
        support = draw(st.lists(st.integers(0, m - 1), min_size=1, max_size=3))
        data = draw(st.lists(st.sampled_from(support), min_size=n, max_size=n))
    else:
        data = draw(st.lists(st.integers(0, m - 1), min_size=n, max_size=n))
    k = min(n, draw(st.sampled_from(([0] if allow_short else []) + [1, 2, 2, 3, 4, 6])))
    num_sums = sorted(draw(st.lists(st.integers(1, n), min_size=k, max_size=k, unique=True)))
    if num_sums and draw(st.booleans()):
        num_sums[-1] = n  # full data
    num_sums = sorted(set(num_sums))
    return {"m": m, "data": data, "num_sums": num_sums}


@st.composite
def empi_prefix_case(draw, tier):
    variant = draw(st.sampled_from(["single", "single", "single", "list", "bad", "bad", "bad_list"]))
    # "long": the drawn (short) data repeated up to a length around the sizes where implementations switch algorithm;
    # the drawn prefixes stay (so early prefixes still miss outcomes) and the full length is added as last prefix
    long_len = draw(st.sampled_from([None] * 5 + [9999, 10000, 10001, 16385, 40000]))
    if variant == "single":
        return {"variant": variant, "item": draw(_empi_item()), "long_len": long_len}
    if variant == "list":
        return {"variant": variant, "items": draw(st.lists(_empi_item(), min_size=0, max_size=4)), "long_len": long_len}
    if variant == "bad_list":
        items = draw(st.lists(_empi_item(), min_size=1, max_size=3))
        return {"variant": variant, "items": items, "bad": draw(st.sampled_from(["dataset_len", "num_sums_len", "ms_len"]))}
    item = draw(_empi_item(allow_short=False))
    bad = draw(st.sampled_from(["range_high", "range_neg", "beyond", "noninc", "duplicate", "neg_m"]))
    m, data, ns = item["m"], list(item["data"]), list(item["num_sums"])
    if bad in ("range_high", "range_neg"):
        pos = draw(st.integers(0, ns[-1] - 1))  # inside the last requested prefix
        data[pos] = m + draw(st.integers(0, 3)) if bad == "range_high" else -draw(st.integers(1, 3))
    elif bad == "beyond":
        extra = len(data) + draw(st.integers(1, 5))
        where = draw(st.sampled_from(["only", "last"]))
        ns = [extra] if where == "only" else ns + [extra]
    elif bad == "noninc":
        if len(ns) < 2:
            ns = [ns[0], ns[0] + 0]  # becomes duplicate; handled below
            if len(data) > ns[0]:
                ns = [ns[0] + 1, ns[0]]
            elif ns[0] > 1:
                ns = [ns[0], ns[0] - 1]
        else:
            i = draw(st.integers(0, len(ns) - 2))
            ns[i], ns[i + 1] = ns[i + 1], ns[i]
    elif bad == "duplicate":
        i = draw(st.integers(0, len(ns) - 1))
        ns = ns[: i + 1] + ns[i:]
    elif bad == "neg_m":
        m = -draw(st.integers(1, 3))
    return {"variant": "bad", "bad": bad, "item": {"m": m, "data": data, "num_sums": ns}}


def _check_empi_result(ctx, res, m, data, num_sums, tag):
    ok = ctx.check(isinstance(res, list) and len(res) == len(num_sums), f"empi_len:{tag}",
                   lambda: f"{len(res) if isinstance(res, list) else type(res)} entries for num_sums {num_sums}")
    if not ok or not isinstance(res, list):
        return
    prev_cnt, prev_n = np.zeros(m, dtype=np.int64), 0
    arr = np.asarray(data, dtype=np.int64)
    for k, n_k in enumerate(num_sums):
        entry = res[k]
        probs = M.empi_problems(entry, n_k, m)
        if not ctx.check(not probs, f"empi_valid:{tag}", lambda: f"entry {k}: {probs}"):
            return
        n, f = entry
        ref_cnt = np.bincount(arr[:n_k], minlength=m).astype(np.int64)
        ctx.check(np.array_equal(f, ref_cnt / n_k), f"empi_prefix_exact:{tag}",
                  lambda: f"entry {k} (n={n_k}): {f.tolist()} but bincount(data[:{n_k}])/n = {(ref_cnt / n_k).tolist()}")
        cnt = np.rint(f * n_k).astype(np.int64)
        diff = cnt - prev_cnt
        ctx.check(bool(np.all(diff >= 0)) and int(diff.sum()) == n_k - prev_n, f"empi_consecutive:{tag}",
                  lambda: f"entries {k - 1}->{k}: count difference {diff.tolist()} for {n_k - prev_n} new data")
        prev_cnt, prev_n = cnt, n_k


def _lengthened(it, long_len):
    if not long_len or not it["data"]:
        return it
    reps_ = -(-int(long_len) // len(it["data"]))
    data = (list(it["data"]) * reps_)[: int(long_len)]
    return {"m": it["m"], "data": data, "num_sums": sorted(set(list(it["num_sums"]) + [len(data)]))}


def check_empi_prefix(case, ctx):
    from quara.qcircuit import data_generator as dg

    v = case["variant"]
    ctx.label("variant:" + v)
    if case.get("long_len") and v in ("single", "list"):
        ctx.label(f"long-data:{case['long_len']}")
        case = dict(case)
        if v == "single":
            case["item"] = _lengthened(case["item"], case["long_len"])
        else:
            case["items"] = [_lengthened(i, case["long_len"]) for i in case["items"]]
    if v == "single":
        it = case["item"]
        data_before = list(it["data"])
        res = dg.calc_empi_dist_sequence(it["m"], it["data"], it["num_sums"])
        _check_empi_result(ctx, res, it["m"], it["data"], it["num_sums"], "single")
        ctx.check(it["data"] == data_before, "data_not_mutated")
        ctx.label(f"prefixes:{min(len(it['num_sums']), 3)}{'+' if len(it['num_sums']) >= 3 else ''}")
        if it["num_sums"] and it["num_sums"][-1] == len(it["data"]):
            ctx.label("full_data")
        ctx.nontrivial(len(it["num_sums"]) >= 2)
    elif v == "list":
        items = case["items"]
        res = dg.calc_empi_dists_sequence([i["m"] for i in items], [i["data"] for i in items], [i["num_sums"] for i in items])
        if ctx.check(isinstance(res, list) and len(res) == len(items), "empi_list_len"):
            for it, r in zip(items, res):
                _check_empi_result(ctx, r, it["m"], it["data"], it["num_sums"], "list")
        ctx.label(f"items:{len(items)}")
        ctx.nontrivial(len(items) >= 2 and any(len(i["num_sums"]) >= 2 for i in items))
    elif v == "bad":
        it = case["item"]
        ctx.label("bad:" + case["bad"])
        ctx.raises((ValueError,), lambda: dg.calc_empi_dist_sequence(it["m"], it["data"], it["num_sums"]),
                   "empi_rejects:" + case["bad"], f"m={it['m']} num_sums={it['num_sums']} len(data)={len(it['data'])}")
        ctx.nontrivial(True)
    else:
        items = case["items"]
        ms, ds, ns = [i["m"] for i in items], [i["data"] for i in items], [i["num_sums"] for i in items]
        bad = case["bad"]
        ctx.label("bad:" + bad)
        if bad == "dataset_len":
            ds = ds + [[0]]
        elif bad == "num_sums_len":
            ns = ns[:-1]
        else:
            ms = ms + [2]
        ctx.raises((ValueError,), lambda: dg.calc_empi_dists_sequence(ms, ds, ns), "empi_list_rejects:" + bad)
        ctx.nontrivial(True)


# ============================================================================= quantum set-ups (1 qubit)
_S2 = 1.0 / math.sqrt(2.0)
_NAMED_KETS = {
    "z0": [1, 0], "z1": [0, 1], "x0": [_S2, _S2], "x1": [_S2, -_S2], "y0": [_S2, 1j * _S2], "y1": [_S2, -1j * _S2],
}


def _proj(name):
    v = np.array(_NAMED_KETS[name], dtype=complex)
    return np.outer(v, v.conj())


def obj_matrices(case):
    """case -> matrices (state: rho; povm: [E_x]; gate: Kraus list; mprocess: list of Kraus lists).  refmodel only."""
    k = case.get("kind")
    t = case["type"]
    if k == "named":
        nm = case["name"]
        if t == "state":
            return _proj(nm)
        if t == "povm":  # projective measurement in the named basis
            return [_proj(nm + "0"), _proj(nm + "1")]
        if t == "gate":
            u = {"id": np.eye(2), "x": np.array([[0, 1], [1, 0]]), "h": np.array([[1, 1], [1, -1]]) * _S2}[nm]
            return [u.astype(complex)]
        if t == "mprocess":  # projective z measurement (optionally followed by a flip on outcome 1)
            x = np.array([[0, 1], [1, 0]], dtype=complex)
            if nm == "z":
                return [[_proj("z0")], [_proj("z1")]]
            return [[_proj("z0")], [x @ _proj("z1")]]
    return gen.matrices(case)


def obj_stacked(case, basis):
    t = case["type"]
    mats = obj_matrices(case)
    if t == "state":
        return np.real(rm.vec(basis, mats)), None
    if t == "povm":
        return np.concatenate([np.real(rm.vec(basis, e)) for e in mats]), len(mats)
    if t == "gate":
        return np.real(rm.hs_from_kraus(basis, mats)).reshape(-1), None
    return np.concatenate([np.real(rm.hs_from_kraus(basis, ks)).reshape(-1) for ks in mats]), len(mats)


def _named(t, names):
    return st.sampled_from(names).map(lambda nm: {"type": t, "shape": "1q", "kind": "named", "name": nm})


def state_st():
    return st.one_of(_named("state", ["z0", "z1", "x0", "y0"]), gen.state_case(("1q",)))


def povm_st():
    return st.one_of(_named("povm", ["z", "x", "y"]), gen.povm_case(("1q",), (2, 4)))


def gate_st():
    return st.one_of(_named("gate", ["id", "x", "h"]), gen.gate_case(("1q",)))


def mprocess_st():
    return st.one_of(_named("mprocess", ["z", "zflip"]), gen.mprocess_case(("1q",), (2, 3)))


@st.composite
def _sized(draw, elem, sizes):
    k = draw(st.sampled_from(sizes))
    return [draw(elem) for _ in range(k)]


@st.composite
def tomo_setup(draw, types=("qst", "povmt", "qpt", "qmpt")):
    t = draw(st.sampled_from(list(types)))
    su = {"type": t, "seed_data": draw(st.sampled_from([None, None, 0, 11]))}
    if t == "qst":
        su["povms"] = draw(_sized(povm_st(), [1, 2, 3, 3]))
        su["states"] = []
        su["true"] = draw(state_st())
    elif t == "povmt":
        su["states"] = draw(_sized(state_st(), [1, 2, 4, 4]))
        su["povms"] = []
        su["true"] = draw(povm_st())
    elif t == "qpt":
        su["states"] = draw(_sized(state_st(), [1, 2, 3]))
        su["povms"] = draw(_sized(povm_st(), [1, 2, 2]))
        su["true"] = draw(gate_st())
    else:
        su["states"] = draw(_sized(state_st(), [1, 2, 2]))
        su["povms"] = draw(_sized(povm_st(), [1, 2]))
        su["true"] = draw(mprocess_st())
    return su


class Setup:
    """quara objects of a tomography set-up + the refmodel Born probabilities of every schedule."""

    def __init__(self, su):
        from quara.protocol.qtomography.standard.standard_povmt import StandardPovmt
        from quara.protocol.qtomography.standard.standard_qmpt import StandardQmpt
        from quara.protocol.qtomography.standard.standard_qpt import StandardQpt
        from quara.protocol.qtomography.standard.standard_qst import StandardQst
        from quara.qcircuit.experiment import Experiment

        self.su = su
        t = su["type"]
        basis = gen.ref_basis("1q")
        c_sys = build.c_sys_for("1q")

        def mk(case):
            x, m = obj_stacked(case, basis)
            return build.make(c_sys, case["type"], x, m=m)

        self.states = [mk(c) for c in su["states"]]
        self.povms = [mk(c) for c in su["povms"]]
        self.true = mk(su["true"])
        true_m = obj_matrices(su["true"])
        s_m = [obj_matrices(c) for c in su["states"]]
        p_m = [obj_matrices(c) for c in su["povms"]]
        sd = su.get("seed_data")
        self.ref_ps = []
        if t == "qst":
            self.tomo = StandardQst(self.povms, on_para_eq_constraint=True, seed_data=sd)
            self.exp_kwargs = dict(states=[self.true], povms=self.povms)
            for es in p_m:
                self.ref_ps.append(np.array([np.real(np.trace(e @ true_m)) for e in es]))
        elif t == "povmt":
            self.tomo = StandardPovmt(self.states, len(true_m), on_para_eq_constraint=True, seed_data=sd)
            self.exp_kwargs = dict(states=self.states, povms=[self.true])
            for rho in s_m:
                self.ref_ps.append(np.array([np.real(np.trace(e @ rho)) for e in true_m]))
        elif t == "qpt":
            self.tomo = StandardQpt(self.states, self.povms, on_para_eq_constraint=True, seed_data=sd)
            self.exp_kwargs = dict(states=self.states, povms=self.povms, gates=[self.true])
            for rho in s_m:
                out = rm.apply_kraus(true_m, rho)
                for es in p_m:
                    self.ref_ps.append(np.array([np.real(np.trace(e @ out)) for e in es]))
        else:
            self.tomo = StandardQmpt(self.states, self.povms, len(true_m), on_para_eq_constraint=True, seed_data=sd)
            self.exp_kwargs = dict(states=self.states, povms=self.povms, mprocesses=[self.true])
            for rho in s_m:
                outs = [rm.apply_kraus(ks, rho) for ks in true_m]  # unnormalised post-measurement states
                for es in p_m:
                    # joint outcome (x of the measurement process, y of the POVM), x major
                    self.ref_ps.append(np.array([np.real(np.trace(e @ o)) for o in outs for e in es]))
        self.schedules = [list(map(tuple, s)) for s in self.tomo._experiment.schedules]
        self.experiment = Experiment(schedules=self.schedules, seed_data=sd, **self.exp_kwargs)
        self.n_sched = len(self.schedules)
        # probability vectors exactly as the library hands them to the sampler (deterministic; not under test here)
        self.ps = [np.array(p, dtype=np.float64) for p in self.experiment.calc_prob_dists()]

    def scipy_accepts(self):
        return all(abs(1.0 - float(p.sum())) <= 2e-15 and np.all(p >= 0) and np.all(p <= 1) for p in self.ps)


# ============================================================================= facet reproducibility (history programs)
PLAIN_ENTRIES = ("data", "dataset", "empi_seq", "empi_seqs", "mult")
EXP_ENTRIES = ("exp_data", "exp_dataset", "exp_empi_seq", "exp_empi_seqs")
TOMO_ENTRIES = ("tomo_dist", "tomo_dists", "tomo_seq")
_N_DATA = st.sampled_from([0, 1, 3, 20, 64, 200])
_N_MULT = st.sampled_from([1, 2, 10, 100, 1000, 10 ** 6])


def _tight(p):
    """renormalise so that |1 - np.sum(p)| <= 1e-15 (this scipy rejects > 2.2e-15)."""
    p = [float(x) for x in p]
    for _ in range(4):
        resid = 1.0 - float(np.sum(np.array(p)))
        if abs(resid) <= 4e-16:
            break
        i = max(range(len(p)), key=lambda k: p[k])
        p[i] += resid
    return p


def _num_sums_form(ns):
    """the requested sizes as list / tuple / integer array / one-shot iterator (all iterated once by the unchanged library)."""
    from harness import reps

    ns = [int(v) for v in ns]
    h = reps.pick(("num_sums", ns), 5) if reps._on() else 0
    if h == 1:
        return tuple(ns)
    if h == 2:
        return np.array(ns, dtype=np.int64)
    if h == 3:
        return iter(ns)
    if h == 4:
        return (v for v in ns)
    return ns


def _num_sums_st(min_size=0):
    # the multi-schedule wrappers transpose the list of sample sizes; an empty list is outside what they accept
    return st.lists(_N_MULT, min_size=min_size, max_size=3)


@st.composite
def call_template(draw, n_ps):
    e = draw(st.sampled_from(TOMO_ENTRIES + EXP_ENTRIES + PLAIN_ENTRIES + TOMO_ENTRIES))
    a = {}
    pi = st.integers(0, n_ps - 1)
    if e == "data":
        a = {"p": draw(pi), "n": draw(_N_DATA)}
    elif e == "dataset":
        k = draw(st.integers(0, 3))
        a = {"ps": draw(st.lists(pi, min_size=k, max_size=k)), "ns": draw(st.lists(_N_DATA, min_size=k, max_size=k))}
    elif e == "empi_seq":
        a = {"p": draw(pi), "num_sums": draw(_num_sums_st())}
    elif e == "empi_seqs":
        k = draw(st.integers(0, 3))
        a = {"ps": draw(st.lists(pi, min_size=k, max_size=k)),
             "list_num_sums": draw(st.lists(_num_sums_st(), min_size=k, max_size=k))}
    elif e == "mult":
        a = {"p": draw(pi), "num": draw(_N_MULT), "size": draw(st.integers(1, 4))}
    elif e in ("exp_data",):
        a = {"idx": draw(st.integers(0, 11)), "n": draw(_N_DATA)}
    elif e == "exp_dataset":
        a = {"ns": draw(st.lists(_N_DATA, min_size=1, max_size=4))}  # cycled over the schedules
    elif e in ("exp_empi_seq",):
        a = {"idx": draw(st.integers(0, 11)), "num_sums": draw(_num_sums_st())}
    elif e == "exp_empi_seqs":
        a = {"num_sums": draw(_num_sums_st(1)), "vary": draw(st.booleans())}
    elif e == "tomo_dist":
        a = {"idx": draw(st.integers(0, 11)), "n": draw(_N_MULT)}
    elif e == "tomo_dists":
        a = {"n": draw(_N_MULT)}
    elif e == "tomo_seq":
        a = {"num_sums": draw(_num_sums_st(1))}
    return {"entry": e, "args": a}


@st.composite
def reproducibility_case(draw, tier):
    n_ps = draw(st.integers(1, 3))
    ps = [_tight(draw(prob_vector((2, 8), for_multinomial=True))["p"]) for _ in range(n_ps)]
    su = draw(tomo_setup())
    gens = [{"bitgen": draw(st.sampled_from(["mt", "pcg"])), "seed": draw(st.integers(0, SEED_MAX))} for _ in range(2)]
    seeds = draw(st.lists(st.integers(0, SEED_MAX), min_size=2, max_size=2))
    seeds[0] = draw(st.sampled_from([0, 1, seeds[0]]))
    tmpls = draw(_sized(call_template(n_ps), [1, 2, 2, 3]))
    n_steps = draw(st.sampled_from([4, 8, 12, 16]))
    steps = [{"op": "global_seed", "n": draw(st.integers(0, SEED_MAX))}]
    mult_ps = sorted({t["args"]["p"] for t in tmpls if t["entry"] == "mult"})
    for _ in range(n_steps):
        op = draw(st.sampled_from(["call"] * 7 + ["global_draw", "global_draw", "gen_draw", "global_seed",
                                                  "exp_reset_seed", "tomo_reset_seed"] + (["mult_warm"] * 2 if mult_ps else [])))
        if op == "mult_warm":
            # the MultinomialDistribution object a later "mult" call re-uses is sampled with other arguments first
            steps.append({"op": op, "p": draw(st.sampled_from(mult_ps)), "num": draw(_N_MULT), "size": draw(st.integers(1, 3)),
                          "seed": draw(st.integers(0, SEED_MAX))})
        elif op == "call":
            kind = draw(st.sampled_from(["int", "int", "int", "shared", "shared", "none"]))
            stp = {"op": "call", "tmpl": draw(st.integers(0, len(tmpls) - 1)), "stream": kind}
            if kind == "int":
                stp["seed"] = draw(st.sampled_from(seeds))
            elif kind == "shared":
                stp["g"] = draw(st.integers(0, 1))
            steps.append(stp)
        elif op == "global_draw":
            steps.append({"op": op, "k": draw(st.integers(1, 700)),
                          "how": draw(st.sampled_from(["random", "normal", "randint"]))})
        elif op == "gen_draw":
            steps.append({"op": op, "g": draw(st.integers(0, 1)), "k": draw(st.integers(1, 50))})
        elif op == "global_seed":
            steps.append({"op": op, "n": draw(st.integers(0, SEED_MAX))})
        elif op == "exp_reset_seed":
            steps.append({"op": op, "n": draw(st.sampled_from([0, 1, 2 ** 31, SEED_MAX]))})
        else:
            steps.append({"op": op, "n": draw(st.sampled_from([None, 0, 0, 5, 2 ** 31]))})
    return {"ps": ps, "setup": su, "gens": gens, "templates": tmpls, "steps": steps}


def _concrete_args(tmpl, case, setup):
    """resolve a template against the pool / set-up: (blocks, callables); blocks = [(p, n, kind)] in consumption order."""
    e, a = tmpl["entry"], tmpl["args"]
    S = setup.n_sched
    if e in PLAIN_ENTRIES:
        ps = [np.array(p, dtype=np.float64) for p in case["ps"]]
    if e == "data":
        return {"p": ps[a["p"]], "n": a["n"]}
    if e == "dataset":
        return {"ps": [ps[i] for i in a["ps"]], "ns": list(a["ns"])}
    if e == "empi_seq":
        return {"p": ps[a["p"]], "num_sums": list(a["num_sums"])}
    if e == "empi_seqs":
        return {"ps": [ps[i] for i in a["ps"]], "list_num_sums": [list(x) for x in a["list_num_sums"]]}
    if e == "mult":
        return {"p": ps[a["p"]], "num": a["num"], "size": a["size"]}
    if e == "exp_data":
        return {"idx": a["idx"] % S, "n": a["n"]}
    if e == "exp_dataset":
        return {"ns": [a["ns"][j % len(a["ns"])] for j in range(S)]}
    if e == "exp_empi_seq":
        return {"idx": a["idx"] % S, "num_sums": list(a["num_sums"])}
    if e == "exp_empi_seqs":
        return {"list_num_sums": [[n + (j % 3 if a["vary"] else 0) for j in range(S)] for n in a["num_sums"]]}
    if e == "tomo_dist":
        return {"idx": a["idx"] % S, "n": a["n"]}
    if e == "tomo_dists":
        return {"n": a["n"]}
    if e == "tomo_seq":
        return {"num_sums": list(a["num_sums"])}
    raise ValueError(e)


def _dataset_seeds(seed, k):
    """one int seed per entry: pairwise different, all the same, or first == last (tied seeds are ordinary use - one seed
    for a whole dataset - and every entry must still be the fresh stream of ITS seed)."""
    out = [int((seed + 7919 * i) % (SEED_MAX + 1)) for i in range(k)]
    form = seed % 3
    if form == 1 and k > 0:
        out = [out[0]] * k
    elif form == 2 and k > 1:
        out[-1] = out[0]
    return out


def _caller_array(setup, p):
    """the probability vector as the caller holds it: a fresh copy per call, or (every other program) ONE preallocated
    buffer per length that the caller overwrites before each call, as in a parameter sweep."""
    if setup is None or not getattr(setup, "_reuse_buffers", False):
        return p.copy()
    bufs = setup.__dict__.setdefault("_bufs", {})
    buf = bufs.setdefault(len(p), np.empty(len(p), dtype=np.float64))
    if len(p) > 1:
        # the previous point of the sweep: the buffer held another distribution (p with its entries rotated) and one
        # datum was drawn from it with a generator of its own; then the caller overwrites the buffer
        from quara.qcircuit import data_generator as dg

        buf[:] = np.roll(p, 1)
        dg.generate_data_from_prob_dist(buf, 1, np.random.Generator(np.random.PCG64(1)))
    buf[:] = p
    return buf


def _run_entry(e, c, setup, stream_arg, dataset_streams=None):
    """call quara."""
    from quara.objects.multinomial_distribution import MultinomialDistribution
    from quara.qcircuit import data_generator as dg

    ex, tomo, true = setup.experiment, setup.tomo, setup.true
    if e == "data":
        return dg.generate_data_from_prob_dist(_caller_array(setup, c["p"]), c["n"], stream_arg)
    if e == "dataset":
        return dg.generate_dataset_from_prob_dists([p.copy() for p in c["ps"]], list(c["ns"]), dataset_streams)
    if e == "empi_seq":
        return dg.generate_empi_dist_sequence_from_prob_dist(c["p"].copy(), _num_sums_form(c["num_sums"]), stream_arg)
    if e == "empi_seqs":
        return dg.generate_empi_dists_sequence_from_prob_dists([p.copy() for p in c["ps"]],
                                                               [list(x) for x in c["list_num_sums"]], stream_arg)
    if e == "mult":
        # one MultinomialDistribution object per probability vector and program: later calls re-use it (possibly with
        # another num / size / stream), so anything the object remembers from an earlier call shows up
        pool = getattr(setup, "_mult_pool", None)
        if pool is None:
            pool = {}
            try:
                setup._mult_pool = pool
            except Exception:
                pass
        key = c["p"].tobytes()
        if key not in pool:
            pool[key] = MultinomialDistribution(c["p"].copy())
        return pool[key].execute_random_sampling(c["num"], c["size"], stream_arg)
    if e == "exp_data":
        return ex.generate_data(c["idx"], c["n"], stream_arg)
    if e == "exp_dataset":
        return ex.generate_dataset(list(c["ns"]), stream_arg)
    if e == "exp_empi_seq":
        return ex.generate_empi_dist_sequence(c["idx"], _num_sums_form(c["num_sums"]), stream_arg)
    if e == "exp_empi_seqs":
        return ex.generate_empi_dists_sequence([list(x) for x in c["list_num_sums"]], stream_arg)
    if e == "tomo_dist":
        return tomo.generate_empi_dist(c["idx"], true, c["n"], stream_arg)
    if e == "tomo_dists":
        return tomo.generate_empi_dists(true, c["n"], stream_arg)
    if e == "tomo_seq":
        return tomo.generate_empi_dists_sequence(true, list(c["num_sums"]), stream_arg)
    raise ValueError(e)


def _mult_ps(p):
    """probabilities MultinomialDistribution samples from: entries < 1e-8 set to zero, then renormalised (documented eps_zero)."""
    q = np.array(p, dtype=np.float64)
    small = q < 1e-8
    if small.any():
        q[small] = 0.0
        q = q / np.sum(q)
    return q


def _reference(e, c, setup, streams):
    """numpy reference of the call on model stream(s); also the blocks [(p, n, 'data'|'mult')] for validity / collision bounds.

    streams: one M.Stream, or for 'dataset' a list of M.Stream (one per block, possibly the same object)."""
    P = setup.ps
    if e == "data":
        return M.ref_data(c["p"], c["n"], streams), [(c["p"], c["n"], "data")]
    if e == "dataset":
        return ([M.ref_data(p, n, s) for p, n, s in zip(c["ps"], c["ns"], streams)],
                [(p, n, "data") for p, n in zip(c["ps"], c["ns"])])
    if e == "empi_seq":
        return M.ref_empi_seq(c["p"], c["num_sums"], streams), [(c["p"], n, "mult") for n in c["num_sums"]]
    if e == "empi_seqs":
        return (M.ref_empi_seqs(c["ps"], c["list_num_sums"], streams),
                [(p, n, "mult") for p, ns in zip(c["ps"], c["list_num_sums"]) for n in ns])
    if e == "mult":
        q = _mult_ps(c["p"])
        return list(streams.multinomial(c["num"], q, c["size"])), [(q, c["num"], "mult")] * c["size"]
    if e == "exp_data":
        return M.ref_data(P[c["idx"]], c["n"], streams), [(P[c["idx"]], c["n"], "data")]
    if e == "exp_dataset":
        return [M.ref_data(p, n, streams) for p, n in zip(P, c["ns"])], [(p, n, "data") for p, n in zip(P, c["ns"])]
    if e == "exp_empi_seq":
        return M.ref_empi_seq(P[c["idx"]], c["num_sums"], streams), [(P[c["idx"]], n, "mult") for n in c["num_sums"]]
    if e == "exp_empi_seqs":
        per_sched = [[row[j] for row in c["list_num_sums"]] for j in range(setup.n_sched)]
        return M.ref_empi_seqs(P, per_sched, streams), [(p, n, "mult") for p, ns in zip(P, per_sched) for n in ns]
    if e == "tomo_dist":
        return M.ref_empi(P[c["idx"]], c["n"], streams), [(P[c["idx"]], c["n"], "mult")]
    if e == "tomo_dists":
        return [M.ref_empi(p, c["n"], streams) for p in P], [(p, c["n"], "mult") for p in P]
    if e == "tomo_seq":
        per_sched = M.ref_empi_seqs(P, [list(c["num_sums"])] * setup.n_sched, streams)
        out = [[per_sched[j][k] for j in range(setup.n_sched)] for k in range(len(c["num_sums"]))]
        return out, [(p, n, "mult") for p in P for n in c["num_sums"]]
    raise ValueError(e)


def _flatten_entries(e, res):
    """result -> flat list of data lists / (n, f) tuples / count arrays, in the block order of _reference."""
    try:
        if e in ("data", "exp_data", "tomo_dist"):
            return [res]
        if e in ("dataset", "exp_dataset", "empi_seq", "exp_empi_seq", "tomo_dists", "mult"):
            return list(res)
        if e in ("empi_seqs", "exp_empi_seqs"):
            return [x for row in res for x in row]
        if e == "tomo_seq":  # result[k][j] -> schedule-major
            if len(res) == 0:
                return []
            return [res[k][j] for j in range(len(res[0])) for k in range(len(res))]
    except Exception:
        return None
    return None


def _validity(ctx, e, res, blocks):
    flat = _flatten_entries(e, res)
    if not ctx.check(flat is not None and len(flat) == len(blocks), f"result_shape:{e}",
                     lambda: f"{M.short(res)} for {len(blocks)} blocks"):
        return
    for item, (p, n, kind) in zip(flat, blocks):
        p = np.asarray(p)
        if kind == "data":
            _check_data_list(ctx, item, [float(x) for x in p], n, e)
        elif e == "mult":
            okk = (isinstance(item, np.ndarray) and item.shape == p.shape and np.issubdtype(item.dtype, np.integer)
                   and int(item.sum()) == n and bool(np.all(item >= 0)) and bool(np.all(item[p == 0] == 0)))
            ctx.check(okk, "counts_valid:mult", lambda: f"{M.short(item)} n={n} p={p.tolist()}")
        else:
            probs = M.empi_problems(item, n, len(p), zero_mask=(p == 0))
            ctx.check(not probs, f"empi_valid:{e}", lambda: f"{probs} entry={M.short(item)} p={p.tolist()}")


def _collision_bound(blocks):
    b = 1.0
    for p, n, kind in blocks:
        b *= M.collision_bound_data(list(map(float, p)), n) if kind == "data" else M.collision_bound_multinomial(list(map(float, p)), n)
    return b


def has_tomo_reset_seed_zero(case):
    """known finding C14-F2: QTomography.reset_seed(0) treats the seed 0 as 'no seed given'."""
    return any(s.get("op") == "tomo_reset_seed" and s.get("n") == 0 for s in case.get("steps", []))


def check_reproducibility(case, ctx):
    setup = Setup(case["setup"])
    setup._reuse_buffers = reps.pick(repr(case["ps"]), 2) == 0
    if setup._reuse_buffers:
        ctx.label("caller-buffers:reused")
    ctx.label("tomo:" + case["setup"]["type"], f"schedules:{setup.n_sched}")
    if any(np.any(p == 0) for p in setup.ps):
        ctx.label("tomo_p:has_zero")
    if not setup.scipy_accepts():
        ctx.skip("quara_p_normalisation_rejected_by_scipy")
        return
    gens = [M.make_generator(d) for d in case["gens"]]
    twins = [M.make_generator(d) for d in case["gens"]]
    mirror = np.random.RandomState(0)
    mirror.set_state(np.random.get_state())
    tomo_seed = case["setup"].get("seed_data")
    table = {}
    last_on_gen = {}
    n_calls = {"int": 0, "shared": 0, "none": 0}
    repeats_with_gap = shared_second_use = 0
    since = {}

    def sync_states(tag):
        ok = ctx.check(M.states_equal(np.random.get_state(), mirror.get_state()), f"global_state:{tag}",
                       "global np.random state differs from the model after this step")
        if not ok:  # a known finding moved it: resynchronise the model so that the search continues behind it
            mirror.set_state(np.random.get_state())
        for i, (g, t) in enumerate(zip(gens, twins)):
            ok = ctx.check(M.gen_states_equal(g, t), f"generator_state:{tag}",
                           f"shared generator {i} differs from its twin after this step")
            if not ok:
                t.bit_generator.state = g.bit_generator.state

    for si, stp in enumerate(case["steps"]):
        op = stp["op"]
        for k in since:
            since[k] += 1
        if op == "global_seed":
            np.random.seed(stp["n"])
            mirror.seed(stp["n"])
        elif op == "global_draw":
            if stp["how"] == "random":
                a, b = np.random.random(stp["k"]), mirror.random_sample(stp["k"])
            elif stp["how"] == "normal":
                a, b = np.random.normal(size=stp["k"]), mirror.normal(size=stp["k"])
            else:
                a, b = np.random.randint(0, 1000, size=stp["k"]), mirror.randint(0, 1000, size=stp["k"])
            if not np.array_equal(a, b):
                raise AssertionError("mirror RandomState out of step with np.random (harness)")
        elif op == "gen_draw":
            gens[stp["g"]].random(stp["k"])
            twins[stp["g"]].random(stp["k"])
        elif op == "exp_reset_seed":
            setup.experiment.reset_seed_data(stp["n"])
            mirror.seed(stp["n"])
            ctx.check(setup.experiment.seed_data == stp["n"], "exp_seed_data_recorded")
        elif op == "tomo_reset_seed":
            setup.tomo.reset_seed(stp["n"]) if stp["n"] is not None else setup.tomo.reset_seed()
            if stp["n"] is not None:
                tomo_seed = stp["n"]
            if tomo_seed is not None:
                mirror.seed(tomo_seed)
        elif op == "mult_warm":
            ctx.label("history:mult_object_sampled_before")
            c = {"p": np.array(case["ps"][stp["p"]], dtype=np.float64), "num": stp["num"], "size": stp["size"]}
            res = _run_entry("mult", c, setup, int(stp["seed"]))
            ref, blocks = _reference("mult", c, setup, M.Stream(np.random.Generator(np.random.MT19937(int(stp["seed"])))))
            ctx.check(M.results_equal(res, ref), "int_seed_equals_fresh_generator:mult",
                      lambda: f"step {si}: {M.short(res)} reference {M.short(ref)}")
            _validity(ctx, "mult", res, blocks)
        elif op == "call":
            tmpl = case["templates"][stp["tmpl"]]
            e = tmpl["entry"]
            c = _concrete_args(tmpl, case, setup)
            kind = stp["stream"]
            n_calls[kind] += 1
            ctx.label("entry:" + e, "stream:" + kind)
            if kind == "int":
                seed = int(stp["seed"])
                if e == "dataset":
                    sds = _dataset_seeds(seed, len(c["ps"]))
                    res = _run_entry(e, c, setup, None, dataset_streams=list(sds))
                    ref, blocks = _reference(e, c, setup, [M.Stream(np.random.Generator(np.random.MT19937(s))) for s in sds])
                else:
                    res = _run_entry(e, c, setup, seed)
                    ref, blocks = _reference(e, c, setup, M.Stream(np.random.Generator(np.random.MT19937(seed))))
                key = (stp["tmpl"], seed)
                if key in table:
                    ctx.check(M.results_equal(res, table[key]), f"int_seed_history_independent:{e}",
                              lambda: f"step {si}: {M.short(res)} but the same call earlier gave {M.short(table[key])}")
                    if since.get(key, 0) > 1:
                        repeats_with_gap += 1
                else:
                    table[key] = res
                since[key] = 0
                ctx.check(M.results_equal(res, ref), f"int_seed_equals_fresh_generator:{e}",
                          lambda: f"step {si}: {M.short(res)} reference {M.short(ref)}")
            elif kind == "shared":
                gi = stp["g"]
                s = M.Stream(twins[gi])
                if e == "dataset":
                    res = _run_entry(e, c, setup, None, dataset_streams=[gens[gi]] * len(c["ps"]))
                    ref, blocks = _reference(e, c, setup, [s] * len(c["ps"]))
                else:
                    res = _run_entry(e, c, setup, gens[gi])
                    ref, blocks = _reference(e, c, setup, s)
                ctx.check(M.results_equal(res, ref), f"shared_generator_equals_twin_sequence:{e}",
                          lambda: f"step {si}: {M.short(res)} reference {M.short(ref)}")
                key = (gi, stp["tmpl"])
                if key in last_on_gen:
                    shared_second_use += 1
                    if _collision_bound(blocks) < 1e-16:  # <= 1e4 such comparisons per run keep the run below 1e-12
                        ctx.label("shared:differ_checked")
                        ctx.check(not M.results_equal(res, last_on_gen[key]), f"shared_generator_successive_draws_differ:{e}",
                                  lambda: f"step {si}: identical to the previous draw from the same generator: {M.short(res)}")
                last_on_gen[key] = res
            else:
                s = M.Stream(mirror)
                if e == "dataset":
                    res = _run_entry(e, c, setup, None, dataset_streams=None)
                    ref, blocks = _reference(e, c, setup, [s] * len(c["ps"]))
                else:
                    res = _run_entry(e, c, setup, None)
                    ref, blocks = _reference(e, c, setup, s)
                ctx.check(M.results_equal(res, ref), f"none_determined_by_global_seed:{e}",
                          lambda: f"step {si}: {M.short(res)} reference {M.short(ref)}")
            _validity(ctx, e, res, blocks)
        else:
            raise AssertionError(op)
        sync_states(op if op != "call" else f"call:{stp['stream']}")

    for k, v in n_calls.items():
        if v:
            ctx.label(f"calls_{k}:{'1' if v == 1 else '2+'}")
    if repeats_with_gap:
        ctx.label("history:int_repeat_with_gap")
    if shared_second_use:
        ctx.label("history:shared_reuse")
    ctx.nontrivial(repeats_with_gap > 0 or shared_second_use > 0 or n_calls["none"] > 0)


# ============================================================================= facet distribution
N_DIST = 200000
T_DIST = 0.012  # Hoeffding: P(|f-p| > t) <= 2 exp(-2 n t^2) = 2 exp(-57.6) ~ 1.9e-25 per comparison


@st.composite
def distribution_case(draw, tier):
    entry = draw(st.sampled_from(["data", "data", "empi_seq", "mult", "exp_dataset", "tomo_dists", "tomo_dists",
                                  "tomo_seq", "tomo_dist"]))
    case = {"entry": entry, "stream": draw(stream_desc())}
    if entry in ("data", "empi_seq", "mult"):
        pv = draw(prob_vector((2, 16), for_multinomial=True))
        case["p"] = _tight(pv["p"])
        case["cls"] = pv["cls"]
    else:
        case["setup"] = draw(tomo_setup())
        case["idx"] = draw(st.integers(0, 11))
    return case


def check_distribution(case, ctx):
    from quara.objects.multinomial_distribution import MultinomialDistribution
    from quara.qcircuit import data_generator as dg

    e = case["entry"]
    sd = case["stream"]
    ctx.label("entry:" + e, "stream:" + sd["kind"])
    n = N_DIST
    setup = None
    if "setup" in case:
        setup = Setup(case["setup"])
        ctx.label("tomo:" + case["setup"]["type"])
        if not setup.scipy_accepts():
            ctx.skip("quara_p_normalisation_rejected_by_scipy")
            return
    if sd["kind"] == "int":
        arg = int(sd["seed"])
    elif sd["kind"] == "gen":
        arg = M.make_generator(sd)
    else:
        np.random.seed(sd["global_seed"])
        arg = None

    # (frequency vector, reference probability vector) pairs
    pairs = []
    if e == "data":
        p = np.array(case["p"])
        data = dg.generate_data_from_prob_dist(p.copy(), n, arg)
        if _check_data_list(ctx, data, case["p"], n, "dist"):
            pairs.append((np.bincount(np.asarray(data, dtype=np.int64), minlength=len(p)) / n, p))
    elif e == "empi_seq":
        p = np.array(case["p"])
        res = dg.generate_empi_dist_sequence_from_prob_dist(p.copy(), [n, n], arg)
        if ctx.check(isinstance(res, list) and len(res) == 2, "result_shape:empi_seq"):
            for item in res:
                if ctx.check(not M.empi_problems(item, n, len(p)), "empi_valid:empi_seq", lambda: M.short(item)):
                    pairs.append((item[1], p))
    elif e == "mult":
        p = np.array(case["p"])
        res = MultinomialDistribution(p.copy()).execute_random_sampling(n, 2, arg)
        if ctx.check(isinstance(res, list) and len(res) == 2 and all(np.shape(x) == p.shape for x in res), "result_shape:mult"):
            pairs += [(np.asarray(x) / n, p) for x in res]
    elif e == "exp_dataset":
        res = setup.experiment.generate_dataset([n] * setup.n_sched, arg)
        if ctx.check(isinstance(res, list) and len(res) == setup.n_sched, "result_shape:exp_dataset"):
            for data, q in zip(res, setup.ref_ps):
                # zero handling as documented for MultinomialDistribution (entries < 1e-8 are treated as zero)
                if _check_data_list(ctx, data, [float(x) if x >= 1e-7 else (0.0 if x < 1e-9 else 1e-8) for x in q], n, "dist"):
                    pairs.append((np.bincount(np.asarray(data, dtype=np.int64), minlength=len(q)) / n, q))
    else:
        if e == "tomo_dists":
            res = setup.tomo.generate_empi_dists(setup.true, n, arg)
            items = list(res) if isinstance(res, list) else None
            refs = setup.ref_ps
        elif e == "tomo_dist":
            j = case["idx"] % setup.n_sched
            res = setup.tomo.generate_empi_dist(j, setup.true, n, arg)
            items, refs = [res], [setup.ref_ps[j]]
        else:
            res = setup.tomo.generate_empi_dists_sequence(setup.true, [n // 2, n], arg)
            ok = isinstance(res, list) and len(res) == 2 and all(isinstance(r, list) for r in res)
            items = (res[1] if ok else None)  # the n-sample row; row 0 is checked for validity only
            refs = setup.ref_ps
            if ok:
                for item, q in zip(res[0], refs):
                    ctx.check(not M.empi_problems(item, n // 2, len(q)), "empi_valid:tomo_seq_row0", lambda: M.short(item))
        if ctx.check(items is not None and len(items) == len(refs), f"result_shape:{e}", lambda: M.short(res)):
            for item, q in zip(items, refs):
                if ctx.check(not M.empi_problems(item, n, len(q)), f"empi_valid:{e}", lambda: M.short(item)):
                    pairs.append((item[1], q))

    spread = 0.0
    has_zero = False
    for f, q in pairs:
        q = np.asarray(q, dtype=float)
        dev = float(np.max(np.abs(f - q)))
        ctx.leq(dev, 0.0, T_DIST, f"hoeffding:{e}", f"f={np.round(f, 4).tolist()} p={np.round(q, 4).tolist()}")
        z = q < 1e-10
        if z.any():
            has_zero = True
            ctx.check(bool(np.all(f[z] == 0)), f"zero_probability_zero_frequency:{e}",
                      lambda: f"f={f.tolist()} p={q.tolist()}")
        spread = max(spread, float(np.max(q) - np.min(q)))
    if len(pairs) >= 2:  # schedules distinguishable from each other?
        for i in range(len(pairs)):
            for j in range(i + 1, len(pairs)):
                a, b = np.asarray(pairs[i][1]), np.asarray(pairs[j][1])
                if a.shape == b.shape:
                    spread = max(spread, float(np.max(np.abs(a - b))))
    if has_zero:
        ctx.label("p:has_zero")
    ctx.nontrivial(bool(pairs) and (has_zero or spread > 0.05))


# ============================================================================= facets
FACETS = {
    "data_validity": {
        "strategy": data_validity_case,
        "check": check_data_validity,
        "budget": {"quick": {"examples": 2400, "shards": 4}, "thorough": {"examples": 48000, "shards": 16}},
        "nontrivial": "p has an exact zero or an entry < 1e-10, or a scripted value lies within 2 grid steps of a partial sum, or a documented rejection",
        "min_nontrivial": 100,
    },
    "empi_prefix": {
        "strategy": empi_prefix_case,
        "check": check_empi_prefix,
        "budget": {"quick": {"examples": 1200, "shards": 2}, "thorough": {"examples": 24000, "shards": 8}},
        "nontrivial": ">= 2 prefixes (single / list variants) or a documented rejection class",
        "min_nontrivial": 100,
    },
    "reproducibility": {
        "strategy": reproducibility_case,
        "check": check_reproducibility,
        "budget": {"quick": {"examples": 800, "shards": 8}, "thorough": {"examples": 16000, "shards": 16}},
        "nontrivial": "program repeats an int-seed call with another step in between, or reuses a shared generator for the same call, or calls with None",
        "min_nontrivial": 50,
    },
    "distribution": {
        "strategy": distribution_case,
        "check": check_distribution,
        "budget": {"quick": {"examples": 48, "shards": 8}, "thorough": {"examples": 640, "shards": 16}},
        "nontrivial": "reference p has a zero, or two reference probabilities (within or across schedules) differ by > 0.05",
        "min_nontrivial": 10,
    },
}
