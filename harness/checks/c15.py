"""C15 - Monte-Carlo simulations are reproducible with independent repetitions."""
import json
import math
import os
import pickle
import subprocess
import sys

import numpy as np
from hypothesis import strategies as st

from harness import build, gen, tomo
from harness import refmodel as rm
from harness.checks import c15_flow as F
from harness.checks.c01 import build_stacked as c01_build_stacked
from harness.checks.c01 import defects as c01_defects

RULE = (
    "flow_reproducible: generated EstimatorTestSettings on one qubit (unknown = state / povm / gate / mprocess from the "
    "catalogues, informationally complete catalogue testers, noise none / depolarized (true rate in [0,1], tester rate in "
    "[0,0.5]) / random_effective_lindbladian (strengths 0 or 1e-3..1, lindbladian_base identity or a catalogue gate), "
    "n_sample 1..2, n_rep 2..4, 1..3 sample sizes, the three estimator cases linear / projected linear / loss minimisation "
    "(fast squared error + backtracking PGD capped at 5..30 iterations) in a drawn order with drawn parametrisation flags, "
    "int seed_data / seed_qoperation, simulation checks all / physicality only / none) are run through "
    "execute_simulation_test_settings once inside the harness process and then, in a fresh non-daemonic interpreter with a drawn "
    "PYTHONHASHSEED, serially twice and with each of per_sample_unit / per_data_generation / per_estimator_unit / "
    "per_estimator_execution at 2 and at 4 loky workers; the plain-data digests (true object, tester objects, every "
    "empirical distribution, every estimated_var_sequence, check verdicts) of all eleven runs must be equal bit for bit.  "
    "Every flow case is non-trivial when joblib really used 2 and 4 workers in the child (recorded, else harness error); the "
    "all-minimal example Hypothesis starts each shard with (all three seeds 0) only runs in-process and is counted "
    "inconclusive; failing cases are reduced by a bounded own minimiser instead of the Hypothesis shrinker.  "
    "single_setting_entry: execute_simulation(qtomography, setting) on generated tomographies of all four types (random IC "
    "tester sets and random true objects from harness/tomo.py) with the seed given as the setting's int seed_data, an int "
    "argument or a Generator: run twice => identical; repetitions pairwise different whenever the collision probability "
    "computed from refmodel Born probabilities is < 1e-13 (non-trivial = that bound holds and n_rep >= 2).  "
    "independent_repetitions: serial flows with 6..12 (thorough: 6..40) repetitions: pairwise different data (same bound), pooled dispersion "
    "sum((X-Np)^2/(Np(1-p))) / K within [0.25,3] when a Chernoff bound computed from the exact binomial pmfs certifies a "
    "false-alarm probability < 1e-13; samples of a random-noise setting have different true objects.  "
    "re_estimate: serial flow kept on disk, then re_estimate / re_estimate_sequence / re_estimate_sequence_from_index / "
    "execute_estimation / re_estimate_test_settings / load_simulation_results must reproduce the stored estimates "
    "(bitwise for linear and projected linear, 1e-9 for loss minimisation) and the stored data.  "
    "noise_models: DepolarizedQOperationGenerationSetting on catalogue objects (1 and 2 qubits) and generated physical "
    "objects (1q, qutrit, 2q; all four types; p in {0, 1, tiny, 1-tiny, uniform}) against the numpy model "
    "(1-p)*ideal + p*Tr(.)I/d applied to the ideal object, physical by refmodel; p outside [0,1] raises ValueError; "
    "RandomEffectiveLindbladianGenerationSetting: physical (quara verdict and refmodel defects <= 1e-9), bitwise reproducible "
    "per int seed and per equal-seeded generator, different across two draws of one generator, zero strengths give the ideal "
    "object.  Non-trivial = p strictly inside (0,1) or a boundary value on a non-trivial object / positive strength.  "
    "physicality_check_verdict: SimulationResults assembled from generated estimate vectors (physical, or physical + an "
    "equality / inequality defect of 1e-9..1e-2 in one named estimate of the (repetition, sample-size) grid) for each "
    "estimator type (linear, projected linear, loss minimisation with algo_option None or the four flag combinations, an "
    "unknown estimator) and parametrisation flag; expected verdict from refmodel defect magnitudes with margins (<= thr/10 "
    "everywhere enforced => True, >= 10*thr somewhere enforced => False) around the documented thresholds eq: Settings atol "
    "1e-13 (flag True) / 1e-5 (flag False), ineq: 1e-5 or the value given to set_ineq_const_eps.  Non-trivial = some estimate "
    "carries a defect >= 10*thr (so that the verdict depends on what the estimator enforces)."
)
ASSUMPTIONS = [
    "exact reproducibility is asserted between processes of the same machine, interpreter, numpy/BLAS build and thread "
    "settings (OMP/OPENBLAS/MKL threads = 1 as exported by run_check.sh and inherited by the child and the loky workers)",
    "the OS / loky schedule is sampled, not controlled: each configuration runs at 1, 2 and 4 workers on every level",
    "collision bound: two independent multinomial(n,p) samples agree with probability <= min_j max_k Binom(n,p_j).pmf(k); "
    "data for successive sample sizes are either independent or nested prefixes, both give the product over increments",
    "Born probabilities for the bound / dispersion statistic come from the stacked vectors of the true and tester objects "
    "through refmodel-style inner products (orthonormal Hermitian basis), schedule order 'all' = states x povms",
    "thresholds of the built-in physicality check read from physicality_violation_check.py: eq atol(1e-13) / 1e-5, ineq 1e-5",
    "defect magnitudes of an estimate follow harness/checks/c01.py:defects (the C01 verdict semantics)",
    "noise of testers is kept at rate <= 0.5 in flows so that the tester set stays informationally complete",
]
TECHNIQUE = (
    "property-based testing (Hypothesis): generated simulation configurations run differentially (serial / repeated / fresh "
    "interpreter / 4 parallel levels x 2 worker counts, exact digest equality); certified-collision-bound distinctness of "
    "repetitions; round trip through stored results; numpy depolarising model; verdict margins on assembled results"
)
LEVEL_TEXT = (
    "Generated-configuration search with differential execution: every generated flow configuration is executed eleven times "
    "(in-process, fresh interpreter twice, eight worker layouts) and all stored objects, data and estimates are compared bit "
    "for bit; the single-setting entry point, the re-estimation entry points, both noise models and the built-in physicality "
    "verdict are checked on hundreds to thousands of generated inputs against independent numpy models.  Schedules of the "
    "worker processes are sampled, not enumerated, so a race needing a particular interleaving is out of reach; absence is "
    "not established."
)
LEVEL_NOTE = (
    "Trusted: numpy bit generators, joblib/loky process management, harness/refmodel.py, scipy.stats.binom for the collision "
    "and Chernoff bounds, the C01 defect semantics.  The child interpreter is started with subprocess (ordinary non-daemonic "
    "python) because loky refuses to parallelise inside the runner's daemonic pool workers."
)

EQ_THR_PARA_TRUE = 1e-13  # Settings.get_atol() at import of physicality_violation_check
EQ_THR_PARA_FALSE = 1e-5
INEQ_THR = 1e-5

P_FALSE_ALARM_LOG = math.log(1e-13)

STATE_NAMES_1Q = ["x0", "x1", "y0", "y1", "z0", "z1", "a"]
POVM_NAMES_1Q = ["x", "y", "z"]
GATE_NAMES_1Q = ["identity", "x90", "x180", "x", "y90", "y180", "y", "z90", "z180", "z", "phase", "phase_daggered",
                 "piover8", "piover8_daggered", "hadamard", "zm90"]
MPROCESS_NAMES_1Q = ["x-type1", "y-type1", "z-type1", "x-type2", "y-type2", "z-type2"]
NAMES_1Q = {"state": STATE_NAMES_1Q, "povm": POVM_NAMES_1Q, "gate": GATE_NAMES_1Q, "mprocess": MPROCESS_NAMES_1Q}
NAMES_2Q = {
    "state": ["bell_phi_plus", "bell_psi_minus", "z0_z0", "x1_a", "a_y0"],
    "povm": ["bell", "x_x", "z_y", "y_z"],
}
LINDBLADIAN_BASES_1Q = ["identity", "x90", "y180", "z90", "hadamard", "piover8"]
TYPE_OF_TOMO = {"qst": "state", "povmt": "povm", "qpt": "gate", "qmpt": "mprocess"}


# ============================================================================= numpy models
def depol_model(t, basis, x, d, m, p):
    """(1-p) * ideal + p * (maximally mixed counterpart) on stacked coordinates (orthonormal Hermitian basis)."""
    n = d * d
    eye = np.eye(d, dtype=complex)
    x = np.asarray(x, dtype=float)

    def mix(a):
        return (1 - p) * a + p * np.trace(a) * eye / d

    if t == "state":
        return np.real(rm.vec(basis, mix(rm.unvec(basis, x))))
    if t == "povm":
        return np.concatenate([np.real(rm.vec(basis, mix(rm.unvec(basis, x[i * n:(i + 1) * n])))) for i in range(m)])
    mm = 1 if t == "gate" else m
    out = []
    for i in range(mm):
        hs = x[i * n * n:(i + 1) * n * n].reshape(n, n)
        out.append(np.real(rm.hs_from_map(basis, lambda a, hs=hs: mix(rm.apply_hs(basis, hs, a)))).reshape(-1))
    return np.concatenate(out)


def model_prob_dists(t, true_x, state_xs, povm_xs, d, m):
    """Born probabilities of the 'all' schedule list from stacked coefficient vectors (Tr(AB) = a.b)."""
    n = d * d
    true_x = np.asarray(true_x, dtype=float)
    out = []
    if t == "state":
        for pv in povm_xs:
            out.append(pv.reshape(-1, n) @ true_x)
    elif t == "povm":
        for s in state_xs:
            out.append(true_x.reshape(-1, n) @ s)
    elif t == "gate":
        hs = true_x.reshape(n, n)
        for s in state_xs:
            for pv in povm_xs:
                out.append(pv.reshape(-1, n) @ (hs @ s))
    else:
        hss = true_x.reshape(-1, n, n)
        for s in state_xs:
            for pv in povm_xs:
                out.append(np.concatenate([pv.reshape(-1, n) @ (hs @ s) for hs in hss]))
    return [np.clip(np.asarray(p, dtype=float), 0.0, 1.0) for p in out]


def _max_binom_pmf(n, p):
    from scipy.stats import binom

    if p <= 0.0 or p >= 1.0 or n <= 0:
        return 1.0
    mode = min(n, max(0, int(math.floor((n + 1) * p))))
    return float(min(1.0, max(binom.pmf(k, n, p) for k in (max(0, mode - 1), mode, min(n, mode + 1)))))


def log_collision_bound(dists, num_data):
    """log of an upper bound on P(two independent repetitions have identical empirical-distribution sequences)."""
    incs = [num_data[0]] + [b - a for a, b in zip(num_data[:-1], num_data[1:])]
    total = 0.0
    for p in dists:
        for n in incs:
            best = min(_max_binom_pmf(int(n), float(pj)) for pj in p)
            # the probabilities quara samples from may differ from the model's in the last bits (relative effect on the
            # pmf about n * 1e-15): 1 % of slack
            total += math.log(min(1.0, 1.01 * best))
    return total


def dispersion(dists, empi_last, n):
    """(T, K, certified) pooled dispersion of first-outcome counts around the model probabilities."""
    from scipy.special import logsumexp
    from scipy.stats import binom

    terms = []
    logm_up = {lam: 0.0 for lam in (0.1, 0.2, 0.3, 1.0 / 3.0, 0.4)}
    logm_lo = {lam: 0.0 for lam in (0.5, 1.0, 1.5, 2.0)}
    cache = {}
    ks = np.arange(n + 1)
    for rep in empi_last:
        for p, (nn, f) in zip(dists, rep):
            p0 = float(p[0])
            v = n * p0 * (1 - p0)
            if v < 5.0:
                continue
            x = float(f[0]) * n
            terms.append((x - n * p0) ** 2 / v)
            if p0 not in cache:
                lp = binom.logpmf(ks, n, p0)
                z = (ks - n * p0) ** 2 / v
                cache[p0] = ({lam: float(logsumexp(lp + lam * z)) for lam in logm_up},
                             {lam: float(logsumexp(lp - lam * z)) for lam in logm_lo})
            up, lo = cache[p0]
            for lam in logm_up:
                logm_up[lam] += up[lam]
            for lam in logm_lo:
                logm_lo[lam] += lo[lam]
    k = len(terms)
    if k == 0:
        return None, 0, False
    t = float(np.sum(terms)) / k
    b_up = min(-lam * DISP_HI * k + s for lam, s in logm_up.items())
    b_lo = min(lam * DISP_LO * k + s for lam, s in logm_lo.items())
    return t, k, (b_up < P_FALSE_ALARM_LOG and b_lo < P_FALSE_ALARM_LOG)


DISP_LO, DISP_HI = 0.25, 3.0


def check_repetitions(ctx, tag, dists, empi_seqs, num_data, want_dispersion=False):
    """repetitions are not copies of one another (+ optional dispersion sanity); returns True if the oracle was decidable."""
    n_rep = len(empi_seqs)
    if n_rep < 2:
        return False
    ok_shape = all(len(rep) == len(num_data) and all(len(d_) == len(dists) for d_ in rep) for rep in empi_seqs)
    ctx.check(ok_shape, f"empi_shape:{tag}", "repetition x sample size x schedule layout")
    if not ok_shape:
        return False
    logb = log_collision_bound(dists, num_data)
    pairs = n_rep * (n_rep - 1) // 2

    def same(a, b):
        return F.first_diff(a, b) is None

    decided = False
    if logb + math.log(pairs) < P_FALSE_ALARM_LOG:
        decided = True
        dup = [(i, j) for i in range(n_rep) for j in range(i + 1, n_rep) if same(empi_seqs[i], empi_seqs[j])]
        ctx.check(not dup, f"reps_pairwise_distinct:{tag}",
                  lambda: f"repetitions {dup[:6]} have identical empirical distributions (collision bound e^{logb:.1f} per pair)")
    elif (n_rep - 1) * logb < P_FALSE_ALARM_LOG:
        decided = True
        all_same = all(same(empi_seqs[0], e) for e in empi_seqs[1:])
        ctx.check(not all_same, f"reps_not_all_identical:{tag}",
                  lambda: f"all {n_rep} repetitions identical (bound e^{(n_rep - 1) * logb:.1f})")
    else:
        ctx.label("collision-bound-too-weak")
    if want_dispersion:
        n = int(num_data[-1])
        last = [rep[-1] for rep in empi_seqs]
        t, k, cert = dispersion(dists, last, n)
        if cert:
            ctx.label("dispersion-certified")
            ctx.check(DISP_LO <= t <= DISP_HI, f"dispersion:{tag}",
                      f"pooled (X-Np)^2/(Np(1-p)) mean {t:.3f} over {k} terms outside [{DISP_LO},{DISP_HI}]")
            ctx.residuals[f"dispersion:{tag}"] = max(ctx.residuals.get(f"dispersion:{tag}", 0.0), max(t / DISP_HI, DISP_LO / max(t, 1e-300)))
    return decided


def split_testers(dg):
    sts = [x for (tn, x) in dg["testers"] if tn == "State"]
    pvs = [x for (tn, x) in dg["testers"] if tn == "Povm"]
    return sts, pvs


def dists_of_digest(t, dg, d=2):
    sts, pvs = split_testers(dg)
    n = d * d
    m = None
    if t == "povm":
        m = dg["true"].size // n
    elif t == "mprocess":
        m = dg["true"].size // (n * n)
    return model_prob_dists(t, dg["true"], sts, pvs, d, m)


# ============================================================================= flow configurations
def pick(draw, options):
    """choice through an integer modulus: with a handful of examples st.sampled_from sticks to its first entries."""
    return options[draw(st.integers(0, 100 * len(options) - 1)) % len(options)]


@st.composite
def noise_st(draw, rich=False):
    """rich: for the expensive differential facet, where most configurations should carry random / non-trivial noise."""
    if rich:
        kind = pick(draw, ["random_effective_lindbladian", "depolarized", "random_effective_lindbladian", "depolarized",
                           "random_effective_lindbladian", "none", "random_effective_lindbladian"])
    else:
        kind = pick(draw, ["depolarized", "depolarized", "random_effective_lindbladian", "random_effective_lindbladian", "none"])
    if kind == "none":
        return {"method": None}
    if kind == "depolarized":
        p_true = draw(st.one_of(st.integers(1, 999).map(lambda i: i / 1000.0), st.sampled_from([0.0, 1.0]), st.floats(0.0, 1.0, allow_nan=False)))
        p_tester = draw(st.one_of(st.integers(0, 500).map(lambda i: i / 1000.0), st.floats(0.0, 0.5, allow_nan=False)))
        return {"method": "depolarized", "p_true": float(p_true), "p_tester": float(p_tester),
                "tester_plain": pick(draw, [False, False, True])}
    h = draw(st.one_of(gen.log_uniform(1e-3, 1.0), gen.log_uniform(1e-3, 1.0), st.just(0.0)))
    k = draw(st.one_of(gen.log_uniform(1e-3, 0.5), gen.log_uniform(1e-3, 0.5), st.just(0.0)))
    return {"method": "random_effective_lindbladian", "h": float(h), "k": float(k),
            "lindbladian_base": pick(draw, ["identity", "identity"] + LINDBLADIAN_BASES_1Q)}


@st.composite
def est_cases_st(draw, kinds=("linear", "plinear", "lossmin"), n=None):
    order = draw(st.permutations(list(kinds)))
    if n is not None:
        order = order[:n]
    out = []
    for e in order:
        ec = {"est": e, "para": draw(st.booleans())}
        if e == "lossmin":
            ec["max_iter"] = draw(st.integers(5, 30))
            ec["eq"] = True
            ec["ineq"] = draw(st.sampled_from([True, True, False]))
        out.append(ec)
    return out


@st.composite
def num_data_st(draw, max_len=3, lo=1, hi=400):
    k = draw(st.integers(1, max_len))
    incs = draw(st.lists(st.integers(lo, hi), min_size=k, max_size=k))
    return [int(x) for x in np.cumsum(incs)]


@st.composite
def flow_cfg(draw, tier, types=("state", "povm", "gate", "mprocess"), n_rep=(2, 4), est_n=None, nd=None, rich=False):
    t = pick(draw, list(types))
    cfg = {
        "type": t,
        "true_name": pick(draw, NAMES_1Q[t]),
        "tester_4th": pick(draw, ["z1", "x1", "y1", "a"]),
        "noise": draw(noise_st(rich)),
        "n_sample": pick(draw, [2, 2, 2, 1]) if rich else draw(st.integers(1, 2)),
        "n_rep": pick(draw, list(range(n_rep[0], n_rep[1] + 1))),
        "num_data": draw(num_data_st()) if nd is None else draw(nd),
        "seed_data": draw(st.integers(0, 2 ** 32 - 1)),
        "seed_qoperation": draw(st.integers(0, 2 ** 32 - 1)),
        "est_cases": draw(est_cases_st(n=est_n)),
        "exec_check": pick(draw, ["all", "phys_only", "none", "phys_only"]),
    }
    return cfg


@st.composite
def flow_case(draw, tier):
    cfg = draw(flow_cfg(tier, rich=True))
    return {"cfg": cfg, "hashseed": draw(st.integers(0, 4294967295))}


def run_in_process(cfg, ctx, root_dir=None):
    res, ts = F.run_flow(cfg, None, root_dir=root_dir)
    return res, ts


def label_cfg(ctx, cfg):
    nz = cfg["noise"]
    ctx.label("unknown:" + cfg["type"], "noise:" + str(nz["method"]), f"n_sample:{cfg['n_sample']}", f"n_rep:{cfg['n_rep']}",
              f"n_num_data:{len(cfg['num_data'])}", "checks:" + cfg.get("exec_check", "all"))
    for ec in cfg["est_cases"]:
        ctx.label(f"est:{ec['est']}:{ec['para']}")
    if nz["method"] == "depolarized":
        ctx.label("p_true:" + ("0" if nz["p_true"] == 0 else "1" if nz["p_true"] == 1 else "inner"))
        if nz.get("tester_plain"):
            ctx.label("testers:plain")
    if nz["method"] == "random_effective_lindbladian":
        ctx.label("strength:" + ("zero" if nz["h"] == 0 and nz["k"] == 0 else "positive"), "lb:" + nz["lindbladian_base"])


def check_digest_layout(ctx, cfg, dg, tag):
    n_cases = len(cfg["est_cases"])
    ok = len(dg) == cfg["n_sample"] * n_cases
    ctx.check(ok, f"layout_results:{tag}", f"{len(dg)} results for n_sample={cfg['n_sample']} x {n_cases} cases")
    if not ok:
        return False
    for i, r in enumerate(dg):
        exp_idx = (0, i // n_cases, i % n_cases)
        good = (r["index"] == exp_idx and len(r["empi"]) == cfg["n_rep"] and len(r["est"]) == cfg["n_rep"]
                and all(len(rep) == len(cfg["num_data"]) for rep in r["empi"])
                and all(len(seq) == len(cfg["num_data"]) for seq in r["est"])
                and all([n for (n, _) in dists] == [nd] * len(dists) for rep in r["empi"] for dists, nd in zip(rep, cfg["num_data"])))
        ctx.check(good, f"layout_result:{tag}", f"result {i}: index {r['index']} expected {exp_idx}, reps {len(r['empi'])}/{len(r['est'])}")
        if not good:
            return False
    return True


def check_flow_objects(ctx, cfg, dg):
    """true / tester objects of the flow against the numpy noise model and refmodel physicality."""
    d, n = 2, 4
    basis = gen.ref_basis("1q")
    t = cfg["type"]
    nz = cfg["noise"]
    n_cases = len(cfg["est_cases"])
    ideal = None
    if nz["method"] in (None, "depolarized"):
        from quara.objects.composite_system_typical import generate_composite_system
        from quara.objects.qoperation_typical import generate_qoperation

        c_sys = generate_composite_system("qubit", 1)
        ideal = {"true": F._stacked(generate_qoperation(mode=t, name=cfg["true_name"], c_sys=c_sys)),
                 "testers": [F._stacked(generate_qoperation(mode=b[0], name=b[1], c_sys=c_sys)) for b in F.tester_names(cfg)]}
    tol = rm.algebraic_tol(d)
    for r in dg:
        objs = [(r["true_type"].lower(), r["true"], "true")] + [(tn.lower(), x, "tester") for (tn, x) in r["testers"]]
        ctx.check(r["true_type"].lower() == t, "flow_true_type", r["true_type"])
        for (tt, x, role) in objs:
            m = x.size // n if tt == "povm" else (x.size // (n * n) if tt == "mprocess" else None)
            ctx.leq(rm.eq_defect_stacked(tt, x, d, m), 0.0, 1e-9, f"flow_object_eq_physical:{role}")
            ctx.leq(rm.ineq_defect_stacked(tt, x, basis, d, m), 0.0, 1e-9, f"flow_object_ineq_physical:{role}")
        if ideal is not None:
            for (tt, x, role), idl in zip(objs, [ideal["true"]] + ideal["testers"]):
                p = 0.0
                if nz["method"] == "depolarized":
                    p = nz["p_true"] if role == "true" else (0.0 if nz.get("tester_plain") else nz["p_tester"])
                m = idl.size // n if tt == "povm" else (idl.size // (n * n) if tt == "mprocess" else None)
                ctx.close(x, depol_model(tt, basis, idl, d, m, p), tol, f"flow_object_model:{role}")
    # all estimator cases of a sample share the sample's objects
    for s in range(cfg["n_sample"]):
        grp = dg[s * n_cases:(s + 1) * n_cases]
        for g in grp[1:]:
            diff = F.first_diff({k: g[k] for k in ("true", "testers", "empi")}, {k: grp[0][k] for k in ("true", "testers", "empi")})
            ctx.check(diff is None, "flow_cases_share_sample", diff)
    if nz["method"] == "random_effective_lindbladian" and cfg["n_sample"] == 2 and (nz["h"] > 0 or nz["k"] > 0):
        a, b = dg[0], dg[n_cases]
        ctx.check(not np.array_equal(a["true"], b["true"]), "samples_distinct_true", "two samples drew the same random true object")


def run_child(case, ctx, d0):
    """the ten-run differential in a fresh interpreter (stops after the first run that differs from d0); its report."""
    from harness.runner import REPO, HarnessError

    with F.scratch_dir() as d:
        cfg_path = os.path.join(d, "job.json")
        out_path = os.path.join(d, "out.pickle")
        ref_path = os.path.join(d, "reference.pickle")
        with open(ref_path, "wb") as f:
            pickle.dump(d0, f)
        job = {"cfg": case["cfg"], "repo": REPO, "modes": F.mode_list(), "reference": ref_path}
        with open(cfg_path, "w") as f:
            json.dump(job, f)
        env = dict(os.environ)
        env["PYTHONHASHSEED"] = str(case["hashseed"])
        env.pop("VERIF_INLINE", None)
        proc = subprocess.run([sys.executable, "-m", "harness.checks.c15_flow", cfg_path, out_path], env=env,
                              stdout=subprocess.DEVNULL, stderr=subprocess.PIPE, cwd=os.path.dirname(os.path.dirname(os.path.dirname(os.path.abspath(__file__)))))
        if not os.path.exists(out_path):
            raise HarnessError(f"child interpreter produced no report (exit {proc.returncode}): {proc.stderr.decode(errors='replace')[-1500:]}")
        with open(out_path, "rb") as f:
            rep = pickle.load(f)
    if rep["error"] is not None:
        e = rep["error"]
        if e["frame"] is None:
            raise HarnessError(f"child failed outside quara in mode {e['mode']}: {e['type']}: {e['msg']}\n{e['trace']}")
        ctx.n_oracles += 1
        ctx.fail(f"exception:{e['type']}@{e['frame']}", f"in child interpreter, mode {e['mode']}: {e['msg']}\n{e['trace']}")
        return None
    if rep["daemon"] or any(int(v) != int(k) for k, v in rep["jobs_effective"].items()):
        raise HarnessError(f"child did not get real workers: daemon={rep['daemon']} effective={rep['jobs_effective']}")
    return rep


def is_zero_example(case):
    """Hypothesis starts every shard with its all-minimal example; the expensive child runs are not repeated for it."""
    return case["hashseed"] == 0 and case["cfg"]["seed_data"] == 0 and case["cfg"]["seed_qoperation"] == 0


def minimize_flow(case, fails):
    """bounded own minimiser (each probe costs eleven flows): drop samples, estimator cases, sample sizes, checks, noise."""
    import copy

    best = copy.deepcopy(case)

    def attempt(mut):
        nonlocal best
        c = copy.deepcopy(best)
        mut(c["cfg"])
        if c != best and not is_zero_example(c) and fails(c):
            best = c

    attempt(lambda g: g.update(n_sample=1))
    attempt(lambda g: g.update(exec_check="none"))
    attempt(lambda g: g.update(est_cases=g["est_cases"][:1]))
    attempt(lambda g: g.update(num_data=g["num_data"][:1]))
    attempt(lambda g: g.update(n_rep=2))
    return best


def check_flow(case, ctx):
    cfg = case["cfg"]
    label_cfg(ctx, cfg)
    res, _ = run_in_process(cfg, ctx)
    d0 = F.digest(res)
    if not check_digest_layout(ctx, cfg, d0, "in_process"):
        return
    check_flow_objects(ctx, cfg, d0)
    if is_zero_example(case):
        ctx.skip("zero-example-child-not-run")
        return
    rep = run_child(case, ctx, d0)
    if rep is None:
        return
    ctx.check(len(rep["runs"]) == len(F.mode_list()) or rep["stopped_early"], "child_runs", f"{len(rep['runs'])} runs")
    seen_serial = 0
    for name, dg in rep["runs"]:
        if name == "serial":
            seen_serial += 1
            oid = "fresh_interpreter_same" if seen_serial == 1 else "repeat_serial_same"
        else:
            oid = "parallel_same:" + name.split(":")[0]
        diff = F.first_diff(dg, d0, name)
        ctx.check(diff is None, oid, lambda: f"run '{name}' differs from the in-process serial run at {diff}")
    ctx.nontrivial(True)


# ============================================================================= single-setting entry point
@st.composite
def single_case(draw, tier):
    tc = draw(tomo.tomo_case(kinds=(pick(draw, ["qst", "povmt", "qpt", "qmpt", "qst"]),), shapes=("1q",), m_range=(2, 3)))
    incs_n = draw(st.integers(3, 6))
    incs = draw(st.lists(st.integers(150, 400), min_size=incs_n, max_size=incs_n))
    return {
        "tomo": tc,
        "estimator": pick(draw, ["linear", "plinear", "linear"]),
        "n_rep": pick(draw, [2, 3, 4, 5]),
        "num_data": [int(x) for x in np.cumsum(incs)],
        "seed": draw(st.integers(0, 2 ** 32 - 1)),
        "seed_mode": pick(draw, ["setting_int", "generator_mt", "arg_int", "generator_pcg", "generator_mt"]),
        "init_with_seed": draw(st.booleans()),
    }


def is_int_seed_entry(case):
    """C15-F1: execute_simulation re-expands an int seed for every repetition."""
    return case.get("seed_mode") in ("setting_int", "arg_int") and case.get("n_rep", 0) >= 2


def is_povmt_single_entry(case):
    """C15-F2: StandardPovmt.generate_empi_dists_sequence does not accept the keyword execute_simulation passes."""
    return case.get("tomo", {}).get("tomo") == "povmt"


def build_single(case):
    from quara.protocol.qtomography.standard.linear_estimator import LinearEstimator
    from quara.protocol.qtomography.standard.projected_linear_estimator import ProjectedLinearEstimator
    from quara.simulation import standard_qtomography_simulation as sim

    tc = case["tomo"]
    shape = tc["shape"]
    d = gen.dim_of(shape)
    basis = gen.ref_basis(shape)
    c_sys = build.c_sys_for(shape)
    u = rm.unitary_from_raw(tc["raw_u"], d)
    st_m = tomo.tester_states(d, u)
    pv_m = tomo.tester_povms(d, u)
    st_x = [np.real(rm.vec(basis, r)) for r in st_m]
    pv_x = [np.concatenate([np.real(rm.vec(basis, e)) for e in p]) for p in pv_m]
    states = [build.make(c_sys, "state", x) for x in st_x]
    povms = [build.make(c_sys, "povm", x, m=d) for x in pv_x]
    kind = tc["tomo"]
    t = TYPE_OF_TOMO[kind]
    testers = {"qst": povms, "povmt": states}.get(kind, states + povms)
    true_x = gen.stacked_reference(tc["true"], basis)
    m = tc["true"].get("m")
    true_obj = build.make(c_sys, t, true_x, m=m)
    est = LinearEstimator() if case["estimator"] == "linear" else ProjectedLinearEstimator()
    setting = sim.StandardQTomographySimulationSetting(
        name="single", true_object=true_obj, tester_objects=testers, estimator=est, seed_data=int(case["seed"]),
        n_rep=case["n_rep"], num_data=list(case["num_data"]), schedules="all", eps_proj_physical=1e-9,
        eps_truncate_imaginary_part=1e-9)
    qt = sim.generate_qtomography(setting, para=tc["flag"], init_with_seed=case["init_with_seed"])
    sx = st_x if kind != "qst" else []
    px = pv_x if kind != "povmt" else []
    dists = model_prob_dists(t, true_x, sx, px, d, m)
    return sim, qt, setting, dists


def _seed_arg(case):
    mode = case["seed_mode"]
    if mode == "setting_int":
        return {}
    if mode == "arg_int":
        return {"seed_or_generator": int(case["seed"]) ^ 0x5A5A}
    bg = np.random.MT19937 if mode == "generator_mt" else np.random.PCG64
    return {"seed_or_generator": np.random.Generator(bg(int(case["seed"])))}


def sim_digest(r):
    return {
        "empi": [[[(int(n), np.array(p, dtype=np.float64)) for (n, p) in dists] for dists in rep] for rep in r.empi_dists_sequences],
        "est": [[np.array(v, dtype=np.float64) for v in er.estimated_var_sequence] for er in r.estimation_results],
    }


def check_single(case, ctx):
    sim, qt, setting, dists = build_single(case)
    tc = case["tomo"]
    ctx.label("tomo:" + tc["tomo"], "seed:" + case["seed_mode"], "est:" + case["estimator"], f"para:{tc['flag']}",
              f"n_rep:{case['n_rep']}", f"init_with_seed:{case['init_with_seed']}")
    r1 = sim.execute_simulation(qt, setting, **_seed_arg(case))
    r2 = sim.execute_simulation(qt, setting, **_seed_arg(case))
    d1, d2 = sim_digest(r1), sim_digest(r2)
    ok = (len(d1["empi"]) == case["n_rep"] and len(d1["est"]) == case["n_rep"])
    ctx.check(ok, "single_layout", f"{len(d1['empi'])} data / {len(d1['est'])} estimates for n_rep={case['n_rep']}")
    if not ok:
        return
    diff = F.first_diff(d1, d2)
    ctx.check(diff is None, "single_repeatable:" + ("int" if is_int_seed_entry(case) else "generator"), diff)
    ctx.check(r1.simulation_setting.seed_data == setting.seed_data and r1.simulation_setting.n_rep == setting.n_rep
              and list(r1.simulation_setting.num_data) == list(setting.num_data), "single_setting_kept")
    # a third run on the same objects after the data seed of the tomography was used elsewhere: still the same
    if case["seed_mode"] in ("setting_int", "arg_int"):
        qt.generate_empi_dists_sequence(setting.true_object, [3], seed_or_generator=np.random.Generator(np.random.PCG64(1)))
        d3 = sim_digest(sim.execute_simulation(qt, setting, **_seed_arg(case)))
        diff3 = F.first_diff(d1, d3)
        ctx.check(diff3 is None, "single_repeatable:int", diff3)
    decided = check_repetitions(ctx, "single", dists, d1["empi"], case["num_data"])
    ctx.nontrivial(decided)
    # the SAME setting object used again after its testers were exchanged (recalibrated testers, in reversed order): the
    # tomography generated from it is that of the testers it holds now
    true_obj = setting.true_object
    p_before = [np.asarray(x, dtype=float) for x in qt.calc_prob_dists(true_obj)]
    setting.tester_objects = list(setting.tester_objects)[::-1]
    qt2 = sim.generate_qtomography(setting, para=tc["flag"], init_with_seed=case["init_with_seed"])
    p_after = [np.asarray(x, dtype=float) for x in qt2.calc_prob_dists(true_obj)]
    kind = tc["tomo"]
    if kind in ("qst", "povmt"):
        want = p_before[::-1]
    else:  # states + povms reversed -> povm-like objects first is rejected or re-sorted by type: compare as multisets
        want = None
    if want is not None and len(p_after) == len(want):
        ok_rev = all(a.shape == b.shape and float(np.max(np.abs(a - b))) <= 1e-12 for a, b in zip(p_after, want))
        ctx.check(ok_rev, "reused_setting:tomography_follows_current_testers",
                  "generate_qtomography on the same setting object after its testers were reversed still has the old order")
        ctx.label("setting-reused-with-other-testers")
    if case["init_with_seed"] and kind in ("qst", "povmt"):
        # generating the tomography with init_with_seed seeds the global stream each time: seed-less data are repeatable
        qa = sim.generate_qtomography(setting, para=tc["flag"], init_with_seed=True)
        da = qa.generate_empi_dists_sequence(true_obj, [7, 19])
        qb = sim.generate_qtomography(setting, para=tc["flag"], init_with_seed=True)
        db = qb.generate_empi_dists_sequence(true_obj, [7, 19])
        same = all(int(x[0]) == int(y[0]) and np.array_equal(np.asarray(x[1]), np.asarray(y[1]))
                   for ra, rb in zip(da, db) for x, y in zip(ra, rb))
        ctx.check(same, "init_with_seed:seedless_data_repeatable_after_regenerating_the_tomography")


# ============================================================================= independent repetitions (flows)
@st.composite
def indep_case(draw, tier):
    nd = num_data_st(max_len=4, lo=150, hi=500)
    cfg = draw(flow_cfg(tier, n_rep=(6, 12) if tier == "quick" else (6, 40), est_n=1, nd=nd))
    cfg["est_cases"] = [{"est": "linear", "para": draw(st.booleans())}]
    cfg["exec_check"] = "none"
    if cfg["noise"]["method"] == "depolarized":
        # keep the data random: a noiseless catalogue object measured in its own basis has deterministic outcomes
        cfg["noise"]["p_true"] = float(draw(st.floats(0.05, 0.9)))
    return {"cfg": cfg}


def check_indep(case, ctx):
    cfg = case["cfg"]
    label_cfg(ctx, cfg)
    res, _ = run_in_process(cfg, ctx)
    dg = F.digest(res)
    if not check_digest_layout(ctx, cfg, dg, "indep"):
        return
    check_flow_objects(ctx, cfg, dg)
    decided_any = False
    for s, r in enumerate(dg):
        dists = dists_of_digest(cfg["type"], r)
        decided = check_repetitions(ctx, "flow", dists, r["empi"], cfg["num_data"], want_dispersion=True)
        decided_any = decided_any or decided
    ctx.nontrivial(decided_any)


# ============================================================================= re-estimation
@st.composite
def reest_case(draw, tier):
    cfg = draw(flow_cfg(tier, n_rep=(1, 3)))
    cfg["n_rep"] = pick(draw, [2, 3, 1, 2])
    # every eighth case also stores a run of MANY (11 or 12) tiny test settings: two-digit directory numbers
    many = draw(st.integers(0, 7)) == 0
    # two cases of ONE estimator that differ in the parametrisation only, named alike (case names are free text and
    # `type(estimator).__name__` is a common choice): every case must be re-estimated with ITS parametrisation
    if draw(st.integers(0, 2)) == 0:
        first = dict(cfg["est_cases"][0])
        second = dict(first)
        second["para"] = not first["para"]
        cfg["est_cases"] = [first, second]
        cfg["tied_names"] = True
    return {"cfg": cfg, "pick_rep": draw(st.integers(0, 2)), "many_settings": (11 + draw(st.integers(0, 1))) if many else 0}


def _est_lists(results):
    return [[np.array(v, dtype=np.float64) for v in er.estimated_var_sequence] for er in results]


def _cmp_est(ctx, ec, got, stored, oid):
    """deterministic estimators bitwise; loss minimisation within the algorithmic tolerance (residual recorded)."""
    if len(got) != len(stored) or any(len(a) != len(b) for a, b in zip(got, stored)):
        ctx.check(False, oid + ":" + ec["est"], f"layout {len(got)} vs {len(stored)}")
        return
    for a_seq, b_seq in zip(got, stored):
        for a, b in zip(a_seq, b_seq):
            if ec["est"] == "lossmin":
                ctx.close(a, b, 1e-9 * (1 + float(np.max(np.abs(b)))), oid + ":lossmin")
            else:
                ctx.equal(a, b, oid + ":" + ec["est"])


def _check_many_settings(case, ctx, flow):
    """a stored run of 11+ test settings (tiny: one sample, one repetition, linear estimator) re-estimated from disk: every
    stored result comes back, matched by its result index (the order of the returned list is not documented)."""
    cfg = dict(case["cfg"])
    cfg.update(n_sample=1, n_rep=1, num_data=[int(case["cfg"]["num_data"][0])], est_cases=[{"est": "linear", "para": True}],
               exec_check="none")
    cfg.pop("tied_names", None)
    n = int(case["many_settings"])
    with F.scratch_dir() as root, F.scratch_dir() as root2:
        res, _ = F.run_flow(cfg, None, root_dir=root, n_settings=n)
        if not ctx.check(len(res) == n, "many_settings:forward_layout", f"{len(res)} results for {n} test settings"):
            return
        re_all = flow.re_estimate_test_settings(input_root_dir=root, output_root_dir=root2, pdf_mode="none",
                                                exec_sim_check=F.exec_check_of(cfg))
        key = lambda r: tuple(sorted((k, str(v)) for k, v in r.result_index.items()))  # noqa: E731
        stored = {key(r): _est_lists(r.estimation_results) for r in res}
        got = {key(r): _est_lists(r.estimation_results) for r in re_all}
        ctx.check(len(re_all) == n and set(got) == set(stored), "many_settings:every_stored_result_is_re_estimated",
                  lambda: f"stored {n} results, re-estimated {len(re_all)}; missing {sorted(set(stored) - set(got))[:3]}")
        for k_ in sorted(set(got) & set(stored)):
            _cmp_est(ctx, {"est": "linear"}, got[k_], stored[k_], "many_settings:re_estimate_flow")
    ctx.label(f"many-settings:{n}")


def check_reest(case, ctx):
    from quara.simulation import standard_qtomography_simulation as sim
    from quara.simulation import standard_qtomography_simulation_flow as flow

    cfg = case["cfg"]
    label_cfg(ctx, cfg)
    if case.get("many_settings"):
        _check_many_settings(case, ctx, flow)
    if cfg.get("tied_names"):
        ctx.label("case-names:tied")
    n_cases = len(cfg["est_cases"])
    with F.scratch_dir() as root, F.scratch_dir() as root2:
        res, ts = run_in_process(cfg, ctx, root_dir=root)
        dg = F.digest(res)
        if not check_digest_layout(ctx, cfg, dg, "reest"):
            return
        for i, r in enumerate(res):
            ec = cfg["est_cases"][i % n_cases]
            stored = _est_lists(r.estimation_results)
            # in-memory re-estimation
            _cmp_est(ctx, ec, _est_lists(sim.re_estimate_sequence(ts, r)), stored, "re_estimate_sequence")
            k = case["pick_rep"] % cfg["n_rep"]
            _cmp_est(ctx, ec, _est_lists([sim.re_estimate(ts, r, k)]), [stored[k]], "re_estimate")
            ex = sim.execute_estimation(r.qtomography, r.simulation_setting, r.empi_dists_sequences)
            _cmp_est(ctx, ec, _est_lists(ex.estimation_results), stored, "execute_estimation")
            # from what was stored on disk
            s_idx, c_idx = i // n_cases, i % n_cases
            _cmp_est(ctx, ec, _est_lists(sim.re_estimate_sequence_from_index(root, 0, s_idx, c_idx)), stored, "re_estimate_from_index")
            loaded = sim.load_simulation_results(root, 0, s_idx, c_idx)
            ctx.check(len(loaded) == 1, "load_results", f"{len(loaded)} results loaded")
            if len(loaded) == 1:
                diff = F.first_diff(F.digest(loaded), [dg[i]])
                ctx.check(diff is None, "stored_equals_returned", diff)
        re_all = flow.re_estimate_test_settings(input_root_dir=root, output_root_dir=root2, pdf_mode="none",
                                                exec_sim_check=F.exec_check_of(cfg))
        ctx.check(len(re_all) == len(res), "re_estimate_flow_layout", f"{len(re_all)} vs {len(res)}")
        if len(re_all) == len(res):
            for i, (a, b) in enumerate(zip(re_all, res)):
                ec = cfg["est_cases"][i % n_cases]
                # (re_estimate_test_settings reports test_setting_index as the directory name, a str: compared as text)
                ctx.check({k: str(v) for k, v in a.result_index.items()} == {k: str(v) for k, v in b.result_index.items()},
                          "re_estimate_flow_index", f"{a.result_index} vs {b.result_index}")
                _cmp_est(ctx, ec, _est_lists(a.estimation_results), _est_lists(b.estimation_results), "re_estimate_flow")
                diff = F.first_diff(F.digest([a])[0]["empi"], dg[i]["empi"])
                ctx.check(diff is None, "re_estimate_flow_data", diff)
    ctx.nontrivial(cfg["n_rep"] >= 2 or cfg["n_sample"] >= 2)


# ============================================================================= noise models
@st.composite
def base_st(draw, shapes_generated=("1q", "1q", "qutrit", "2q")):
    if draw(st.booleans()):
        if draw(st.integers(0, 4)) == 0:
            t = draw(st.sampled_from(["state", "povm"]))
            return {"kind": "named", "shape": "2q", "type": t, "name": draw(st.sampled_from(NAMES_2Q[t]))}
        t = draw(st.sampled_from(["state", "povm", "gate", "mprocess"]))
        return {"kind": "named", "shape": "1q", "type": t, "name": draw(st.sampled_from(NAMES_1Q[t]))}
    obj = draw(gen.any_object_case(tuple(shapes_generated), (2, 3)))
    return {"kind": "generated", "shape": obj["shape"], "type": obj["type"], "obj": obj}


@st.composite
def noise_model_case(draw, tier):
    model = pick(draw, ["depolarized", "lindbladian", "depolarized"])
    if model == "depolarized":
        base = draw(base_st())
        cls = pick(draw, ["inner", "grid", "one", "zero", "tiny", "near1", "inner"])
        p = {"inner": st.floats(0.0, 1.0, allow_nan=False), "grid": st.integers(1, 99).map(lambda i: i / 100.0),
             "one": st.just(1.0), "zero": st.just(0.0), "tiny": gen.log_uniform(1e-15, 1e-3),
             "near1": gen.log_uniform(1e-15, 1e-3).map(lambda e: 1.0 - e)}[cls]
        p = draw(p)
        bad = draw(st.one_of(st.sampled_from([-1.0, 2.0, -1e-12, 1.0 + 1e-12, 1e9, -1e9]),
                             st.floats(1.0, 10.0, exclude_min=True, allow_nan=False),
                             st.floats(-10.0, 0.0, exclude_max=True, allow_nan=False)))
        return {"model": model, "base": base, "p": float(p), "bad_p": float(bad), "as_object": draw(st.booleans())}
    base = draw(base_st(("1q", "1q", "1q", "qutrit", "2q") if tier == "thorough" else ("1q", "1q", "1q", "qutrit")))
    lb = "identity"
    if base["shape"] == "1q":
        lb = draw(st.sampled_from(["identity"] + LINDBLADIAN_BASES_1Q))
    zh, zk = pick(draw, [(False, False), (False, True), (False, False), (True, False), (False, False), (True, True)])
    h = 0.0 if zh else draw(gen.log_uniform(1e-4, 1.0))
    k = 0.0 if zk else draw(gen.log_uniform(1e-4, 1.0))
    return {"model": model, "base": base, "lindbladian_base": lb, "h": float(h), "k": float(k),
            "seed": draw(st.integers(0, 2 ** 32 - 1)), "bitgen": draw(st.sampled_from(["MT19937", "PCG64"])),
            "as_object": draw(st.booleans()), "bad_strength": float(draw(st.sampled_from([-1.0, -1e-9, -1e3])))}


def noise_visible(t, ideal, d, m):
    """False for ideal objects on which a trace-preserving noise channel may act trivially (maximally mixed state, POVM
    elements proportional to the identity, maps whose output is always proportional to the identity): there two different
    noise draws legitimately give the same noisy object."""
    n = d * d
    x = np.asarray(ideal, dtype=float)
    if t == "state":
        return float(np.linalg.norm(x[1:])) > 1e-3
    if t == "povm":
        return any(float(np.linalg.norm(x[i * n + 1:(i + 1) * n])) > 1e-3 for i in range(m))
    mm = 1 if t == "gate" else m
    return any(float(np.linalg.norm(x[i * n * n:(i + 1) * n * n].reshape(n, n)[1:, :])) > 1e-3 for i in range(mm))



def _base_objects(case):
    """(c_sys, qoperation_base argument, ideal stacked vector, type, d, m, basis)."""
    b = case["base"]
    shape = b["shape"]
    d = gen.dim_of(shape)
    basis = gen.ref_basis(shape)
    c_sys = build.c_sys_for(shape)
    n = d * d
    if b["kind"] == "named":
        from quara.objects.qoperation_typical import generate_qoperation

        obj = generate_qoperation(mode=b["type"], name=b["name"], c_sys=c_sys)
        ideal = F._stacked(obj)
        arg = obj if case.get("as_object") else (b["type"], b["name"])
    else:
        ideal = gen.stacked_reference(b["obj"], basis)
        arg = build.make(c_sys, b["type"], ideal, m=b["obj"].get("m"), is_physicality_required=False)
    t = b["type"]
    m = ideal.size // n if t == "povm" else (ideal.size // (n * n) if t == "mprocess" else None)
    return c_sys, arg, ideal, t, d, m, basis


def _check_physical(ctx, q, t, x, basis, d, m, tag):
    ctx.check(bool(q.is_physical()), f"noise_physical_verdict:{tag}", "is_physical() is False")
    ctx.leq(rm.eq_defect_stacked(t, x, d, m), 0.0, 1e-9, f"noise_physical_eq:{tag}")
    ctx.leq(rm.ineq_defect_stacked(t, x, basis, d, m), 0.0, 1e-9, f"noise_physical_ineq:{tag}")


def check_noise(case, ctx):
    c_sys, arg, ideal, t, d, m, basis = _base_objects(case)
    b = case["base"]
    ctx.label("model:" + case["model"], "type:" + t, "shape:" + b["shape"], "base:" + b["kind"])
    if case["model"] == "depolarized":
        from quara.simulation.depolarized_qoperation_generation_setting import DepolarizedQOperationGenerationSetting as Dep

        p = case["p"]
        setting = Dep(c_sys, arg, p)
        out = setting.generate()
        ctx.check(type(out).__name__.lower() == t, "depolarized_type", type(out).__name__)
        x = F._stacked(out)
        exp = depol_model(t, basis, ideal, d, m, p)
        ctx.close(x, exp, rm.algebraic_tol(d), f"depolarized_model:{t}")
        _check_physical(ctx, out, t, x, basis, d, m, "depolarized")
        ctx.check(setting.error_rate == p, "depolarized_error_rate")
        out2 = setting.generate()
        ctx.equal(F._stacked(out2), x, "depolarized_repeatable")
        ctx.raises((ValueError,), lambda: Dep(c_sys, arg, case["bad_p"]), "depolarized_rejects_out_of_range", f"p={case['bad_p']}")
        if b["kind"] == "named":
            # the other entry points of the same noise model: the catalogue-level generator and the tester-set generators
            from quara.objects.qoperation_typical import generate_qoperation_depolarized
            from quara.objects import tester_typical as tt

            q = generate_qoperation_depolarized(mode=t, name=b["name"], c_sys=c_sys, error_rate=p)
            ctx.check(type(q).__name__.lower() == t, "depolarized_type:catalogue", type(q).__name__)
            xq = F._stacked(q)
            ctx.close(xq, exp, rm.algebraic_tol(d), f"depolarized_model:catalogue:{t}")
            _check_physical(ctx, q, t, xq, basis, d, m, "depolarized_catalogue")
            if b["shape"] == "1q" and t in ("state", "povm"):
                others = [n for n in NAMES_1Q[t] if n != b["name"]][:2]
                names = [others[0], b["name"]] + others[1:]
                gen_fn = tt.generate_tester_states_depolarized if t == "state" else tt.generate_tester_povms_depolarized
                rates = [min(1.0, p / 2 + 0.25), float(p), 0.0][: len(names)]
                for tag, arg_rates, want_p in (("common", float(p), [float(p)] * len(names)), ("list", rates, rates)):
                    outs = gen_fn(c_sys, list(names), arg_rates)
                    if not ctx.check(isinstance(outs, list) and len(outs) == len(names), f"depolarized_testers_len:{tag}", repr(type(outs))):
                        continue
                    from quara.objects.qoperation_typical import generate_qoperation

                    for nm, o, pj in zip(names, outs, want_p):
                        base_x = F._stacked(generate_qoperation(mode=t, name=nm, c_sys=c_sys))
                        xo = F._stacked(o)
                        ctx.close(xo, depol_model(t, basis, base_x, d, m if t == "povm" else None, pj), rm.algebraic_tol(d),
                                  f"depolarized_model:testers_{tag}:{t}", f"name {nm} p={pj}")
                        _check_physical(ctx, o, t, xo, basis, d, base_x.size // (d * d) if t == "povm" else None, "depolarized_testers")
        ctx.label("p:" + ("0" if p == 0 else "1" if p == 1 else "tiny" if p < 1e-3 else "near1" if p > 1 - 1e-3 else "inner"))
        moved = float(np.max(np.abs(exp - ideal))) > 1e-6 or p == 0.0
        ctx.nontrivial(moved)
        return
    from quara.simulation.random_effective_lindbladian_generation_setting import RandomEffectiveLindbladianGenerationSetting as Rel

    h, k = case["h"], case["k"]
    setting = Rel(c_sys, arg, case["lindbladian_base"], h, k)
    seed = int(case["seed"])
    a = setting.generate(seed)
    a2 = setting.generate(seed)
    ctx.check(isinstance(a, tuple) and len(a) == 5 and isinstance(a2, tuple) and len(a2) == 5, "lindbladian_return", type(a).__name__)
    if not (isinstance(a, tuple) and len(a) == 5):
        return
    ctx.check(type(a[0]).__name__.lower() == t, "lindbladian_type", type(a[0]).__name__)
    xa = F._stacked(a[0])
    ctx.equal(F._stacked(a2[0]), xa, "lindbladian_reproducible_int_seed")
    for i in range(1, 5):
        ctx.equal(np.asarray(a2[i]), np.asarray(a[i]), "lindbladian_reproducible_int_seed")
    _check_physical(ctx, a[0], t, xa, basis, d, m, "lindbladian")
    bg = getattr(np.random, case["bitgen"])
    g1 = np.random.Generator(bg(seed))
    c1 = setting.generate(g1)
    c2 = setting.generate(g1)
    g2 = np.random.Generator(bg(seed))
    e1 = setting.generate(g2)
    e2 = setting.generate(g2)
    x1, x2 = F._stacked(c1[0]), F._stacked(c2[0])
    ctx.equal(F._stacked(e1[0]), x1, "lindbladian_reproducible_generator")
    ctx.equal(F._stacked(e2[0]), x2, "lindbladian_reproducible_generator")
    _check_physical(ctx, c2[0], t, x2, basis, d, m, "lindbladian")
    positive = h > 0 or k > 0
    ctx.label("strength:" + ("positive" if positive else "zero"), "lb:" + case["lindbladian_base"])
    if positive:
        ctx.check(not np.array_equal(np.asarray(c1[4]), np.asarray(c2[4])), "lindbladian_draws_differ:generator",
                  "two draws of one generator gave the same random Lindbladian")
        if noise_visible(t, ideal, d, m):
            ctx.check(not np.array_equal(x1, x2), "lindbladian_draws_differ:object", "two draws of one generator gave the same object")
    else:
        if case["lindbladian_base"] == "identity":
            ctx.close(xa, ideal, rm.algebraic_tol(d), "lindbladian_zero_strength_is_ideal")
    ctx.raises((ValueError,), lambda: Rel(c_sys, arg, case["lindbladian_base"], case["bad_strength"], k), "lindbladian_rejects_negative_h")
    ctx.raises((ValueError,), lambda: Rel(c_sys, arg, case["lindbladian_base"], h, case["bad_strength"]), "lindbladian_rejects_negative_k")
    ctx.nontrivial(positive)


# ============================================================================= built-in physicality verdict
class _UnknownEstimator:
    """an estimator type the built-in check does not know."""


@st.composite
def est_defect_st(draw, t, para):
    kinds = ["ineq", "ineq", "ineq"] + ([] if para else ["eq", "eq", "eq"]) + ["none"]
    kind = draw(st.sampled_from(kinds))
    if kind == "none":
        return {"kind": "none"}
    band = draw(st.sampled_from(["above", "above", "above", "below", "below", "mid"]))
    if band == "below":
        eps = draw(gen.log_uniform(1e-10, 5e-9))
    elif band == "above":
        eps = draw(gen.log_uniform(3e-4, 1e-2))
    else:
        eps = draw(gen.log_uniform(3e-7, 3e-4))
    df = {"kind": kind, "eps": float(eps), "band": band, "sign": draw(st.sampled_from([1.0, -1.0])),
          "elem": draw(st.integers(0, 3)), "col": draw(st.integers(0, 3))}
    if t == "povm" and kind == "eq":
        df["raw_dir"] = draw(gen.raw(4))
    return df


@st.composite
def verdict_case(draw, tier):
    t = draw(st.sampled_from(["state", "povm", "gate", "mprocess"]))
    if t == "state":
        obj = draw(gen.state_case(("1q",)))
    elif t == "povm":
        obj = draw(gen.povm_case(("1q",), (2, 3)))
    elif t == "gate":
        obj = draw(gen.gate_case(("1q",)))
    else:
        obj = draw(gen.mprocess_case(("1q",), (2, 2)))
    para = draw(st.booleans())
    n_rep = draw(st.integers(1, 3))
    n_num = draw(st.integers(1, 3))
    grid = []
    n_def = draw(st.sampled_from([1, 1, 1, 2, 0]))
    cells = draw(st.lists(st.integers(0, n_rep * n_num - 1), min_size=n_def, max_size=n_def, unique=True)) if n_rep * n_num >= n_def else []
    for c in range(n_rep * n_num):
        grid.append(draw(est_defect_st(t, para)) if c in cells else {"kind": "none"})
    # (estimator, algo flags) picked through an integer modulus: sampled_from is strongly biased to its first entries
    combos = [("plinear", None), ("lossmin", {"eq": True, "ineq": False}), ("lossmin", {"eq": False, "ineq": True}),
              ("lossmin", {"eq": True, "ineq": True}), ("lossmin", {"eq": False, "ineq": False}), ("lossmin", None),
              ("linear", None), ("unknown", None), ("plinear", None), ("lossmin", {"eq": False, "ineq": True})]
    est, algo = combos[draw(st.integers(0, 9999)) % len(combos)]
    return {"obj": obj, "para": para, "n_rep": n_rep, "n_num": n_num, "grid": grid, "estimator": est, "algo": algo,
            "show_detail": draw(st.booleans()), "ineq_eps": draw(st.sampled_from([None, None, None, 1e-3, 1e-7]))}
    # below-band defects are <= 5e-9 (a tenth of the smallest threshold/10 in use), above-band >= 3e-4... see est_defect_st


def implied_stacked(t, x, d, m, para):
    """what generate_from_var rebuilds: under the constrained parametrisation the equality-constrained part is implied."""
    if not para:
        return np.array(x, dtype=float)
    return rm.proj_eq_stacked(t, x, d, m) if t in ("state", "gate") else _implied_last(t, x, d, m)


def _implied_last(t, x, d, m):
    n = d * d
    x = np.array(x, dtype=float)
    if t == "povm":
        c = np.zeros(n)
        c[0] = math.sqrt(d)
        x[(m - 1) * n:] = c - sum(x[i * n:(i + 1) * n] for i in range(m - 1))
        return x
    e0 = np.zeros(n)
    e0[0] = 1.0
    blk = n * n
    x[(m - 1) * blk:(m - 1) * blk + n] = e0 - sum(x[i * blk:i * blk + n] for i in range(m - 1))
    return x


def var_of(t, x, d, m, para):
    n = d * d
    x = np.asarray(x, dtype=float)
    if not para:
        return x.copy()
    if t == "state":
        return x[1:].copy()
    if t == "povm":
        return x[:(m - 1) * n].copy()
    if t == "gate":
        return x[n:].copy()
    blk = n * n
    return np.concatenate([x[:(m - 1) * blk], x[(m - 1) * blk + n:]])


def check_verdict(case, ctx):
    from quara.data_analysis import physicality_violation_check as pvc
    from quara.protocol.qtomography.standard.linear_estimator import LinearEstimator
    from quara.protocol.qtomography.standard.loss_minimization_estimator import LossMinimizationEstimator
    from quara.protocol.qtomography.standard.projected_linear_estimator import ProjectedLinearEstimator
    from quara.protocol.qtomography.standard.standard_qtomography_estimator import StandardQTomographyEstimationResult
    from quara.minimization_algorithm.projected_gradient_descent_backtracking import ProjectedGradientDescentBacktrackingOption
    from quara.simulation import standard_qtomography_simulation as sim
    from quara.simulation.standard_qtomography_simulation_check import StandardQTomographySimulationCheck

    obj = case["obj"]
    t = obj["type"]
    d, n = 2, 4
    basis = gen.ref_basis("1q")
    m = obj.get("m")
    para = case["para"]
    c_sys = build.c_sys_for("1q")
    # a tomography of the right type provides the template object results are rebuilt from
    kind = {"state": "qst", "povm": "povmt", "gate": "qpt", "mprocess": "qmpt"}[t]
    u = np.eye(2)
    states = [build.make(c_sys, "state", np.real(rm.vec(basis, r))) for r in tomo.tester_states(d, u)]
    povms = [build.make(c_sys, "povm", np.concatenate([np.real(rm.vec(basis, e)) for e in p]), m=d) for p in tomo.tester_povms(d, u)]
    testers = {"qst": povms, "povmt": states}.get(kind, states + povms)
    true_obj = build.make(c_sys, t, gen.stacked_reference(obj, basis), m=m)
    est_name = case["estimator"]
    estimator = {"linear": LinearEstimator, "plinear": ProjectedLinearEstimator, "lossmin": LossMinimizationEstimator,
                 "unknown": _UnknownEstimator}[est_name]()
    algo_option = None
    if est_name == "lossmin" and case["algo"] is not None:
        algo_option = ProjectedGradientDescentBacktrackingOption(on_algo_eq_constraint=case["algo"]["eq"],
                                                                 on_algo_ineq_constraint=case["algo"]["ineq"])
    num_data = [10 * (i + 1) for i in range(case["n_num"])]
    setting = sim.StandardQTomographySimulationSetting(
        name="verdict", true_object=true_obj, tester_objects=testers, estimator=estimator, seed_data=1, n_rep=case["n_rep"],
        num_data=num_data, schedules="all", eps_proj_physical=1e-13, eps_truncate_imaginary_part=1e-13, algo_option=algo_option)
    qt = sim.generate_qtomography(setting, para=para, init_with_seed=False)
    template = qt._template_qoperation
    ctx.check(template.on_para_eq_constraint == para, "template_flag")

    ineq_thr = INEQ_THR if case["ineq_eps"] is None else float(case["ineq_eps"])
    eq_thr = EQ_THR_PARA_TRUE if para else EQ_THR_PARA_FALSE
    if est_name == "plinear":
        enf_eq, enf_in = True, True
    elif est_name == "linear":
        enf_eq, enf_in = bool(para), False
    elif est_name == "lossmin" and case["algo"] is not None:
        enf_eq, enf_in = case["algo"]["eq"], case["algo"]["ineq"]
    else:
        enf_eq, enf_in = False, False

    results = []
    viol = False
    clean = True
    any_big = False
    noise = 8 * 2.2e-16 * d * d  # rounding of the implied part / of eigvalsh on 1-qubit objects
    for r in range(case["n_rep"]):
        seq = []
        for j in range(case["n_num"]):
            df = case["grid"][r * case["n_num"] + j]
            x = c01_build_stacked({"obj": obj, "defect": df})
            xi = implied_stacked(t, x, d, m, para)
            eq_lo, eq_hi, in_lo, in_hi, _ = c01_defects(t, basis, xi, m)
            eq_hi += noise
            in_hi += noise
            if (enf_eq and eq_lo >= 10 * eq_thr) or (enf_in and in_lo >= 10 * ineq_thr):
                viol = True
            if (enf_eq and eq_hi > eq_thr / 10) or (enf_in and in_hi > ineq_thr / 10):
                clean = False
            if eq_lo >= 10 * eq_thr or in_lo >= 10 * ineq_thr:
                any_big = True
            seq.append(var_of(t, x, d, m, para))
        results.append(StandardQTomographyEstimationResult(seq, [0.0] * len(seq), template))
    sim_result = sim.SimulationResult(estimation_results=results, empi_dists_sequences=[], qtomography=qt, simulation_setting=setting)
    checker = StandardQTomographySimulationCheck(sim_result)
    ctx.label("type:" + t, "est:" + est_name, f"para:{para}", f"enforced:eq={enf_eq},ineq={enf_in}",
              "ineq_eps:" + ("default" if case["ineq_eps"] is None else str(case["ineq_eps"])))
    old_eps = pvc.get_ineq_const_eps()
    try:
        if case["ineq_eps"] is not None:
            pvc.set_ineq_const_eps(float(case["ineq_eps"]))
        ctx.check(pvc.get_ineq_const_eps() == ineq_thr, "ineq_threshold_documented", f"{pvc.get_ineq_const_eps()} vs {ineq_thr}")
        ctx.check(pvc.get_eq_const_eps(True) == EQ_THR_PARA_TRUE and pvc.get_eq_const_eps(False) == EQ_THR_PARA_FALSE,
                  "eq_threshold_documented", f"{pvc.get_eq_const_eps(True)} {pvc.get_eq_const_eps(False)}")
        verdict = checker.execute_physicality_violation_check(show_detail=case["show_detail"])
        allres = checker.execute_all(show_summary=False, show_detail=False, with_detail=True,
                                     exec_check={"consistency": False, "mse_of_estimators": False, "mse_of_empi_dists": False,
                                                 "physicality_violation": True})
    finally:
        pvc.set_ineq_const_eps(old_eps)
    ctx.check(isinstance(verdict, (bool, np.bool_)), "verdict_is_bool", type(verdict).__name__)
    ok_all = (isinstance(allres, dict) and len(allres.get("results", [])) == 1 and allres["results"][0]["name"] == "Physicality Violation")
    ctx.check(ok_all, "execute_all_layout", str(allres)[:200])
    if ok_all:
        ctx.check(bool(allres["results"][0]["result"]) == bool(verdict) and bool(allres["total_result"]) == bool(verdict),
                  "execute_all_agrees", f"{allres} vs {verdict}")
    if viol:
        ctx.label("expected:False")
        ctx.check(not bool(verdict), f"verdict_false_when_enforced_violated:{est_name}",
                  f"check passed although an enforced constraint is violated beyond 10x threshold (eq_thr={eq_thr}, ineq_thr={ineq_thr})")
    elif clean:
        ctx.label("expected:True")
        ctx.check(bool(verdict), f"verdict_true_when_nothing_enforced_violated:{est_name}",
                  f"check failed although every enforced constraint holds within threshold/10 (enforced eq={enf_eq} ineq={enf_in})")
    else:
        ctx.label("margin-band")
    ctx.nontrivial(any_big and (viol or clean))


# ============================================================================= facets
FACETS = {
    "flow_reproducible": {
        "strategy": flow_case,
        "check": check_flow,
        "minimize": minimize_flow,
        "budget": {"quick": {"examples": 32, "shards": 8}, "thorough": {"examples": 256, "shards": 16}},
        "nontrivial": "every case: eleven runs (in-process, fresh interpreter x2, 4 levels x {2,4} real loky workers) compared",
        "min_nontrivial": 6,
    },
    "single_setting_entry": {
        "strategy": single_case,
        "check": check_single,
        "budget": {"quick": {"examples": 600, "shards": 4}, "thorough": {"examples": 8000, "shards": 16}},
        "nontrivial": "n_rep >= 2 and the collision bound makes 'repetitions differ' decidable (false alarm < 1e-13)",
        "min_nontrivial": 20,
    },
    "independent_repetitions": {
        "strategy": indep_case,
        "check": check_indep,
        "budget": {"quick": {"examples": 120, "shards": 4}, "thorough": {"examples": 2000, "shards": 16}},
        "nontrivial": "pairwise distinctness decidable for at least one sample of the flow",
        "min_nontrivial": 10,
    },
    "re_estimate": {
        "strategy": reest_case,
        "check": check_reest,
        "budget": {"quick": {"examples": 96, "shards": 8}, "thorough": {"examples": 1200, "shards": 16}},
        "nontrivial": ">= 2 repetitions or >= 2 samples re-estimated",
        "min_nontrivial": 10,
    },
    "noise_models": {
        "strategy": noise_model_case,
        "check": check_noise,
        "budget": {"quick": {"examples": 1600, "shards": 4}, "thorough": {"examples": 24000, "shards": 16}},
        "nontrivial": "depolarized: output moved by > 1e-6 or p == 0; lindbladian: positive strength",
        "min_nontrivial": 50,
    },
    "physicality_check_verdict": {
        "strategy": verdict_case,
        "check": check_verdict,
        "budget": {"quick": {"examples": 2400, "shards": 4}, "thorough": {"examples": 40000, "shards": 16}},
        "nontrivial": "some estimate violates a constraint by >= 10x its threshold and the verdict is decidable",
        "min_nontrivial": 50,
    },
}
